"""C12 – statistics and density estimates are computed from exactly the
filtered events.

R12.1 filter taint (intraprocedural def-use over the CFG).  Enumerated from
      the code: every function of the anchored modules in which feature data
      read from a dataset (``self[feat]`` in RTDCBase, ``ds[c]``) reach an
      estimator, a downsampler, a bin-width rule, a statistic
      (``self.method``), a text / FCS / AVI writer or – in functions whose
      docstring or body refers to the filter – the return value.  Raw feature
      data must have passed a subscript whose index derives from
      ``….filter.all`` before they reach the sink, unless they were read under
      a branch that says filtering is not wanted (``filtered`` false,
      ``enable filters`` false) or, event by event, under a test implying
      "not filtered or filter.all[i]".  The dataset-level statistics (Events,
      %-gated) are evaluated on a model filter.
R12.2 axis pairing and order of operations: every scaling call receives data,
      scale and feature name of one axis; the estimator gets x events / x
      positions scaled like the x axis and likewise for y; coordinates that
      were scaled are transformed back with ``exp`` exactly under
      ``<axis>scale == "log"`` before they are returned; ``_apply_scale`` is
      the identity for "linear", ``np.log`` for "log", an error otherwise.
R12.3 invalid values: the wrapper ``ignore_nan_inf`` (evaluated symbolically)
      hands the estimator exactly the events that are finite in x and y and
      the finite positions, writes NaN at invalid positions into a fresh
      array; every estimator of ``kde_methods.methods`` whose result depends
      on event values is wrapped; ``Statistics.get_feature`` returns the
      finite values of the selected events.
R12.4 quantile levels: invalid events are removed from both coordinates with
      one mask, grid and events of an axis are normalised by the same
      quantity, the level is the q*100-th percentile of the densities
      interpolated at the events.
R12.5 purge before statistics (def-use over the CFG, sibling agreement):
      every bin-width / bin-number helper of kde_methods (``bin_width_*``,
      ``bin_num_*`` and any function with the same idiom) removes NaN and
      inf from its parameter (``data = a[~bad]``) and takes every statistic
      (size, min, max, skew, percentile …) from the purged value; the raw
      parameter is only used to compute the mask, to form the purged value,
      or as the argument of a sibling that purges it itself.
R12.7 contour grid: the events that define the extent of the grid (min /
      max / number of points handed to ``np.linspace``) are selected from the
      scaled events with a mask that depends on *both* coordinates – the
      joint validity the estimator wrapper applies – so an event the
      estimator drops cannot stretch the grid.
R12.8 dtype discipline of the estimators (kde_methods, kde_contours,
      external/statsmodels/nonparametric): a buffer that receives kernel /
      density values through subscript stores is allocated floating
      (``np.empty/zeros/ones/full`` with the default or an explicit float
      dtype); ``*_like(<data>)`` without an explicit float dtype inherits the
      dtype of the input (integer features would truncate the values).
R12.9 observation matrices of the multivariate estimator: the matrix of
      output positions that ``kde_multivariate`` hands to ``.pdf(...)`` (and
      the event data handed to the constructor) is built symbolically from
      its constructor (vstack / column_stack / stack / array / c_ / .T …) for
      N = 0, 1, k, k+1, 5 positions and pushed through the parsed
      ``_adjust_shape``: it must reach ``gpke`` with one row per position for
      every N – in particular for N == k_vars, where ``_adjust_shape`` cannot
      guess the orientation of a (k, N) matrix – or the constructor must
      reject the case itself.
R12.6 downsampled scatter (evaluated symbolically): the returned mask has
      the length of the dataset and marks exactly the events whose data are
      returned, which are selected events.
R12.10 analysis functions leave their array arguments alone (forward
      may-alias dataflow over the CFG, lib_C12): in every value-returning
      function of kde_contours, kde_methods, statistics, downsampling, the
      multivariate estimator and the KDE / downsampling entry points of
      RTDCBase, no augmented assignment, subscript / attribute store,
      ``out=``, in-place method or in-place numpy function – directly or
      through a function of the same module that writes its parameter –
      reaches a parameter or a view of it (basic slice, reshape, asarray,
      transpose, memoryview) that was not copied first.  The KDE handed to
      ``get_quantile_levels`` is the caller's estimate; rescaling it in place
      changes every later level computed from it.
R12.11 header and values of ``get_statistics`` stay paired (the parsed
      function is evaluated on model datasets with / without a requested
      feature, explicit and default method and feature lists): both lists
      have the same length and the entry at position i of the header names
      the method (and the feature) whose value stands at position i; the
      placeholder of a feature the dataset lacks stands under a header of
      that feature.
"""
from __future__ import annotations

import ast
import itertools
import re

from ..cfg import CFG
from ..core import (AnalysisError, call_name, const_str, dotted, kwarg,
                    last_attr, names_in, qualname, short, txt, walk)
from ..normalize import inline_helpers
from .. import lib_C12
from ..lib_C02 import (Arr, ClassModel, Ev, Feat, Mini, ModelFault, NS,
                       SelfModel, numpy_model)

ASSUMPTIONS = [
    "NOT decided: that each estimator equals its reference (histogram "
    "spline, Gaussian, product kernel), the bin-width rules, the numerical "
    "value of statistics and quantile levels, freshness of ds.filter.all "
    "(apply_filter is the caller's duty, C03).",
    "R12.1 is intraprocedural (same-class helper methods are summarised by "
    "the taint of their return values); datasets are recognised as `self` "
    "inside RTDCBase, parameters named ds / rtdc_ds / mm or documented as "
    "RTDCBase, and locals bound from `.rtdc_ds` / kwargs['ds'].  Entry "
    "points outside the anchored modules (e.g. dclab/lme4) are listed in the "
    "evidence notes of the thorough tier, not judged.",
    "Scaling before filtering is not reported (element-wise, same result).",
    "R12.10: parameters are taken to be ndarrays (asarray / ravel / reshape "
    "/ basic slices of them share the buffer); callees outside the module "
    "(numpy / scipy value-returning functions, decorated estimators) are "
    "taken to return fresh arrays and not to write into their arguments; "
    "procedures without a return value (populate_grid) are judged at their "
    "call sites only; writes through containers or unclassifiable "
    "subscripts are an analysis error, not a finding.",
    "R12.11 decides the pairing on model datasets (two no-feature and two "
    "feature statistics, present / missing features), not the wording of "
    "the labels.",
]

CORE = "dclab/rtdc_dataset/core.py"
STAT = "dclab/statistics.py"
EXP = "dclab/rtdc_dataset/export.py"
KDE = "dclab/kde_methods.py"
KDC = "dclab/kde_contours.py"
SCOPE = [CORE, STAT, EXP]
DATASET_CLASSES = {"RTDCBase"}
DS_PARAMS = {"ds", "rtdc_ds", "mm"}

SRC, RAW_OK, RAW_BAD, FILT = "SRC", "RAW_OK", "RAW_BAD", "FILT"


# ----------------------------------------------------------------------
# boolean implication over atoms

# attributes of `<dataset>.filter` that are the combined selection or are
# derived from it inside the Filter class (filled in by run())
FILTER_ALL_NAMES = {"all"}
# derived from `all` but remembered without being dropped by update / reset
FILTER_STALE_NAMES = set()


def filter_all_names(repo):
    """`all` plus the properties / methods of rtdc_dataset.filter.Filter
    whose value derives from the combined filter array only"""
    names = {"all"}
    cls = repo.cls("dclab/rtdc_dataset/filter.py", "Filter",
                   missing_ok=True)
    if cls is None:
        return names
    for st in cls.body:
        if not isinstance(st, ast.FunctionDef) or st.name.startswith("__") \
                or st.name in ("update", "reset", "all"):
            continue
        if len(st.args.args) != 1:
            continue        # takes arguments: not a view of the filter
        uses_all = False
        uses_other = False
        for n in walk(st):
            if isinstance(n, ast.Attribute) and isinstance(
                    n.value, ast.Name) and n.value.id == "self":
                if n.attr == "all":
                    uses_all = True
                elif n.attr in ("box", "invalid", "polygon", "manual"):
                    uses_other = True
            if isinstance(n, ast.Call) and last_attr(n) in (
                    "_get_rw_array", "_get_ro_array") and n.args:
                if const_str(n.args[0]) == "all":
                    uses_all = True
                else:
                    uses_other = True
        if not (uses_all and not uses_other):
            continue
        # a memo inside the accessor is only a view of the *current*
        # selection if every method that rewrites the filter arrays
        # (update, reset) drops it
        memos = {t.attr for n in walk(st) if isinstance(n, ast.Assign)
                 for t in n.targets if isinstance(t, ast.Attribute)
                 and isinstance(t.value, ast.Name) and t.value.id == "self"}
        fresh = True
        for m in memos:
            for wname in ("update", "reset"):
                w = [x for x in cls.body if isinstance(x, ast.FunctionDef)
                     and x.name == wname]
                if not w:
                    continue
                dropped = any(
                    isinstance(n, ast.Assign) and any(
                        isinstance(t, ast.Attribute) and t.attr == m
                        and isinstance(t.value, ast.Name)
                        and t.value.id == "self" for t in n.targets)
                    and isinstance(n.value, ast.Constant)
                    and n.value.value is None for n in walk(w[0])) or any(
                    isinstance(n, ast.Delete) and any(
                        isinstance(t, ast.Attribute) and t.attr == m
                        for t in n.targets) for n in walk(w[0]))
                if not dropped:
                    fresh = False
        if fresh:
            names.add(st.name)
        else:
            FILTER_STALE_NAMES.add(st.name)
    return names


def _is_filter_all(e):
    return (isinstance(e, ast.Attribute) and e.attr in FILTER_ALL_NAMES
            and isinstance(e.value, ast.Attribute)
            and e.value.attr == "filter")


def _atom_kind(e, idx_txt):
    if isinstance(e, ast.Name) and e.id == "filtered":
        return "A"
    if isinstance(e, ast.Subscript) and const_str(e.slice) == \
            "enable filters":
        return "A"
    if isinstance(e, ast.Subscript) and _is_filter_all(e.value) \
            and idx_txt is not None and txt(e.slice) == idx_txt:
        return "B"
    return None


def _bool_eval(e, val, idx_txt):
    """evaluate the boolean skeleton of `e`; `val(key)` gives atom values"""
    if isinstance(e, ast.BoolOp):
        vs = [_bool_eval(v, val, idx_txt) for v in e.values]
        return all(vs) if isinstance(e.op, ast.And) else any(vs)
    if isinstance(e, ast.UnaryOp) and isinstance(e.op, ast.Not):
        return not _bool_eval(e.operand, val, idx_txt)
    return val(txt(e))


def _atoms(e, idx_txt, out, res=None):
    if isinstance(e, ast.BoolOp):
        for v in e.values:
            _atoms(v, idx_txt, out, res)
    elif isinstance(e, ast.UnaryOp) and isinstance(e.op, ast.Not):
        _atoms(e.operand, idx_txt, out, res)
    else:
        k = _atom_kind(e, idx_txt)
        if k is None and res is not None and isinstance(e, ast.Name):
            # a local that stands for the flag (`enabled = cfg[...]`)
            v = res(e.id)
            if v is not None:
                k = _atom_kind(v, idx_txt)
        out[txt(e)] = k


def edge_implies_unfiltered_ok(test, label, idx_txt=None, res=None):
    """taking the `label` branch of `test` guarantees: filtering is not
    wanted, or (with idx_txt) the event idx_txt is selected"""
    atoms = {}
    _atoms(test, idx_txt, atoms, res)
    if not any(k for k in atoms.values()):
        return False
    keys = sorted(atoms)
    seen = False
    for bits in itertools.product((False, True), repeat=len(keys)):
        asg = dict(zip(keys, bits))
        if _bool_eval(test, asg.__getitem__, idx_txt) != label:
            continue
        seen = True
        a_true = any(asg[k] for k in keys if atoms[k] == "A")
        has_a = any(atoms[k] == "A" for k in keys)
        b_true = any(asg[k] for k in keys if atoms[k] == "B")
        if has_a and not a_true:
            continue
        if b_true:
            continue
        return False
    return seen


# ----------------------------------------------------------------------
# taint analysis of one function

class FuncTaint:
    def __init__(self, repo, rel, func, cls=None, summaries=None):
        self.repo = repo
        self.rel = rel
        self.func = func
        self.cls = cls
        self.summaries = summaries if summaries is not None else {}
        self.cfg = CFG(func)
        self.ds_names = self._dataset_names()
        self.est_names = self._estimator_names()
        self.doc = ast.get_docstring(func) if not isinstance(
            func, ast.Lambda) else ""
        self.doc = self.doc or ""
        self.sources = [n for n in walk(func) if self.is_source(n)]
        self.state_in = {}
        self._solve()

    def single_def(self, name):
        """value of a local that is assigned exactly once"""
        if not hasattr(self, "_single"):
            cnt, val = {}, {}
            for n in walk(self.func):
                if isinstance(n, ast.Name) and isinstance(n.ctx, ast.Store):
                    cnt[n.id] = cnt.get(n.id, 0) + 1
                if isinstance(n, ast.Assign) and len(n.targets) == 1 \
                        and isinstance(n.targets[0], ast.Name):
                    val[n.targets[0].id] = n.value
            self._single = {k: v for k, v in val.items() if cnt.get(k) == 1}
        return self._single.get(name)

    # -- recognisers
    def _dataset_names(self):
        f = self.func
        names = set()
        args = f.args
        params = [a.arg for a in args.posonlyargs + args.args
                  + args.kwonlyargs]
        if self.cls is not None and self.cls.name in DATASET_CLASSES \
                and params and params[0] == "self":
            names.add("self")
        doc = (ast.get_docstring(f) or "") if not isinstance(
            f, ast.Lambda) else ""
        for p in params:
            if p in DS_PARAMS:
                names.add(p)
            elif re.search(rf"^\s*{re.escape(p)}\s*:.*RTDCBase", doc,
                           re.M):
                names.add(p)
        for n in walk(f):
            if isinstance(n, ast.Assign) and len(n.targets) == 1 \
                    and isinstance(n.targets[0], ast.Name):
                v = n.value
                if isinstance(v, ast.Attribute) and v.attr == "rtdc_ds":
                    names.add(n.targets[0].id)
                elif isinstance(v, ast.Subscript) and const_str(
                        v.slice) == "ds":
                    names.add(n.targets[0].id)
        return names

    def _estimator_names(self):
        out = set()
        for n in walk(self.func):
            if isinstance(n, ast.Assign) and len(n.targets) == 1 \
                    and isinstance(n.targets[0], ast.Name) and isinstance(
                    n.value, ast.Subscript) and (dotted(
                        n.value.value) or "").endswith("methods"):
                out.add(n.targets[0].id)
        return out

    def is_source(self, n):
        return (isinstance(n, ast.Subscript) and isinstance(
            n.ctx, ast.Load) and isinstance(n.value, ast.Name)
            and n.value.id in self.ds_names
            and not isinstance(n.slice, ast.Slice))

    # -- guards
    def _node_of(self, astnode):
        n = astnode
        while n is not None and not self.cfg.ids_of(n):
            n = getattr(n, "parent", None)
        return n

    def guarded(self, astnode, idx_txt=None):
        """every path to the CFG node evaluating `astnode` crosses an edge
        that implies 'filtering not wanted' (or 'event idx selected') after
        the last rebinding of the index"""
        st = self._node_of(astnode)
        if st is None:
            return False
        idx_names = set()
        if idx_txt is not None:
            idx_names = {x.id for x in ast.walk(ast.parse(
                idx_txt, mode="eval")) if isinstance(x, ast.Name)}

        def establishes(src, lab, dst):
            if src.kind == "test" and lab in ("T", "F"):
                return edge_implies_unfiltered_ok(
                    src.ast.test, lab == "T", idx_txt, self.single_def)
            return False
        kills = [self.cfg.entry]
        for node in self.cfg.nodes:
            if node.ast is None:
                continue
            if node.kind == "for" and idx_names & names_in(node.ast.target):
                kills.append(node.id)
            elif node.kind == "stmt" and isinstance(
                    node.ast, (ast.Assign, ast.AugAssign)):
                tg = node.ast.targets if isinstance(
                    node.ast, ast.Assign) else [node.ast.target]
                for t in tg:
                    if isinstance(t, ast.Name) and (
                            t.id in idx_names or t.id == "filtered"):
                        kills.append(node.id)
        r = self.cfg.reach(kills, avoid_edge=establishes,
                           include_sources=True)
        ids = self.cfg.ids_of(st)
        # a comprehension `if` inside the statement may guard as well
        return bool(ids) and not any(i in r for i in ids)

    # -- expression taint
    def tv(self, e, st, bound=None):
        bound = bound or {}
        if e is None or isinstance(e, ast.Constant):
            return frozenset()
        if isinstance(e, ast.Name):
            if e.id in bound:
                return bound[e.id]
            return st.get(e.id, frozenset())
        if _is_filter_all(e):
            return frozenset({FILT})
        if isinstance(e, ast.Attribute):
            if e.attr in ("shape", "dtype", "size", "ndim"):
                return frozenset()
            return self.tv(e.value, st, bound)
        if isinstance(e, ast.Subscript):
            if self.is_source(e):
                ok = self.guarded(e)
                return frozenset({SRC, RAW_OK if ok else RAW_BAD})
            sv = self.tv(e.slice, st, bound) if not isinstance(
                e.slice, ast.Slice) else frozenset()
            vv = self.tv(e.value, st, bound)
            if FILT in sv:
                return vv - {RAW_OK, RAW_BAD}
            if self.is_source(e.value) and RAW_BAD in vv:
                # event-wise access ds[feat][i]
                if self.guarded(e, idx_txt=txt(e.slice)):
                    return (vv - {RAW_BAD}) | {RAW_OK}
            return vv
        if isinstance(e, ast.Call):
            name = call_name(e) or ""
            if name == "len":
                return frozenset()
            out = frozenset()
            for a in e.args:
                out |= self.tv(a.value if isinstance(
                    a, ast.Starred) else a, st, bound)
            for k in e.keywords:
                out |= self.tv(k.value, st, bound)
            if isinstance(e.func, ast.Attribute):
                if isinstance(e.func.value, ast.Name) \
                        and e.func.value.id == "self" and self.cls is not None:
                    s = self.summary(e.func.attr)
                    if s is not None:
                        return out | s
                out |= self.tv(e.func.value, st, bound)
            return out
        if isinstance(e, (ast.ListComp, ast.SetComp, ast.GeneratorExp,
                          ast.DictComp)):
            b = dict(bound)
            for g in e.generators:
                t = self.tv(g.iter, st, b)
                for nm in names_in(g.target):
                    b[nm] = t
            if isinstance(e, ast.DictComp):
                return self.tv(e.key, st, b) | self.tv(e.value, st, b)
            return self.tv(e.elt, st, b)
        if isinstance(e, ast.Lambda):
            return frozenset()
        out = frozenset()
        for c in ast.iter_child_nodes(e):
            if isinstance(c, ast.expr):
                out |= self.tv(c, st, bound)
        return out

    def summary(self, meth):
        key = (self.rel, self.cls.name, meth)
        if key in self.summaries:
            return self.summaries[key]
        node = None
        for stn in self.cls.body:
            if isinstance(stn, ast.FunctionDef) and stn.name == meth:
                node = stn
        if node is None:
            return None
        self.summaries[key] = frozenset()     # recursion guard
        ft = FuncTaint(self.repo, self.rel, node, self.cls, self.summaries)
        out = frozenset()
        for nid, r in ft.returns():
            out |= ft.tv(r.value, ft.state_in.get(nid, {}))
        self.summaries[key] = out
        return out

    # -- dataflow
    def _transfer(self, node, st):
        a = node.ast
        if a is None:
            return st
        new = dict(st)

        def bind(target, t):
            if isinstance(target, ast.Name):
                new[target.id] = t
            elif isinstance(target, (ast.Tuple, ast.List)):
                for x in target.elts:
                    bind(x, t)
            elif isinstance(target, ast.Starred):
                bind(target.value, t)
            elif isinstance(target, ast.Subscript):
                base = target.value
                while isinstance(base, (ast.Subscript, ast.Attribute)):
                    base = base.value
                if isinstance(base, ast.Name):
                    new[base.id] = new.get(base.id, frozenset()) | t
        if node.kind == "stmt":
            if isinstance(a, ast.Assign):
                t = self.tv(a.value, st)
                for tg in a.targets:
                    bind(tg, t)
            elif isinstance(a, ast.AnnAssign) and a.value is not None:
                bind(a.target, self.tv(a.value, st))
            elif isinstance(a, ast.AugAssign):
                t = self.tv(a.value, st) | self.tv(_load(a.target), st)
                bind(a.target, t)
        elif node.kind == "for":
            bind(a.target, self.tv(a.iter, st))
        elif node.kind == "with_enter":
            for it in a.items:
                if it.optional_vars is not None:
                    bind(it.optional_vars, self.tv(it.context_expr, st))
        return new

    def _solve(self):
        cfg = self.cfg
        out = {}
        work = [cfg.entry]
        self.state_in = {cfg.entry: {}}
        n_iter = 0
        while work:
            n_iter += 1
            if n_iter > 20000:
                raise AnalysisError("taint fixpoint did not converge in "
                                    + qualname(self.func))
            i = work.pop()
            st = self.state_in.get(i, {})
            o = self._transfer(cfg.nodes[i], st)
            if out.get(i) == o and i in out:
                continue
            out[i] = o
            o_plain = o
            for (j, lab) in cfg.succ[i]:
                o = o_plain
                nd = cfg.nodes[i]
                if nd.kind == "test" and lab in ("T", "F") \
                        and edge_implies_unfiltered_ok(
                            nd.ast.test, lab == "T", None, self.single_def):
                    # on this path filtering is not wanted: raw data are
                    # what the caller asked for
                    o = {k: (v - {RAW_BAD}) | {RAW_OK} if RAW_BAD in v else v
                         for k, v in o_plain.items()}
                cur = self.state_in.get(j)
                if cur is None:
                    self.state_in[j] = dict(o)
                    work.append(j)
                else:
                    merged = dict(cur)
                    changed = False
                    for k, v in o.items():
                        nv = merged.get(k, frozenset()) | v
                        if nv != merged.get(k):
                            merged[k] = nv
                            changed = True
                    if changed:
                        self.state_in[j] = merged
                        work.append(j)

    # -- sinks
    def returns(self):
        out = []
        for node in self.cfg.nodes:
            if node.kind == "stmt" and isinstance(node.ast, ast.Return) \
                    and node.ast.value is not None \
                    and node.id in self.state_in:
                out.append((node.id, node.ast))
        return out

    def filter_aware(self):
        if re.search(r"filter", self.doc, re.I):
            return True
        if any(_is_filter_all(n) for n in walk(self.func)):
            return True
        a = self.func.args
        return any(p.arg == "filtered" for p in a.args + a.kwonlyargs)

    def sink_sites(self):
        """[(cfg node id, ast node for the key, label, [data exprs])]"""
        out = []
        for node in self.cfg.nodes:
            if node.ast is None or node.id not in self.state_in:
                continue
            for c in _node_calls(node):
                d = self.sink_data(c)
                if d:
                    out.append((node.id, c, d[0], d[1]))
        if self.filter_aware():
            for nid, r in self.returns():
                out.append((nid, r, "return", [r.value]))
        return out

    def sink_data(self, c):
        name = call_name(c) or ""
        attr = last_attr(c)
        if isinstance(c.func, ast.Name) and c.func.id in self.est_names \
                or re.match(r"(kde_methods\.)?kde_\w+$", name):
            return "estimator", [x for x in (kwarg(c, "events_x", 0),
                                             kwarg(c, "events_y", 1)) if x]
        if name.endswith("downsample_grid"):
            return "downsampler", [x for x in (kwarg(c, "a", 0),
                                               kwarg(c, "b", 1)) if x]
        if name.endswith("downsample_rand"):
            return "downsampler", [x for x in (kwarg(c, "a", 0),) if x]
        if name in ("np.savetxt", "numpy.savetxt"):
            return "text writer", [x for x in (kwarg(c, "X", 1),) if x]
        if name.endswith("write_fcs"):
            return "FCS writer", [x for x in (kwarg(c, "data", 2),) if x]
        if attr == "append_data" and isinstance(c.func, ast.Attribute):
            return "AVI writer", list(c.args[:1])
        if isinstance(c.func, ast.Attribute) and attr == "method" \
                and isinstance(c.func.value, ast.Name) \
                and c.func.value.id == "self":
            return "statistic", list(c.args[:1])
        if attr == "get_kde_spacing" or re.match(
                r"(kde_methods\.)?bin_(width|num)_\w+$", name):
            return "bin-width rule", [x for x in (kwarg(c, "a", 0),) if x]
        return None


def _load(t):
    return ast.parse(txt(t), mode="eval").body


def _node_calls(n):
    a = n.ast
    if n.kind == "test":
        roots = [a.test]
    elif n.kind == "for":
        roots = [a.iter]
    elif n.kind == "with_enter":
        roots = [it.context_expr for it in a.items]
    elif n.kind in ("with_exit", "handler", "join", "dispatch"):
        roots = []
    elif isinstance(a, (ast.FunctionDef, ast.ClassDef)):
        roots = []
    else:
        roots = [a]
    out = []
    for r in roots:
        out += [c for c in walk(r) if isinstance(c, ast.Call)]
    return out


class _Norm(ast.NodeTransformer):
    """`np.logical_not(m)` / `np.invert(m)` is `~m`; a call of a local that
    is bound once to `functools.partial(f, *a, **k)` is a call of `f` with
    the merged arguments"""

    def __init__(self, partials):
        self.partials = partials

    def visit_FunctionDef(self, node):
        if getattr(self, "_root", None) is None:
            self._root = node
            self.generic_visit(node)
        return node

    def visit_Lambda(self, node):
        return node

    def visit_Call(self, node):
        self.generic_visit(node)
        if last_attr(node) in ("logical_not", "invert") and isinstance(
                node.func, ast.Attribute) and dotted(node.func.value) in (
                "np", "numpy") and len(node.args) == 1 \
                and not node.keywords:
            return ast.copy_location(
                ast.UnaryOp(op=ast.Invert(), operand=node.args[0]), node)
        if isinstance(node.func, ast.Name) and node.func.id in self.partials:
            p = self.partials[node.func.id]
            given = {k.arg for k in node.keywords}
            return ast.copy_location(ast.Call(
                func=p.args[0],
                args=list(p.args[1:]) + list(node.args),
                keywords=[k for k in p.keywords if k.arg not in given]
                + list(node.keywords)), node)
        return node


def norm(func):
    """normalised copy of a function (see _Norm); parent links kept"""
    import copy
    from ..core import link
    partials = {}
    counts = {}
    for n in walk(func):
        if isinstance(n, ast.Name) and isinstance(n.ctx, ast.Store):
            counts[n.id] = counts.get(n.id, 0) + 1
    for n in walk(func):
        if isinstance(n, ast.Assign) and len(n.targets) == 1 \
                and isinstance(n.targets[0], ast.Name) and isinstance(
                n.value, ast.Call) and (call_name(n.value) or "") in (
                "functools.partial", "partial") and n.value.args \
                and counts.get(n.targets[0].id) == 1 \
                and all(k.arg for k in n.value.keywords):
            partials[n.targets[0].id] = n.value
    uses_not = any(isinstance(c, ast.Call) and last_attr(c) in (
        "logical_not", "invert") for c in walk(func))
    if not partials and not uses_not:
        return func
    new = copy.deepcopy(func)
    # (the partial objects of the copy)
    cp = {}
    for n in walk(new):
        if isinstance(n, ast.Assign) and len(n.targets) == 1 \
                and isinstance(n.targets[0], ast.Name) \
                and n.targets[0].id in partials:
            cp[n.targets[0].id] = copy.deepcopy(n.value)
    new = _Norm(cp).visit(new)
    ast.fix_missing_locations(new)
    link(new)
    new.parent = getattr(func, "parent", None)
    return new


def functions_with_class(repo, rel):
    def rec(node, cls):
        for st in getattr(node, "body", []):
            if isinstance(st, ast.ClassDef):
                yield from rec(st, st)
            elif isinstance(st, (ast.FunctionDef, ast.AsyncFunctionDef)):
                yield st, cls
    yield from rec(repo.tree(rel), None)


def stale_note(func):
    used = sorted({n.attr for n in walk(func) if isinstance(n, ast.Attribute)
                   and n.attr in FILTER_STALE_NAMES and isinstance(
                       n.value, ast.Attribute) and n.value.attr == "filter"})
    if not used:
        return ""
    return (f" – `filter.{used[0]}` is not accepted as the current "
            f"selection: Filter remembers it and not every method that "
            f"rewrites the filter arrays (update, reset) drops the memo")


def r121(ctx, repo):
    entry_points = []
    n_funcs = 0
    summaries = {}
    for rel in SCOPE:
        for func, cls in functions_with_class(repo, rel):
            n_funcs += 1
            ft = FuncTaint(repo, rel, norm(func), cls, summaries)
            per_site = {}
            for nid, node, kind, exprs in ft.sink_sites():
                st = ft.state_in.get(nid, {})
                tags = frozenset()
                for e in exprs:
                    tags |= ft.tv(e, st)
                if SRC not in tags:
                    continue
                key = id(node)
                cur = per_site.setdefault(key, [node, kind, frozenset()])
                cur[2] = cur[2] | tags
            # no feature data is remembered beyond the call (attribute of
            # the instance / a class / a module global)
            glob = {nm for n in walk(ft.func) if isinstance(n, ast.Global)
                    for nm in n.names}
            kept = []
            for node in ft.cfg.nodes:
                if node.kind != "stmt" or node.id not in ft.state_in \
                        or not isinstance(node.ast, (ast.Assign,
                                                     ast.AugAssign)):
                    continue
                tgs = node.ast.targets if isinstance(
                    node.ast, ast.Assign) else [node.ast.target]
                for tg in tgs:
                    base = tg
                    via_attr = False
                    while isinstance(base, (ast.Subscript, ast.Attribute)):
                        via_attr = via_attr or isinstance(
                            base, ast.Attribute)
                        base = base.value
                    if not isinstance(base, ast.Name):
                        continue
                    outer = (via_attr and (
                        base.id in ("self", "cls") or base.id[:1].isupper())
                    ) or base.id in glob
                    if outer and SRC in ft.tv(node.ast.value,
                                              ft.state_in[node.id]):
                        kept.append(node.ast)
            if kept or (rel == STAT and ft.sources):
                ctx.ob("R12.1", not kept,
                       "no feature data are remembered beyond the call "
                       "(the dataset and filter.all are read on every call)"
                       if not kept else
                       f"`{short(kept[0], 60)}` keeps feature data beyond "
                       f"the call: a later call can hand out the data of an "
                       f"earlier filter state instead of reading the "
                       f"dataset and filter.all again", node=kept[0]
                       if kept else func,
                       label="no feature data remembered across calls")
            if per_site:
                entry_points.append(f"{rel}::{qualname(func)}")
            count = {}
            for node, kind, tags in per_site.values():
                ok = RAW_BAD not in tags
                lab0 = f"{kind} {short(node, 48)}" if kind != "return" \
                    else f"return {short(node.value, 48)}"
                count[lab0] = count.get(lab0, 0) + 1
                lab = lab0 if count[lab0] == 1 else f"{lab0} #{count[lab0]}"
                how = ("filtered" if not (tags & {RAW_OK}) else
                       "filtered, or read where filtering is switched off")
                ctx.ob("R12.1", ok,
                       f"feature data reaching this {kind} are {how}"
                       if ok else
                       f"unfiltered feature data reach this {kind}: a value "
                       f"read from the dataset is used without the "
                       f"`[….filter.all]` selection on some path (and not "
                       f"under a test that filtering is not wanted)"
                       + stale_note(ft.func),
                       node=node, label=f"filter taint: {lab}")
    ctx.stat("R12.1 functions analysed", n_funcs)
    ctx.stat("R12.1 entry points (functions with a data sink)", entry_points)
    # dataset-level statistics: evaluated on a model filter
    reg = registered_statistics(repo)
    ctx.stat("registered statistics", sorted(reg))
    for name, want in (("Events", lambda m: sum(m)),
                       ("%-gated", lambda m: 100.0 * sum(m) / len(m))):
        if name not in reg:
            raise AnalysisError(f"statistics.py: registration of '{name}' "
                                f"lost")
        call = reg[name]
        meth = kwarg(call, "method", 1)
        bad = None
        for mask in ([True, False, True, True], [False] * 3, [True] * 2,
                     [False, True, False, False, False]):
            class MM:
                filter = NS("filter", all=Arr(mask, "bool"))

                def __len__(self):
                    return len(mask)
            mm = MM()
            g = {"np": numpy_model(
                average=lambda a: sum(1.0 if x else 0.0 for x in a) / len(a),
                mean=lambda a: sum(1.0 if x else 0.0 for x in a) / len(a))}
            mini = Mini(g)
            mini.bind_module(repo.tree(STAT))
            try:
                if isinstance(meth, ast.Lambda):
                    got = mini.call(meth, (mm,))
                elif isinstance(meth, ast.Name) and meth.id in mini.g:
                    got = mini.g[meth.id](mm)
                else:
                    raise AnalysisError(f"statistic '{name}': method "
                                        f"`{txt(meth)}` not recognised")
            except ModelFault as e:
                bad = bad or str(e)
                continue
            if abs(got - want(mask)) > 1e-9:
                bad = bad or (f"filter {mask}: value {got}, definition "
                              f"gives {want(mask)}")
        ctx.ob("R12.1", bad is None,
               f"statistic '{name}' is computed from filter.all "
               f"(evaluated on 4 model filters)" if bad is None else
               f"statistic '{name}': {bad}", node=call,
               label=f"dataset statistic {name}")
    # feature statistics go through get_feature
    for name, call in sorted(reg.items()):
        rf = kwarg(call, "req_feature", 2)
        if rf is not None and txt(rf) == "True":
            continue
        if name in ("Events", "%-gated"):
            continue
        meth = kwarg(call, "method", 1)
        uses_data = isinstance(meth, ast.Lambda) and any(
            isinstance(n, ast.Subscript) and isinstance(
                n.value, ast.Name) and n.value.id in {
                a.arg for a in meth.args.args} for n in ast.walk(meth.body))
        ctx.ob("R12.1", not uses_data,
               f"statistic '{name}' does not read feature data past the "
               f"filtered accessor" if not uses_data else
               f"statistic '{name}' reads feature data directly from the "
               f"dataset (unfiltered)", node=call,
               label=f"dataset statistic {name}", nontrivial=False)


class _Subst(ast.NodeTransformer):
    def __init__(self, m):
        self.m = m

    def visit_Name(self, node):
        if isinstance(node.ctx, ast.Load) and node.id in self.m:
            import copy
            return copy.deepcopy(self.m[node.id])
        return node

    def visit_Lambda(self, node):
        return node


def registered_statistics(repo):
    """{name: Statistics(...) call}; registrations written as a loop over a
    literal table of tuples are unrolled"""
    import copy
    out = {}

    def take(call):
        nm = kwarg(call, "name", 0)
        if const_str(nm):
            out[const_str(nm)] = call
    for st in repo.tree(STAT).body:
        if isinstance(st, ast.Expr) and isinstance(st.value, ast.Call) \
                and call_name(st.value) == "Statistics":
            take(st.value)
        elif isinstance(st, ast.For) and isinstance(
                st.iter, (ast.List, ast.Tuple)) and not st.orelse:
            tg = st.target.elts if isinstance(
                st.target, ast.Tuple) else [st.target]
            if not all(isinstance(t, ast.Name) for t in tg):
                continue
            for item in st.iter.elts:
                vals = item.elts if isinstance(
                    item, (ast.Tuple, ast.List)) and isinstance(
                    st.target, ast.Tuple) else [item]
                if len(vals) != len(tg):
                    raise AnalysisError("statistics.py: registration table "
                                        "row does not fit the loop target")
                m = {t.id: v for t, v in zip(tg, vals)}
                for b in st.body:
                    if isinstance(b, ast.Expr) and isinstance(
                            b.value, ast.Call) and call_name(
                            b.value) == "Statistics":
                        c = _Subst(m).visit(copy.deepcopy(b.value))
                        ast.fix_missing_locations(c)
                        for n in ast.walk(c):
                            for ch in ast.iter_child_nodes(n):
                                ch.parent = n
                        c.parent = st
                        take(c)
    if len(out) < 4:
        raise AnalysisError("statistics.py: registry of Statistics(...) "
                            "calls not found")
    return out


# ----------------------------------------------------------------------
# R12.2 axis pairing

class Axes:
    """flow-insensitive axis inference ('x' / 'y') inside one function"""

    def __init__(self, func):
        self.func = func
        params = [a.arg for a in func.args.args + func.args.kwonlyargs]
        self.ax = {}
        for p in params:
            if len(p) > 1 and p[0] in "xy":
                other = ("y" if p[0] == "x" else "x") + p[1:]
                if other in params:
                    self.ax[p] = {p[0]}
        self.pos_params = {p for p in params if p in ("positions",)}
        self._fix()

    def of(self, e):
        if e is None:
            return set()
        if isinstance(e, ast.Subscript) and isinstance(
                e.value, ast.Name) and e.value.id in self.pos_params \
                and isinstance(e.slice, ast.Constant) and e.slice.value in (
                0, 1):
            return {"xy"[e.slice.value]}
        out = set()
        if isinstance(e, ast.Name):
            return set(self.ax.get(e.id, ()))
        if isinstance(e, ast.Subscript):
            # selecting elements does not change the axis of the data;
            # `dataset[<feature of an axis>]` takes the axis of the name
            a = self.of(e.value)
            if a or isinstance(e.slice, ast.Slice):
                return a
            return self.of(e.slice)
        for c in ast.iter_child_nodes(e):
            if isinstance(c, ast.expr):
                out |= self.of(c)
            elif isinstance(c, ast.keyword):
                out |= self.of(c.value)
            elif isinstance(c, ast.comprehension):
                out |= self.of(c.iter)
        return out

    def _fix(self):
        for _ in range(20):
            changed = False
            for n in walk(self.func):
                if not isinstance(n, ast.Assign):
                    continue
                for tg in n.targets:
                    pairs = []
                    v = n.value
                    if isinstance(tg, ast.Tuple) and isinstance(
                            v, ast.Call) and (call_name(v) or "").endswith(
                            "meshgrid") and len(tg.elts) == len(v.args):
                        pairs = list(zip(tg.elts, v.args))
                    elif isinstance(tg, ast.Tuple) and isinstance(
                            v, ast.Tuple) and len(tg.elts) == len(v.elts):
                        pairs = list(zip(tg.elts, v.elts))
                    elif isinstance(tg, ast.Tuple):
                        pairs = [(t, v) for t in tg.elts]
                    else:
                        pairs = [(tg, v)]
                    for t, val in pairs:
                        if isinstance(t, ast.Name):
                            a = self.of(val)
                            if not a <= self.ax.get(t.id, set()):
                                self.ax.setdefault(t.id, set()).update(a)
                                changed = True
            if not changed:
                return


def data_names(e):
    """names whose *values* flow into `e` (names that only select
    elements – subscript indices – do not)"""
    out = set()
    stack = [e]
    while stack:
        n = stack.pop()
        if isinstance(n, ast.Name):
            out.add(n.id)
        elif isinstance(n, ast.Subscript):
            stack.append(n.value)
        else:
            stack.extend(ast.iter_child_nodes(n))
    return out


def scaling_calls(func):
    out = []
    for c in [n for n in walk(func) if isinstance(n, ast.Call)]:
        la = last_attr(c)
        if la == "_apply_scale":
            out.append((c, kwarg(c, "a", 0), kwarg(c, "scale", 1),
                        kwarg(c, "feat", 2)))
        elif la == "get_kde_spacing":
            out.append((c, kwarg(c, "a", 0), kwarg(c, "scale", 1),
                        kwarg(c, "feat", 4)))
    return out


def r122(ctx, repo):
    n_calls = 0
    for func, cls in functions_with_class(repo, CORE):
        if func.name in ("_apply_scale", "get_kde_spacing"):
            continue
        func = norm(func)
        # axes can only be mixed where a function has parameters of both
        # axes (x… / y… pairs); generic helpers that scale "an array with
        # a scale" (the scaling primitives, their private wrappers) have
        # none and are followed from their callers instead
        if not Axes(func).ax:
            continue
        # private helpers extracted from the function (e.g. a helper that
        # returns the filtered (x, y) pair, a wrapper of the spacing call)
        # are followed: their body is inlined, tuples are unpacked
        # position by position
        func = inline_helpers(repo, CORE, func,
                              keep=("_apply_scale", "get_kde_spacing"))
        if not scaling_calls(func):
            continue
        sc = scaling_calls(func)
        ax = Axes(func)
        cnt = {}
        scaled = set()
        for c, a, scale, feat in sc:
            n_calls += 1
            if a is None or scale is None:
                raise AnalysisError(f"{func.name}: scaling call "
                                    f"`{short(c)}` without data / scale")
            axs = [ax.of(a), ax.of(scale)] + (
                [ax.of(feat)] if feat is not None else [])
            ok = all(len(s) == 1 for s in axs) and len(
                set(map(frozenset, axs))) == 1
            k = "".join(sorted(ax.of(a))) or "?"
            cnt[k] = cnt.get(k, 0) + 1
            ctx.ob("R12.2", ok,
                   f"`{short(c, 60)}`: data, scale and feature name belong "
                   f"to the {k} axis" if ok else
                   f"`{short(c, 60)}` mixes axes: data {sorted(ax.of(a))}, "
                   f"scale {sorted(ax.of(scale))}, feature "
                   f"{sorted(ax.of(feat)) if feat is not None else '-'}",
                   node=c, label=f"scaling call {k} #{cnt[k]}")
            # names that hold scaled values
            st = c
            while not isinstance(st, ast.stmt):
                st = st.parent
            if isinstance(st, ast.Assign):
                for tg in st.targets:
                    if isinstance(tg, ast.Name):
                        scaled.add(tg.id)
                    elif isinstance(tg, ast.Tuple) and last_attr(
                            c) == "get_kde_spacing":
                        # (spacing, scaled data)
                        if isinstance(tg.elts[-1], ast.Name):
                            scaled.add(tg.elts[-1].id)
                            if isinstance(tg.elts[0], ast.Name):
                                scaled.add(tg.elts[0].id)
        # propagate "scaled" through assignments
        for _ in range(20):
            grew = False
            for n in walk(func):
                if isinstance(n, ast.Assign) and data_names(
                        n.value) & scaled:
                    for tg in n.targets:
                        for t in (tg.elts if isinstance(
                                tg, ast.Tuple) else [tg]):
                            if isinstance(t, ast.Name) and t.id not in scaled:
                                # an exp under `scale == "log"` un-scales
                                scaled.add(t.id)
                                grew = True
            if not grew:
                break
        # estimator / downsampler arguments
        ecount = 0
        for c in [n for n in walk(func) if isinstance(n, ast.Call)]:
            nm = call_name(c) or ""
            is_est = isinstance(c.func, ast.Name) and any(
                isinstance(n, ast.Assign) and isinstance(
                    n.targets[0], ast.Name) and n.targets[0].id == c.func.id
                and isinstance(n.value, ast.Subscript) and (dotted(
                    n.value.value) or "").endswith("methods")
                for n in walk(func))
            if is_est:
                pairs = [("events_x", kwarg(c, "events_x", 0), "x"),
                         ("events_y", kwarg(c, "events_y", 1), "y"),
                         ("xout", kwarg(c, "xout", 2), "x"),
                         ("yout", kwarg(c, "yout", 3), "y")]
            elif nm.endswith("downsample_grid"):
                pairs = [("a", kwarg(c, "a", 0), "x"),
                         ("b", kwarg(c, "b", 1), "y")]
            else:
                continue
            ecount += 1
            bad = []
            for pname, e, want in pairs:
                if e is None:
                    bad.append(f"{pname} missing")
                    continue
                got = ax.of(e)
                if pname in ("xout", "yout") and not got and not names_in(e):
                    continue
                if got != {want}:
                    bad.append(f"{pname}={txt(e)} carries axis "
                               f"{sorted(got) or 'none'}, expected {want}")
                if pname.startswith("events") or pname in ("a", "b"):
                    if not (names_in(e) & scaled):
                        bad.append(f"{pname}={txt(e)} is not the scaled "
                                   f"data of its axis")
            ctx.ob("R12.2", not bad,
                   f"`{short(c, 50)}` receives scaled x data / positions as "
                   f"x and y as y" if not bad else
                   f"`{short(c, 50)}`: " + "; ".join(bad), node=c,
                   label=f"estimator arguments #{ecount}")
        # back-transform of returned coordinates
        backs = {}
        for n in walk(func):
            if isinstance(n, ast.If) and isinstance(
                    n.test, ast.Compare) and len(n.test.ops) == 1 \
                    and isinstance(n.test.ops[0], ast.Eq) \
                    and const_str(n.test.comparators[0]) == "log":
                sa = ax.of(n.test.left)
                for s in n.body:
                    if isinstance(s, ast.Assign) and isinstance(
                            s.value, ast.Call) and (call_name(
                                s.value) or "").endswith("exp") \
                            and isinstance(s.targets[0], ast.Name):
                        v = s.targets[0].id
                        backs.setdefault(v, []).append(
                            (n, sa, ax.of(s.value.args[0]) if s.value.args
                             else set(), txt(s.value.args[0])
                             if s.value.args else ""))
        for r in [n for n in walk(func) if isinstance(n, ast.Return)]:
            elts = r.value.elts if isinstance(
                r.value, ast.Tuple) else [r.value]
            for e in elts:
                a = ax.of(e)
                if len(a) != 1 or not (data_names(e) & scaled):
                    continue
                # the returned value holds scaled data of one axis
                while isinstance(e, ast.Subscript):
                    e = e.value         # selecting events keeps the domain
                if not isinstance(e, ast.Name):
                    raise AnalysisError(
                        f"{func.name}: returned expression "
                        f"`{short(e, 50)}` holds scaled data of one axis in "
                        f"a shape the back-transform rule cannot classify")
                (axis,) = a
                b = backs.get(e.id, [])
                ok = len(b) == 1 and b[0][1] == {axis} and b[0][3] == e.id
                ctx.ob("R12.2", ok,
                       f"returned {axis} coordinates `{e.id}` are "
                       f"transformed back with exp exactly when "
                       f"{axis}scale is 'log'" if ok else
                       f"returned {axis} coordinates `{e.id}` were computed "
                       f"in the scaled domain but are not transformed back "
                       f"with exp under `{axis}scale == \"log\"` "
                       f"(found: {[(txt(x[0].test), x[3]) for x in b]})",
                       node=r, label=f"back-transform {axis}")
        for v, lst in backs.items():
            for (n, sa, va, arg) in lst:
                ok = len(sa) == 1 and sa == va
                ctx.ob("R12.2", ok,
                       f"`{short(n.test)}` un-scales a value of the same "
                       f"axis" if ok else
                       f"`{short(n.test)}` applies exp to `{arg}` of axis "
                       f"{sorted(va)}", node=n,
                       label=f"exp under matching scale {v}",
                       nontrivial=False)
    ctx.stat("R12.2 scaling calls", n_calls)
    # semantics of _apply_scale
    f = repo.func(CORE, "RTDCBase._apply_scale")
    logs = []

    class W:
        def catch_warnings(self, record=False):
            class CM:
                def __enter__(s):
                    return []

                def __exit__(s, *a):
                    pass
            return CM()

        def simplefilter(self, *a, **k):
            pass

        def warn(self, *a, **k):
            pass
    def _log(a, out=None, dtype=None, **k):
        logs.append(a)
        if dtype not in (None, float, "float64", "longdouble"):
            return ("log narrowed to", dtype, a)
        if out is not None:
            return ("log written into", out)
        return ("log", a)
    g = {"np": numpy_model(log=_log,
                           log10=lambda a: ("log10", a),
                           log2=lambda a: ("log2", a),
                           log1p=lambda a: ("log1p", a)),
         "warnings": W()}
    mini = Mini(g)
    # helpers of the analysed file (module-level functions, the class as a
    # namespace) are resolved by their definitions
    mini.bind_module(repo.tree(CORE))
    mini.g["RTDCBase"] = ClassModel(mini, repo.cls(CORE, "RTDCBase"))
    a = Arr([1.0, 2.0], "num")
    res = {}
    for scale in ("linear", "log", "quadratic"):
        try:
            res[scale] = mini.call(f, (a, scale, "deform"))
        except ModelFault as e:
            res[scale] = e
    ok = res["linear"] is a
    ctx.ob("R12.2", ok, "_apply_scale('linear') returns its input" if ok
           else f"_apply_scale('linear') returns {res['linear']!r}", node=f,
           label="_apply_scale linear")
    ok = res["log"] == ("log", a) and len(logs) == 1
    narrowed = isinstance(res["log"], tuple) and res["log"][:1] == (
        "log narrowed to",)
    ctx.ob("R12.2", ok, "_apply_scale('log') returns np.log of its input"
           if ok else (
               f"_apply_scale('log') computes the logarithm with dtype "
               f"{res['log'][1]}: the scaled data lose the precision of the "
               f"feature values, grids / densities / downsampling computed "
               f"on the log scale differ from those of the float64 values"
               if narrowed else
               f"_apply_scale('log') returns {res['log']!r}"), node=f,
           label="_apply_scale log")
    ok = isinstance(res["quadratic"], ModelFault)
    ctx.ob("R12.2", ok, "an unknown scale is rejected" if ok else
           f"an unknown scale silently yields {res['quadratic']!r}", node=f,
           label="_apply_scale unknown")


# ----------------------------------------------------------------------
# R12.3 invalid values

def val_arr(tags, feat):
    return Arr([Ev(feat, i, t) for i, t in enumerate(tags)], "ev")


def np_values(**extra):
    def isnan(a):
        return Arr([isinstance(x, Ev) and x.tag == "nan" for x in a], "bool")

    def isinf(a):
        return Arr([isinstance(x, Ev) and x.tag == "inf" for x in a], "bool")

    def zeros_like(a, dtype=None):
        return Arr([0.0] * len(a), "num")
    d = dict(isnan=isnan, isinf=isinf, zeros_like=zeros_like,
             logical_or=lambda a, b: a | b, float64="float64",
             isfinite=lambda a: ~(isnan(a) | isinf(a)),
             full_like=lambda a, v, dtype=None: Arr([v] * len(a), "num"),
             empty_like=lambda a, dtype=None: Arr([None] * len(a), "num"))
    d.update(extra)
    return numpy_model(**d)


def r123(ctx, repo):
    f = repo.func(KDE, "ignore_nan_inf")
    g = {"np": np_values()}
    mini = Mini(g)
    mini.bind_module(repo.tree(KDE))
    calls = []
    returned = []

    def estimator(events_x, events_y, xout=None, yout=None, *a, **k):
        calls.append((events_x, events_y, xout, yout, a, k))
        pos = events_x if xout is None else xout
        out = Arr([("dens", p.i) for p in pos], "num")
        returned.append(out)
        return out
    estimator.__doc__ = "doc"
    wrapped = mini.call(f, (estimator,))
    if not callable(wrapped):
        raise AnalysisError("ignore_nan_inf does not return a callable")
    T = [None, "nan", None, "inf", None]
    scen = [
        (T, [None] * 5, None, None),
        ([None] * 5, T, None, None),
        (T, [None, None, "inf", None, None], None, None),
        ([None] * 5, [None] * 5, None, None),
        (T, [None] * 5, [None, None, "nan"], [None, "inf", None]),
        ([None] * 5, [None, "nan", None, None, None], [None] * 3,
         [None] * 3),
    ]
    bad = {"events": None, "positions": None, "result": None, "fresh": None,
           "args": None}
    for tx, ty, tox, toy in scen:
        ex, ey = val_arr(tx, "x"), val_arr(ty, "y")
        xo = None if tox is None else val_arr(tox, "px")
        yo = None if toy is None else val_arr(toy, "py")
        calls.clear()
        tag = (f"events x {tx}, y {ty}"
               + ("" if tox is None else f", positions x {tox}, y {toy}"))
        try:
            if xo is None:
                res = wrapped(ex, ey, bins=7)
            else:
                res = wrapped(ex, ey, xo, yo, bins=7)
        except ModelFault as e:
            for k in bad:
                bad[k] = bad[k] or f"{tag}: {e}"
            continue
        if len(calls) != 1:
            bad["events"] = bad["events"] or (
                f"{tag}: the estimator ran {len(calls)} times")
            continue
        gx, gy, gxo, gyo, ga, gk = calls[0]
        good = [i for i in range(5) if tx[i] is None and ty[i] is None]
        if [e.i for e in gx] != good or [e.i for e in gy] != good or any(
                e.feat != "x" for e in gx) or any(e.feat != "y" for e in gy):
            bad["events"] = bad["events"] or (
                f"{tag}: the estimator received x events "
                f"{[e.i for e in gx]}, y events {[e.i for e in gy]}; finite "
                f"in both coordinates are {good}")
        if gk != {"bins": 7} or ga:
            bad["args"] = bad["args"] or (
                f"{tag}: extra arguments arrive as {ga} {gk}")
        if xo is None:
            if gxo is not None or gyo is not None:
                bad["positions"] = bad["positions"] or (
                    f"{tag}: positions invented: {gxo}")
            goodp = good
            n_out = 5
        else:
            goodp = [i for i in range(3) if tox[i] is None
                     and toy[i] is None]
            if gxo is None or [e.i for e in gxo] != goodp or [
                    e.i for e in gyo] != goodp or any(
                    e.feat != "px" for e in gxo) or any(
                    e.feat != "py" for e in gyo):
                bad["positions"] = bad["positions"] or (
                    f"{tag}: the estimator received positions "
                    f"{None if gxo is None else [e.i for e in gxo]}, "
                    f"finite positions are {goodp}")
            n_out = 3
        want = [("dens", i) if i in goodp else "nan" for i in range(n_out)]
        got = [("nan" if isinstance(v, Ev) and v.tag == "nan" else v)
               for v in (res.v if isinstance(res, Arr) else [])]
        if got != want:
            bad["result"] = bad["result"] or (
                f"{tag}: result {got}, expected {want}")
        if res is ex or res is ey or res is xo or res is yo or any(
                res is c for c in calls[0][:4]):
            bad["fresh"] = bad["fresh"] or (
                f"{tag}: the result aliases an input array")
        if any(res is r for r in returned):
            bad["fresh"] = bad["fresh"] or (
                f"{tag}: the wrapper hands out the estimator's own array "
                f"(for a memoised estimator the cached object: an in-place "
                f"edit by one caller changes what the next analysis gets)")
        returned.clear()
    texts = {
        "events": "the wrapped estimator receives exactly the events finite "
                  "in both coordinates",
        "positions": "the wrapped estimator receives exactly the finite "
                     "positions (none when no positions are given)",
        "result": "densities land at their positions, invalid positions "
                  "are NaN",
        "fresh": "the result is a freshly allocated array (neither an "
                 "input nor the estimator's own array)",
        "args": "further arguments are passed through unchanged",
    }
    for k in ("events", "positions", "result", "fresh", "args"):
        ctx.ob("R12.3", bad[k] is None, texts[k] if bad[k] is None
               else bad[k], node=f, label=f"ignore_nan_inf {k}")
    # every value-dependent estimator of the table is wrapped
    table = repo.module_assign(KDE, "methods")
    if not isinstance(table, ast.Dict) or not table.keys:
        raise AnalysisError("kde_methods.methods is not a dict display")
    for k, v in zip(table.keys, table.values):
        name = const_str(k)
        if not isinstance(v, ast.Name):
            raise AnalysisError(f"kde_methods.methods['{name}'] is not a "
                                f"plain function name")
        fn = repo.func(KDE, v.id)
        params = [a.arg for a in fn.args.args[:2]]
        alias = set(params)
        for n in walk(fn):
            if isinstance(n, ast.Assign) and isinstance(
                    n.value, ast.Name) and n.value.id in alias:
                for t in n.targets:
                    if isinstance(t, ast.Name):
                        alias.add(t.id)
        value_use = False
        for n in walk(fn):
            if isinstance(n, ast.Name) and n.id in alias and isinstance(
                    n.ctx, ast.Load):
                p = n.parent
                if isinstance(p, ast.Attribute) and p.attr in (
                        "shape", "size", "ndim", "dtype"):
                    continue
                if isinstance(p, ast.Assign) and p.value is n:
                    continue
                if isinstance(p, ast.Compare) and all(isinstance(
                        o, (ast.Is, ast.IsNot)) for o in p.ops):
                    continue
                value_use = True
        decos = [txt(d) for d in fn.decorator_list]
        wrapped_ = "ignore_nan_inf" in decos
        ok = (not value_use) or wrapped_
        ctx.ob("R12.3", ok,
               (f"estimator '{name}' is wrapped by ignore_nan_inf"
                if value_use else
                f"estimator '{name}' does not use event values") if ok else
               f"estimator '{name}' uses event values but is not wrapped by "
               f"ignore_nan_inf: NaN / inf events reach the estimator",
               node=fn,
               label=f"estimator {name} wrapped", nontrivial=value_use)
    # Statistics.get_feature: finite values of the selected events
    gf = repo.func(STAT, "Statistics.get_feature")
    bad = None
    bad_call = None
    tags = [None, "nan", None, "inf", None, None]


    class Steady:
        """every attribute the model does not define keeps one constant
        value: between two calls nothing but `filter.all` changes, so the
        statistics have to follow `filter.all`"""

        def __getattr__(self, item):
            if item.startswith("__"):
                raise AttributeError(item)
            return f"<{item}>"
    for enabled in (True, False):
        # one interpreter and one dataset for the whole series of calls:
        # the filter is changed between the calls (anything remembered
        # from an earlier call shows)
        mini2 = Mini({"np": np_values(),
                      "tb": NS("tb", format_exc=lambda: "exc"),
                      "traceback": NS("tb", format_exc=lambda: "exc"),
                      "warnings": NS("warnings",
                                     warn=lambda *a, **k: None),
                      "BadMethodWarning": UserWarning})
        mini2.bind_module(repo.tree(STAT))
        mini2.g["Statistics"] = ClassModel(mini2,
                                           repo.cls(STAT, "Statistics"))
        vals = val_arr(tags, "deform")

        class Filt(Steady):
            all = None

        class D(Steady):
            config = {"filtering": {"enable filters": enabled}}
            filter = Filt()
            title = "t"

            def __getitem__(self, k):
                if k != "deform":
                    raise KeyError(k)
                return vals.copy()

            def __contains__(self, k):
                return k == "deform"
        dsm0 = D()
        for mask in ([True, True, False, True, True, False], [True] * 6,
                     [False] * 6, [False, False, True, True, True, True]):
            D.filter.all = Arr(mask, "bool")
            me = SelfModel(mini2, repo.cls(STAT, "Statistics"),
                           name="Mean", req_feature=True)
            try:
                out = mini2.call(gf, (me, dsm0, "deform"))
            except ModelFault as e:
                bad = bad or str(e)
                continue
            want = [i for i in range(6) if tags[i] is None
                    and (mask[i] or not enabled)]

            def show(seq):
                if not isinstance(seq, Arr):
                    return seq
                return [(e.tag or e.i) if isinstance(e, Ev) else e
                        for e in seq]
            got = show(out)
            if got != want:
                bad = bad or (f"enable filters={enabled}, filter {mask}, "
                              f"values {tags}: returned values {got}, "
                              f"expected the finite values of events {want} "
                              f"(invalid values have to be removed, a "
                              f"statistic must not see them or count them; "
                              f"the dataset and filter.all have to be read "
                              f"on every call, not remembered from an "
                              f"earlier one)")
            # end to end: what a registered feature statistic is applied to
            seen = []
            me2 = SelfModel(mini2, repo.cls(STAT, "Statistics"),
                            name="Stat", req_feature=True,
                            method=lambda data: (seen.append(data), 1.0)[1])
            try:
                mini2.call(repo.func(STAT, "Statistics.__call__"), (me2,),
                           dict(ds=dsm0, feature="deform"))
            except ModelFault as e:
                bad_call = bad_call or str(e)
                continue
            if want and (len(seen) != 1 or show(seen[0]) != want):
                bad_call = bad_call or (
                    f"enable filters={enabled}, filter {mask}, values "
                    f"{tags}: the statistic is applied to "
                    f"{[show(s) for s in seen]}, expected the finite values "
                    f"of events {want}")
            if not want and seen and len(seen[0]):
                bad_call = bad_call or (
                    f"enable filters={enabled}, filter {mask}: the "
                    f"statistic is applied to {show(seen[0])} although no "
                    f"valid event is selected")
    ctx.ob("R12.3", bad is None,
           "get_feature returns the finite values of the selected events "
           "(all events with filters disabled)" if bad is None else
           f"get_feature: {bad}", node=gf, label="get_feature selection "
                                                  "and purge")
    ctx.ob("R12.3", bad_call is None,
           "a feature statistic is applied to exactly the finite values of "
           "the selected events (their number is the sample size)"
           if bad_call is None else f"Statistics.__call__: {bad_call}",
           node=repo.func(STAT, "Statistics.__call__"),
           label="statistic applied to finite selected values")


# ----------------------------------------------------------------------
# R12.4 quantile levels

def split_tuple_assigns(func):
    """copy of `func` in which `a, b = e1, e2` is written as two
    assignments when no right-hand side reads a name another element
    assigns (then the order does not matter)"""
    import copy
    from ..core import link
    new = copy.deepcopy(func)

    def process(stmts):
        out = []
        for st in stmts:
            for fld in ("body", "orelse", "finalbody"):
                if isinstance(getattr(st, fld, None), list) \
                        and not isinstance(st, (ast.FunctionDef,
                                                ast.ClassDef)):
                    setattr(st, fld, process(getattr(st, fld)))
            if isinstance(st, ast.Try):
                for h in st.handlers:
                    h.body = process(h.body)
            if isinstance(st, ast.Assign) and len(st.targets) == 1 \
                    and isinstance(st.targets[0], ast.Tuple) \
                    and isinstance(st.value, ast.Tuple) \
                    and len(st.targets[0].elts) == len(st.value.elts) \
                    and all(isinstance(t, ast.Name)
                            for t in st.targets[0].elts):
                tg = [t.id for t in st.targets[0].elts]
                indep = all(not (names_in(v) & (set(tg) - {t}))
                            for t, v in zip(tg, st.value.elts))
                if indep:
                    for t, v in zip(st.targets[0].elts, st.value.elts):
                        out.append(ast.copy_location(
                            ast.Assign(targets=[t], value=v), st))
                    continue
            out.append(st)
        return out
    new.body = process(new.body)
    ast.fix_missing_locations(new)
    link(new)
    new.parent = getattr(func, "parent", None)
    return new


def r124(ctx, repo):
    f = repo.func(KDC, "get_quantile_levels")
    params = [a.arg for a in f.args.args]
    for p in ("density", "x", "y", "xp", "yp", "q"):
        if p not in params:
            raise AnalysisError(f"get_quantile_levels: parameter {p} lost")
    # ordinary shapes first: `a, b = e1, e2` with independent elements is
    # two assignments
    f = split_tuple_assigns(f)
    single = {}
    for n in walk(f):
        if isinstance(n, ast.Assign) and len(n.targets) == 1 \
                and isinstance(n.targets[0], ast.Name):
            single.setdefault(n.targets[0].id, []).append(n.value)

    def mask_of(e, flips=0, depth=0):
        """(get_bad_vals call, number of negations) a mask expression
        stands for"""
        if depth > 6:
            return None
        if isinstance(e, ast.UnaryOp) and isinstance(e.op, ast.Invert):
            return mask_of(e.operand, flips + 1, depth + 1)
        if isinstance(e, ast.Call) and last_attr(e) in (
                "logical_not", "invert") and len(e.args) == 1:
            return mask_of(e.args[0], flips + 1, depth + 1)
        if isinstance(e, ast.Call) and last_attr(e) == "get_bad_vals":
            return e, flips
        if isinstance(e, ast.Name) and len(single.get(e.id, [])) == 1:
            return mask_of(single[e.id][0], flips, depth + 1)
        return None
    purged = {}
    for n in walk(f):
        if isinstance(n, ast.Assign) and isinstance(
                n.targets[0], ast.Name) and n.targets[0].id in ("xp", "yp") \
                and isinstance(n.value, ast.Subscript) and isinstance(
                n.value.value, ast.Name) \
                and n.value.value.id == n.targets[0].id:
            m = mask_of(n.value.slice)
            if m is not None:
                purged[n.targets[0].id] = m
    calls = {id(m[0]) for m in purged.values()}
    ok = (set(purged) == {"xp", "yp"} and len(calls) == 1
          and all(m[1] % 2 == 1 for m in purged.values())
          and {txt(a) for a in list(purged.values())[0][0].args}
          == {"xp", "yp"})
    found = {k: f"{txt(v[0])} negated {v[1]}x" for k, v in purged.items()}
    ctx.ob("R12.4", ok,
           "events invalid in either coordinate are removed from both "
           "coordinates with one mask" if ok else
           f"xp / yp are not purged with the valid part of one common mask "
           f"get_bad_vals(xp, yp) (found {found})", node=f,
           label="quantile: common invalid mask")
    # same normaliser for grid and events per axis
    for grid, ev in (("x", "xp"), ("y", "yp")):
        divs = {}
        for n in walk(f):
            if isinstance(n, ast.Assign) and isinstance(
                    n.targets[0], ast.Name) and n.targets[0].id in (
                    grid, ev) and isinstance(n.value, ast.BinOp) \
                    and isinstance(n.value.op, (ast.Div, ast.Mult, ast.Sub,
                                                ast.Add)) \
                    and isinstance(n.value.left, ast.Name) \
                    and n.value.left.id == n.targets[0].id:
                divs.setdefault(n.targets[0].id, []).append(
                    (type(n.value.op).__name__, txt(n.value.right)))
            elif isinstance(n, ast.AugAssign) and isinstance(
                    n.target, ast.Name) and n.target.id in (grid, ev):
                divs.setdefault(n.target.id, []).append(
                    (type(n.op).__name__, txt(n.value)))
        ok = divs.get(grid, []) == divs.get(ev, [])
        ctx.ob("R12.4", ok,
               f"grid `{grid}` and events `{ev}` are rescaled identically "
               f"({divs.get(grid, []) or 'not at all'})" if ok else
               f"grid `{grid}` is rescaled by {divs.get(grid, [])}, events "
               f"`{ev}` by {divs.get(ev, [])}: densities are read off at "
               f"the wrong places", node=f,
               label=f"quantile: same normalisation {grid}")
    # interpolation at the events, percentile at q*100
    interp = [c for c in walk(f) if isinstance(c, ast.Call)
              and last_attr(c) in ("interpn",)]
    if len(interp) != 1:
        raise AnalysisError("get_quantile_levels: interpolation call lost")
    c = interp[0]
    pts, vals, xi = kwarg(c, "points", 0), kwarg(c, "values", 1), kwarg(
        c, "xi", 2)
    ok = (pts is not None and [txt(e) for e in getattr(pts, "elts", [])] == [
        "x", "y"] and txt(vals) == "density" and xi is not None and [
        txt(e) for e in getattr(xi, "elts", [])] == ["xp", "yp"])
    ctx.ob("R12.4", ok,
           "the density is interpolated on the (x, y) grid at the events "
           "(xp, yp)" if ok else
           f"interpolation `{short(c, 70)}` does not evaluate density on "
           f"(x, y) at (xp, yp)", node=c, label="quantile: interpolation")
    st = c
    while not isinstance(st, ast.stmt):
        st = st.parent
    dp = st.targets[0].id if isinstance(st, ast.Assign) and isinstance(
        st.targets[0], ast.Name) else None
    perc = [c2 for c2 in walk(f) if isinstance(c2, ast.Call) and last_attr(
        c2) in ("nanpercentile", "percentile", "nanquantile", "quantile")]
    if len(perc) != 1 or dp is None:
        raise AnalysisError("get_quantile_levels: percentile call lost")
    p = perc[0]
    a = kwarg(p, "a", 0)
    qv = kwarg(p, "q", 1)
    is_pct = "percentile" in last_attr(p)


    q_note = ""

    def from_q(e, depth=0):
        """`e` is the parameter q, possibly converted to an array"""
        if depth > 6 or e is None:
            return False
        if isinstance(e, ast.Name):
            if e.id == "q":
                return True
            vals = single.get(e.id, [])
            return bool(vals) and all(from_q(v, depth + 1) for v in vals)
        if isinstance(e, ast.IfExp):
            return from_q(e.body, depth + 1) and from_q(e.orelse, depth + 1)
        if isinstance(e, ast.Call) and last_attr(e) in (
                "array", "asarray", "atleast_1d") and e.args:
            return from_q(e.args[0], depth + 1)
        return False

    def array_safe(e, depth=0):
        """a sequence q is an array before arithmetic is done on it
        (`[.5, .9] * 100` repeats a list)"""
        if depth > 6 or e is None:
            return False
        if isinstance(e, ast.Call) and last_attr(e) in (
                "array", "asarray", "atleast_1d", "asanyarray") and e.args:
            return from_q(e.args[0])
        if isinstance(e, ast.IfExp):
            t = txt(e.test)
            if "isscalar" in t:
                other = e.orelse if not t.startswith("not ") else e.body
                return array_safe(other, depth + 1)
            return array_safe(e.body, depth + 1) and array_safe(
                e.orelse, depth + 1)
        if isinstance(e, ast.Name):
            vals = single.get(e.id, [])
            if e.id != "q":
                return bool(vals) and all(
                    array_safe(v, depth + 1) for v in vals)
            # q itself: converted in place somewhere before
            return any(array_safe(v, depth + 1) for v in vals)
        return False
    if is_pct:
        opnd = None
        if isinstance(qv, ast.BinOp) and isinstance(qv.op, ast.Mult):
            if from_q(qv.left) and txt(qv.right) in ("100", "100.0"):
                opnd = qv.left
            elif from_q(qv.right) and txt(qv.left) in ("100", "100.0"):
                opnd = qv.right
        ok_q = opnd is not None
        if ok_q and not array_safe(opnd):
            ok_q = False
            q_note = (" – a sequence `q` is not converted to an array "
                      "before `* 100` (a list is repeated 100 times "
                      "instead of scaled)")
    else:
        ok_q = from_q(qv)
    ok = txt(a) == dp and ok_q and last_attr(p).startswith("nan")
    ctx.ob("R12.4", ok,
           "the level is the NaN-aware q-quantile of the densities at the "
           "events" if ok else
           f"`{short(p, 60)}` is not the NaN-aware q*100-th percentile of "
           f"the densities at the events `{dp}`" + q_note, node=p,
           label="quantile: percentile of event densities")


# ----------------------------------------------------------------------
# R12.7 grid events = estimator events

def r127(ctx, repo):
    n_grids = 0
    for func0, cls in functions_with_class(repo, CORE):
        func0 = norm(func0)
        lins = [c for c in walk(func0) if isinstance(c, ast.Call)
                and (call_name(c) or "").endswith("linspace")]
        if not lins:
            continue
        func = inline_helpers(repo, CORE, func0,
                              keep=("_apply_scale", "get_kde_spacing"))
        if not scaling_calls(func):
            continue
        lins = [c for c in walk(func) if isinstance(c, ast.Call)
                and (call_name(c) or "").endswith("linspace")]
        est_names = {n.targets[0].id for n in walk(func)
                     if isinstance(n, ast.Assign) and isinstance(
                         n.targets[0], ast.Name) and "methods" in txt(n.value)
                     and isinstance(n.value, ast.Subscript)}
        ests = [c for c in walk(func) if isinstance(c, ast.Call)
                and isinstance(c.func, ast.Name) and c.func.id in est_names]
        if not ests:
            continue
        ev = set()
        for c in ests:
            for e in (kwarg(c, "events_x", 0), kwarg(c, "events_y", 1)):
                if isinstance(e, ast.Name):
                    ev.add(e.id)
                elif e is not None:
                    raise AnalysisError(
                        f"{func.name}: estimator events `{txt(e)}` are not "
                        f"plain names")
        if len(ev) != 2:
            raise AnalysisError(f"{func.name}: estimator events not found")
        ax = Axes(func)
        defs = {}
        for n in walk(func):
            if isinstance(n, ast.Assign):
                for tg in n.targets:
                    for t in (tg.elts if isinstance(tg, ast.Tuple)
                              else [tg]):
                        if isinstance(t, ast.Name):
                            defs.setdefault(t.id, []).append(n)
        for c in lins:
            n_grids += 1
            axis = ax.of(c)
            axis_l = "".join(sorted(axis)) or "?"
            # assignments the grid extent depends on
            seen, todo, problems, selections = set(), [], [], []
            direct = set()
            for a in list(c.args) + [k.value for k in c.keywords]:
                todo += list(data_names(a))
                direct |= data_names(a) & ev
            if direct:
                problems.append(f"the grid is built from `"
                                f"{'`, `'.join(sorted(direct))}` directly")
            while todo:
                nm = todo.pop()
                if nm in seen or nm in ev:
                    continue
                seen.add(nm)
                for st in defs.get(nm, []):
                    v = st.value
                    used = data_names(v) & ev
                    if used:
                        if isinstance(v, ast.Subscript) and isinstance(
                                v.value, ast.Name) and v.value.id in ev:
                            selections.append((st, v))
                        else:
                            problems.append(
                                f"`{short(st, 50)}` uses the events without "
                                f"a validity selection")
                    todo += list(data_names(v))
            for st, v in selections:
                m_axes = ax.of(v.slice) if not isinstance(
                    v.slice, ast.Slice) else set()
                if m_axes != {"x", "y"}:
                    problems.append(
                        f"`{short(st, 50)}` selects with a mask that "
                        f"depends on the {'/'.join(sorted(m_axes)) or 'no'} "
                        f"axis only")
            if not selections and not problems:
                raise AnalysisError(
                    f"{func.name}: the grid `{short(c, 40)}` does not "
                    f"derive from the estimator's events")
            ctx.ob("R12.7", not problems,
                   f"the {axis_l} extent of the grid is taken from events "
                   f"valid in both coordinates (the events the estimator "
                   f"keeps)" if not problems else
                   f"the {axis_l} extent of the grid: "
                   + "; ".join(sorted(set(problems)))
                   + " – an event the estimator drops (invalid in the other "
                   "coordinate) still stretches the grid", node=c,
                   label=f"grid extent {axis_l} from jointly valid events")
    ctx.stat("R12.7 grids", n_grids)


# ----------------------------------------------------------------------
# R12.8 float buffers

EXT = "dclab/external/statsmodels/nonparametric/"
ALLOC = {"empty", "zeros", "ones", "full"}
ALLOC_LIKE = {"empty_like", "zeros_like", "ones_like", "full_like"}
FLOAT_DTYPES = {"float", "np.float64", "np.float32", "np.double",
                "np.longdouble", "np.float_", "np.floating", "'float'",
                "'float64'", "'float32'", "'f8'", "'f4'", "'d'",
                "numpy.float64", "numpy.float32", "np.single",
                "np.complex128", "complex"}
NONFLOAT_DTYPES = {"int", "bool", "np.int64", "np.int32", "np.uint8",
                   "np.bool_", "np.uint16", "np.uint32", "np.uint64",
                   "np.int16", "np.int8", "'int'", "'bool'", "np.intp"}


def r128(ctx, repo):
    """every allocation of the estimator modules is judged where it is
    written (independent of the function that later fills the buffer, so a
    buffer handed out by a helper counts as well)"""
    files = [KDE, KDC] + [r for r in repo.files(EXT) if r.endswith(".py")]
    n = 0
    for rel in files:
        for q, f in repo.all_functions(rel):
            stored = set()
            for s in walk(f):
                tg = []
                if isinstance(s, ast.Assign):
                    tg = s.targets
                elif isinstance(s, ast.AugAssign):
                    tg = [s.target]
                for t in tg:
                    if isinstance(t, ast.Subscript) and isinstance(
                            t.value, ast.Name):
                        stored.add(t.value.id)
            allocs = [c for c in walk(f) if isinstance(c, ast.Call)
                      and last_attr(c) in ALLOC | ALLOC_LIKE
                      and (call_name(c) or "").split(".")[0] in (
                          "np", "numpy")]
            allocs.sort(key=lambda c: (c.lineno, c.col_offset))
            floats = set()
            seen_lab = {}
            for c in allocs:
                la = last_attr(c)
                par = c.parent
                name = None
                if isinstance(par, ast.Assign) and par.value is c and len(
                        par.targets) == 1 and isinstance(
                        par.targets[0], ast.Name):
                    name = par.targets[0].id
                pos = 2 if la in ("full", "full_like") else 1
                dt = kwarg(c, "dtype", pos)
                if dt is None:
                    is_float = la in ALLOC or bool(
                        c.args and isinstance(c.args[0], ast.Name)
                        and c.args[0].id in floats)
                    why = ("inherits the dtype of `"
                           + (txt(c.args[0]) if c.args else "?") + "`")
                else:
                    d = txt(dt)
                    if d in FLOAT_DTYPES:
                        is_float = True
                    elif d in NONFLOAT_DTYPES or d.endswith(".dtype"):
                        is_float = False
                        if name is None or name not in stored:
                            # an explicitly typed mask / counter that is
                            # not filled with computed values here
                            continue
                    else:
                        raise AnalysisError(
                            f"{rel}::{q}: dtype `{d}` of `{short(c, 40)}` "
                            f"not classified")
                    why = f"has dtype {d}"
                if is_float and name:
                    floats.add(name)
                n += 1
                base = name or la
                seen_lab[base] = seen_lab.get(base, 0) + 1
                lab = base if seen_lab[base] == 1 else (
                    f"{base} #{seen_lab[base]}")
                what = f"buffer `{name}`" if name else f"`{short(c, 40)}`"
                ctx.ob("R12.8", is_float,
                       f"{what} is allocated floating" if is_float else
                       f"{what} receives kernel / density values but {why}: "
                       f"for integer-typed feature data the values are "
                       f"truncated (a density of all zeros)",
                       node=c, label=f"float buffer {lab}")
    ctx.stat("R12.8 buffers", n)


# ----------------------------------------------------------------------
# R12.9 orientation of observation matrices

KB = EXT + "_kernel_base.py"
KD = EXT + "kernel_density.py"


class Mat2:
    """2-d array of uninterpreted entries (list of rows)"""

    def __init__(self, rows, ncols=None):
        self.rows = [list(r) for r in rows]
        lens = {len(r) for r in self.rows}
        if len(lens) > 1:
            raise ModelFault("inhomogeneous shape of a 2-d array")
        self.ncols = lens.pop() if lens else (ncols or 0)

    ndim = 2

    @property
    def shape(self):
        return (len(self.rows), self.ncols)

    def __len__(self):
        return len(self.rows)

    @property
    def T(self):
        return Mat2([[r[j] for r in self.rows] for j in range(self.ncols)],
                    ncols=len(self.rows))

    def transpose(self, *a):
        return self.T

    def flat(self):
        return [x for r in self.rows for x in r]

    def __getitem__(self, k):
        if isinstance(k, int):
            return Arr(self.rows[k], "ev")
        if isinstance(k, tuple) and len(k) == 2 and isinstance(k[0], int) \
                and isinstance(k[1], slice):
            return Arr(self.rows[k[0]][k[1]], "ev")
        raise MiniError(f"index {k!r} on a 2-d model array")


def _as_cols(seq):
    cols = []
    for a in seq:
        if isinstance(a, Arr):
            cols.append(list(a.v))
        elif isinstance(a, (list, tuple)):
            cols.append(list(a))
        else:
            raise MiniError(f"stacking a {type(a).__name__} in the model")
    return cols


def _vstack(seq):
    cols = _as_cols(seq)
    return Mat2(cols, ncols=len(cols[0]) if cols else 0)


def _column_stack(seq):
    cols = _as_cols(seq)
    n = len(cols[0]) if cols else 0
    if any(len(c) != n for c in cols):
        raise ModelFault("all input arrays must have the same length")
    return Mat2([[c[i] for c in cols] for i in range(n)], ncols=len(cols))


def _stack(seq, axis=0):
    if axis in (0, -2):
        return _vstack(seq)
    if axis in (1, -1):
        return _column_stack(seq)
    raise MiniError(f"np.stack(axis={axis}) in the model")


def _asarray2(a, dtype=None, **k):
    if isinstance(a, (Mat2, Arr)):
        return a
    if isinstance(a, (list, tuple)):
        if a and all(isinstance(x, (Arr, list, tuple)) for x in a):
            return _vstack(a)
        return Arr(a)
    raise MiniError(f"np.asarray of {type(a).__name__} in the model")


def _reshape(a, shape):
    flat = a.flat() if isinstance(a, Mat2) else list(a)
    r, c = shape
    if r * c != len(flat):
        raise ModelFault(f"cannot reshape array of size {len(flat)} into "
                         f"shape {tuple(shape)}")
    return Mat2([flat[i * c:(i + 1) * c] for i in range(r)], ncols=c)


class _C:
    def __getitem__(self, k):
        return _column_stack(k if isinstance(k, tuple) else (k,))


class _R:
    def __getitem__(self, k):
        if isinstance(k, tuple) and k and isinstance(k[0], str):
            raise MiniError("np.r_ with a directive in the model")
        out = []
        for a in (k if isinstance(k, tuple) else (k,)):
            out += list(a)
        return Arr(out, "ev")


def np_matrix_model():
    return numpy_model(
        vstack=_vstack, row_stack=_vstack, column_stack=_column_stack,
        stack=_stack, array=_asarray2, asarray=_asarray2,
        atleast_2d=lambda a: a if isinstance(a, Mat2) else _vstack([a]),
        transpose=lambda a, *k: a.T, shape=lambda a: a.shape,
        ndim=lambda a: a.ndim, squeeze=lambda a: a, reshape=_reshape,
        c_=_C(), r_=_R(), size=lambda a: len(a.flat()) if isinstance(
            a, Mat2) else len(a))


def r129(ctx, repo):
    f = repo.func(KDE, "kde_multivariate")
    adjust = repo.func(KB, "_adjust_shape")
    init = repo.func(KD, "KDEMultivariate.__init__")
    # does the constructor reject nobs <= k_vars itself?
    rejects = any(
        isinstance(n, ast.If) and isinstance(n.test, ast.Compare)
        and len(n.test.ops) == 1 and isinstance(
            n.test.ops[0], (ast.LtE, ast.Lt))
        and "nobs" in txt(n.test.left) and "k_vars" in txt(
            n.test.comparators[0])
        and any(isinstance(s, ast.Raise) for s in n.body)
        for n in walk(init))
    strict = any(
        isinstance(n, ast.If) and isinstance(n.test, ast.Compare)
        and isinstance(n.test.ops[0], ast.LtE) and "nobs" in txt(
            n.test.left) for n in walk(init))
    bad_pos = None
    bad_dat = None
    n_eval = 0
    for n_pos, n_ev in ((0, 5), (1, 5), (2, 5), (3, 5), (5, 5), (2, 2),
                        (2, 3), (5, 1)):
        n_eval += 1
        seen = {}

        class Est:
            def __init__(self, data=None, var_type=None, bw=None, **k):
                seen["data"] = data
                seen["var_type"] = var_type

            def pdf(self, data_predict=None):
                seen["predict"] = data_predict
                nn = n_pos
                return Arr([("dens", i) for i in range(nn)], "num")
        mini = Mini({"np": np_matrix_model(), "KDEMultivariate": Est})
        mini.bind_module(repo.tree(KDE))
        ex = Arr([Ev("ex", i) for i in range(n_ev)], "ev")
        ey = Arr([Ev("ey", i) for i in range(n_ev)], "ev")
        px = Arr([Ev("px", i) for i in range(n_pos)], "ev")
        py = Arr([Ev("py", i) for i in range(n_pos)], "ev")
        tag = f"{n_pos} output positions, {n_ev} events"
        try:
            mini.call(f, (ex, ey, px, py), dict(bw=(1.0, 1.0)))
        except ModelFault as e:
            bad_pos = bad_pos or f"{tag}: {e}"
            continue
        if "predict" not in seen or seen.get("var_type") is None:
            raise AnalysisError("kde_multivariate: the call of the "
                                "estimator's pdf() was not observed")
        k_vars = len(seen["var_type"])
        amini = Mini({"np": np_matrix_model()})
        amini.bind_module(repo.tree(KB))

        def through(m):
            return amini.call(adjust, (m, k_vars))
        # positions
        try:
            got = through(seen["predict"])
            rows = [list(r) for r in got.rows] if isinstance(
                got, Mat2) else None
        except ModelFault as e:
            rows = None
            bad_pos = bad_pos or f"{tag}: _adjust_shape fails: {e}"
        want = [[Ev("px", i), Ev("py", i)] for i in range(n_pos)]
        if rows is not None and rows != want:
            shp = seen["predict"].shape if hasattr(
                seen["predict"], "shape") else "?"
            bad_pos = bad_pos or (
                f"{tag}: `positions` of shape {shp} reaches gpke as rows "
                f"{rows}, expected one row (x_i, y_i) per position "
                f"{want} – _adjust_shape cannot tell a (k_vars, N) matrix "
                f"from an (N, k_vars) one when N == k_vars")
        # event data
        try:
            gd = through(seen["data"])
            drows = [list(r) for r in gd.rows] if isinstance(
                gd, Mat2) else None
        except ModelFault as e:
            drows = None
            bad_dat = bad_dat or f"{tag}: _adjust_shape(data) fails: {e}"
        dwant = [[Ev("ex", i), Ev("ey", i)] for i in range(n_ev)]
        if drows is not None and drows != dwant:
            nobs = len(drows)
            rejected = rejects and (nobs <= k_vars if strict
                                    else nobs < k_vars)
            if not rejected:
                bad_dat = bad_dat or (
                    f"{tag}: the event data reach the estimator as rows "
                    f"{drows}, expected one row per event, and the "
                    f"constructor does not reject this case")
    ctx.ob("R12.9", bad_pos is None,
           "kde_multivariate: the output positions reach gpke with one row "
           "per position for N = 0, 1, k, k+1, 5" if bad_pos is None
           else f"kde_multivariate / positions: {bad_pos}", node=f,
           label="positions matrix: one row per position for every N")
    ctx.ob("R12.9", bad_dat is None,
           "kde_multivariate: the event data reach the estimator with one "
           "row per event, or the constructor rejects the ambiguous sizes"
           if bad_dat is None else
           f"kde_multivariate / data: {bad_dat}", node=f,
           label="event matrix: one row per event or rejected")
    ctx.stat("R12.9 evaluations", n_eval)


# ----------------------------------------------------------------------
# R12.5 purge before statistics

FINITE_TESTS = {"isnan", "isinf", "isfinite"}


def _mask_info(expr, params):
    """(parameter, {isnan, isinf, isfinite} used on it) of a mask
    expression, or None"""
    found = {}
    for c in ast.walk(expr):
        if isinstance(c, ast.Call) and last_attr(c) in FINITE_TESTS \
                and len(c.args) == 1 and isinstance(c.args[0], ast.Name) \
                and c.args[0].id in params:
            found.setdefault(c.args[0].id, set()).add(last_attr(c))
    if len(found) == 1:
        return list(found.items())[0]
    return None


class Purge:
    """the purge idiom of one function: masks, purged values, raw uses"""

    def __init__(self, func):
        self.func = func
        self.params = [a.arg for a in func.args.posonlyargs + func.args.args]
        self.masks = {}      # mask name -> (param, tests, positive?)
        self.purges = []     # (param, target name, assign stmt)
        for n in walk(func):
            if isinstance(n, ast.Assign) and len(n.targets) == 1 \
                    and isinstance(n.targets[0], ast.Name):
                mi = _mask_info(n.value, self.params)
                if mi and not isinstance(n.value, ast.Subscript):
                    self.masks[n.targets[0].id] = mi
        for n in walk(func):
            if isinstance(n, ast.Assign) and len(n.targets) == 1 \
                    and isinstance(n.targets[0], ast.Name) and isinstance(
                    n.value, ast.Subscript) and isinstance(
                    n.value.value, ast.Name) \
                    and n.value.value.id in self.params:
                sl = n.value.slice
                p = n.value.value.id
                tests = None
                if isinstance(sl, ast.UnaryOp) and isinstance(
                        sl.op, ast.Invert) and isinstance(
                        sl.operand, ast.Name) and sl.operand.id in self.masks:
                    mp, t = self.masks[sl.operand.id]
                    if mp == p and "isfinite" not in t:
                        tests = t
                elif isinstance(sl, ast.Name) and sl.id in self.masks:
                    mp, t = self.masks[sl.id]
                    if mp == p and t == {"isfinite"}:
                        tests = t
                else:
                    mi = _mask_info(sl, self.params)
                    if mi and mi[0] == p:
                        inv = isinstance(sl, ast.UnaryOp) and isinstance(
                            sl.op, ast.Invert)
                        if (mi[1] == {"isfinite"} and not inv) or (
                                "isfinite" not in mi[1] and inv):
                            tests = mi[1]
                if tests is not None:
                    self.purges.append((p, n.targets[0].id, n, tests))

    def complete(self, p):
        for (pp, d, st, tests) in self.purges:
            if pp == p and (tests == {"isfinite"}
                            or {"isnan", "isinf"} <= tests):
                return True
        return False


def r125(ctx, repo):
    funcs = {st.name: norm(st) for st in repo.tree(KDE).body
             if isinstance(st, ast.FunctionDef)}
    info = {name: Purge(f) for name, f in funcs.items()}
    helpers = sorted(n for n in funcs if re.match(r"bin_(width|num)_\w+$", n)
                     or (info[n].purges and n.startswith("bin_")))
    if len(helpers) < 3:
        raise AnalysisError("kde_methods: bin-width / bin-number helpers "
                            "not found")

    def purges_param(name, idx, seen=()):
        """sibling `name` purges its idx-th parameter itself"""
        if name not in info or name in seen:
            return False
        pu = info[name]
        if idx >= len(pu.params):
            return False
        return pu.complete(pu.params[idx])

    raw_use = set()
    for name in helpers:
        f = funcs[name]
        pu = info[name]
        if not pu.params:
            raise AnalysisError(f"{name}: no data parameter")
        p = pu.params[0]
        ok = pu.complete(p)
        ctx.ob("R12.5", ok,
               f"{name} removes NaN and inf from `{p}` before computing "
               f"anything" if ok else
               f"{name} does not form a purged copy of `{p}` "
               f"(`data = {p}[~(isnan | isinf)]`) like its siblings: invalid "
               f"values enter the bin width", node=f,
               label=f"{name} purges invalid values")
        if not ok:
            continue
        cfg = CFG(f)
        rebinding = [st for (pp, d, st, t) in pu.purges if pp == p and d == p]
        offenders = []
        for n in walk(f):
            if not (isinstance(n, ast.Name) and n.id == p
                    and isinstance(n.ctx, ast.Load)):
                continue
            par = n.parent
            # (a) the finite tests that build the mask
            if isinstance(par, ast.Call) and last_attr(par) in FINITE_TESTS:
                continue
            # (b) the purge subscript itself
            if isinstance(par, ast.Subscript) and par.value is n and any(
                    st.value is par for (_, _, st, _) in pu.purges):
                continue
            # (c) argument of a sibling that purges it itself
            if isinstance(par, ast.Call) and isinstance(
                    par.func, ast.Name) and par.func.id in funcs \
                    and n in par.args and purges_param(
                        par.func.id, par.args.index(n), (name,)):
                continue
            if isinstance(par, ast.keyword):
                call = par.parent
                if isinstance(call, ast.Call) and isinstance(
                        call.func, ast.Name) and call.func.id in funcs:
                    sib = info[call.func.id]
                    if par.arg in sib.params and sib.complete(par.arg):
                        continue
            # (d) after `p = p[~bad]` the name holds the purged value
            if rebinding:
                st = n
                while not isinstance(st, ast.stmt):
                    st = st.parent
                heads = set()
                for r in rebinding:
                    heads |= set(cfg.ids_of(r))
                ids = cfg.ids_of(st) or cfg.ids_of(_cfg_stmt(cfg, st))
                if ids and all(cfg.always_before(
                        i, lambda nd: nd.id in heads) for i in ids) \
                        and st not in rebinding:
                    continue
            offenders.append(n)
        if offenders:
            raw_use.add(name)
        what = sorted({short(_stmt(n), 50) for n in offenders})
        ctx.ob("R12.5", not offenders,
               f"{name}: every statistic is taken from the purged value; "
               f"`{p}` is only used for the mask, the purge and purging "
               f"siblings" if not offenders else
               f"{name}: the raw parameter `{p}` (NaN / inf still inside) "
               f"is used in `{'`, `'.join(what)}` – excluded invalid events "
               f"influence the bin width", node=f,
               label=f"{name} statistics from purged data")
    ctx.stat("R12.5 helpers", helpers)
    # the Doane bin number is the *rounded* ratio range / bin width
    # (evaluated from the parsed source on exact rationals)
    if "bin_num_doane" in funcs:
        from fractions import Fraction
        fn = repo.func(KDE, "bin_num_doane")
        bad = None
        for ratio in (Fraction(17, 4), Fraction(19, 4), Fraction(9, 2),
                      Fraction(11, 2), Fraction(7), Fraction(1, 4),
                      Fraction(3, 4), Fraction(100001, 10000)):
            rng_ = Fraction(12)
            acc = rng_ / ratio
            vals = Arr([Fraction(3), Fraction(3) + rng_, Fraction(5),
                        Ev("a", 3, "nan")], "num")

            def scalar_or(fn_, tag):
                return lambda x: fn_(x) if isinstance(x, Arr) else (
                    isinstance(x, Ev) and x.tag == tag)
            npm = np_values(round=lambda x, *k: round(x),
                            rint=lambda x: round(x),
                            floor=lambda x: x.__floor__(),
                            ceil=lambda x: x.__ceil__())
            npm.__dict__["isnan"] = scalar_or(npm.isnan, "nan")
            npm.__dict__["isinf"] = scalar_or(npm.isinf, "inf")
            mini = Mini({"np": npm})
            mini.bind_module(repo.tree(KDE))
            mini.g["bin_width_doane"] = lambda a_, _acc=acc: _acc
            try:
                got = mini.call(fn, (vals,))
            except ModelFault as e:
                bad = bad or f"range / width = {ratio}: {e}"
                continue
            except AnalysisError:
                if "bin_num_doane" in raw_use:
                    # statistics of the unpurged parameter (reported
                    # above) cannot be evaluated on data with NaN
                    bad = None
                    break
                raise
            want = round(ratio)
            if got != want:
                bad = bad or (f"range / width = {float(ratio)}: "
                              f"{got} bins, the rounded ratio is {want}")
        for acc0, lab in ((0, "0"), (Ev("w", 0, "nan"), "nan")):
            mini.g["bin_width_doane"] = lambda a_, _acc=acc0: _acc
            try:
                got = mini.call(fn, (vals,))
            except ModelFault as e:
                bad = bad or f"bin width {lab}: {e}"
                continue
            except AnalysisError:
                if "bin_num_doane" in raw_use:
                    break
                raise
            if not isinstance(got, int) or got <= 0:
                bad = bad or (f"bin width {lab}: {got!r} bins (a positive "
                              f"default is required)")
        ctx.ob("R12.5", bad is None,
               "bin_num_doane: the number of bins is the rounded ratio of "
               "the finite data range and the Doane width (a positive "
               "default when the width is 0 / nan)" if bad is None else
               f"bin_num_doane: {bad}", node=fn,
               label="bin_num_doane rounds range / width")


def _stmt(n):
    while not isinstance(n, ast.stmt):
        n = n.parent
    return n


def _cfg_stmt(cfg, st):
    n = st
    while n is not None and not cfg.ids_of(n):
        n = getattr(n, "parent", None)
    return n


# ----------------------------------------------------------------------
# R12.6 downsampled scatter: mask and data agree

def r126(ctx, repo):
    f = repo.func(CORE, "RTDCBase.get_downsampled_scatter")
    cls = repo.cls(CORE, "RTDCBase")
    bad = {"data": None, "mask": None, "values": None}
    n_eval = 0
    for mask in ([True, False, True, True, False, True],
                 [False, False, True, True, True, True],
                 [True] * 6, [False, True, False, False, False, False]):
        nsel = sum(mask)
        picks = [[True] * nsel, [i % 2 == 0 for i in range(nsel)],
                 [i == nsel - 1 for i in range(nsel)], [False] * nsel]
        for pick in picks:
            n_eval += 1
            seen = {}

            def grid(a, b, samples=0, remove_invalid=False, ret_idx=False):
                seen["a"], seen["b"] = a, b
                idx = Arr(list(pick), "bool")
                return (a[idx], b[idx], idx) if ret_idx else (a[idx], b[idx])

            class W:
                def catch_warnings(self, record=False):
                    class CM:
                        def __enter__(s):
                            return []

                        def __exit__(s, *a):
                            pass
                    return CM()

                def simplefilter(self, *a, **k):
                    pass

                def warn(self, *a, **k):
                    pass
            mini = Mini({"np": numpy_model(log=lambda a, **k: a),
                         "warnings": W(),
                         "downsampling": NS("downsampling",
                                            downsample_grid=grid)})
            mini.g["RTDCBase"] = ClassModel(mini, cls)
            mini.bind_module(repo.tree(CORE))
            n = len(mask)

            # feature values: one inf and one nan among the events, so that
            # a store into the selected values (or an alias of them) shows
            vtags = {1: "nan", n - 1: "inf", 2: "inf"}

            class Vals(Feat):
                def all_events(self):
                    return [Ev(self.name, i, vtags.get(i))
                            for i in range(self.n)]

            class Me(SelfModel):
                def __getitem__(self, k):
                    return Vals(k, n)

                def __len__(self):
                    return n
            # the filter is an instance of the parsed Filter class whose
            # boolean arrays are given by the harness (further attributes /
            # properties are resolved in the class)
            fmask = Arr(mask, "bool")
            filt = SelfModel(
                mini, repo.cls("dclab/rtdc_dataset/filter.py", "Filter"),
                all=fmask, _get_rw_array=lambda *a, **k: fmask,
                _get_ro_array=lambda *a, **k: fmask)
            me = Me(mini, cls, filter=filt, config={
                "filtering": {"enable filters": True,
                              "remove invalid events": False,
                              "limit events": 0, "polygon filters": []}})
            tag = f"filter {mask}, downsampler keeps {pick}"
            # both return forms: (x, y, mask) and (x, y)
            with_mask = n_eval % 3 != 0
            tag += f", ret_mask={with_mask}"
            try:
                res = mini.call(f, (me,), dict(
                    xax="area_um", yax="deform", downsample=3,
                    ret_mask=with_mask))
            except ModelFault as e:
                for k in bad:
                    bad[k] = bad[k] or f"{tag}: {e}"
                continue
            sel = [i for i, b in enumerate(mask) if b]
            want = [i for i, b in zip(sel, pick) if b]
            try:
                if with_mask:
                    x, y, m = res
                else:
                    x, y = res
                    m = None
            except (TypeError, ValueError):
                bad["data"] = bad["data"] or f"{tag}: returns {res!r}"
                continue
            # which events are returned (a value overwritten by a constant
            # is judged by the `values` obligation, by position)
            def ident(seq, name):
                out = []
                for j, e in enumerate(seq):
                    if isinstance(e, Ev) and e.feat == "const" \
                            and j < len(want):
                        out.append((name, want[j]))
                    else:
                        out.append((e.feat, e.i) if isinstance(e, Ev)
                                   else e)
                return out
            gx, gy = ident(x, "area_um"), ident(y, "deform")
            if gx != [("area_um", i) for i in want] or gy != [
                    ("deform", i) for i in want]:
                bad["data"] = bad["data"] or (
                    f"{tag}: returned x events {gx}, y events {gy}; the "
                    f"kept selected events are {want}")
            for nm, got_ in (("x", x), ("y", y)):
                chg = [(want[j], vtags.get(want[j]) or "finite",
                        (e.tag if isinstance(e, Ev) else e) or "finite")
                       for j, e in enumerate(got_) if j < len(want)
                       and (e.tag if isinstance(e, Ev) else e)
                       != vtags.get(want[j])]
                if chg:
                    bad["values"] = bad["values"] or (
                        f"{tag}: the returned {nm} values of events "
                        f"{[c[0] for c in chg]} are not the dataset's "
                        f"values (dataset {[c[1] for c in chg]}, returned "
                        f"{[c[2] for c in chg]}): the selected data, or an "
                        f"alias of them such as the result of a linear "
                        f"scaling, are modified in place before they are "
                        f"returned")
            if not with_mask:
                continue
            gm = [i for i, b in enumerate(m) if b] if isinstance(
                m, Arr) else None
            if gm != want or not isinstance(m, Arr) or len(m) != n:
                bad["mask"] = bad["mask"] or (
                    f"{tag}: the mask marks events {gm} (length "
                    f"{len(m) if isinstance(m, Arr) else '?'}), the "
                    f"returned data are events {want} of {n}")
    ctx.ob("R12.6", bad["data"] is None,
           "the returned points are the selected events the downsampler "
           "kept, x and y of the same events" if bad["data"] is None
           else bad["data"], node=f, label="downsampled data")
    ctx.ob("R12.6", bad["mask"] is None,
           "the returned mask has the length of the dataset and marks "
           "exactly the returned events" if bad["mask"] is None
           else bad["mask"], node=f, label="downsampled mask")
    ctx.ob("R12.6", bad["values"] is None,
           "the returned x / y are the dataset's own values of those "
           "events (nothing is stored into the selected data or an alias "
           "of them)" if bad["values"] is None else bad["values"], node=f,
           label="downsampled values unchanged")
    ctx.stat("R12.6 evaluations", n_eval)


# ----------------------------------------------------------------------
# R12.10 array arguments are not written in place

DSP = "dclab/downsampling.pyx"
R1210_FILES = [KDC, KDE, STAT, DSP, KD]
R1210_CORE = ("get_kde_scatter", "get_kde_contour", "get_kde_spacing",
              "get_downsampled_scatter", "_apply_scale")
R1210_MIN = 55


def r1210(ctx, repo):
    n_funcs = n_writes = 0
    for rel in R1210_FILES + [CORE]:
        if not repo.exists(rel):
            raise AnalysisError(f"{rel}: anchored module lost")
        mod = lib_C12.ModuleFuncs(repo, rel, DS_PARAMS)
        todo = []
        if rel == CORE:
            # the KDE / downsampling entry points and the methods of the
            # class they call
            seen = set()
            stack = []
            for nm in R1210_CORE:
                f = repo.func(CORE, "RTDCBase." + nm, missing_ok=True)
                if f is not None:
                    stack.append(("RTDCBase." + nm, f))
            if len(stack) < 3:
                raise AnalysisError("core.py: KDE / downsampling entry "
                                    "points of RTDCBase lost")
            quals = {id(f): q for q, f in mod.funcs.items()}
            while stack:
                q, f = stack.pop()
                if id(f) in seen:
                    continue
                seen.add(id(f))
                todo.append((q, f))
                for c in walk(f):
                    if isinstance(c, ast.Call):
                        t = mod.resolve(c)
                        if t is not None and id(t) in quals:
                            stack.append((quals[id(t)], t))
            todo.sort(key=lambda x: x[0])
        else:
            todo = list(mod.funcs.items())
        for q, f in todo:
            params = lib_C12.array_params(f, DS_PARAMS)
            # a parameter that is called is a function, not data
            called = {c.func.id for c in walk(f, nested=True)
                      if isinstance(c, ast.Call)
                      and isinstance(c.func, ast.Name)}
            params = [p for p in params if p not in called]
            if not params:
                continue
            res = lib_C12.analyse(f, mod, params)
            if not res.has_value_return:
                # a procedure whose effect is what it writes into its
                # arguments: judged where it is called
                ctx.note(f"R12.10 {rel}::{q}: no return value, writes "
                         f"{sorted({p for _, p, _, _ in res.sites})} – "
                         f"judged at its call sites")
                continue
            n_funcs += 1
            n_writes += res.n_writes
            unsure = [(n, p, how) for n, p, c, how in res.sites
                      if c != lib_C12.D]
            sure = {}
            for n, p, c, how in res.sites:
                if c == lib_C12.D:
                    sure.setdefault(p, []).append((n, how))
            if unsure and not sure:
                n, p, how = unsure[0]
                raise AnalysisError(
                    f"{rel}::{q}: {how} (line {n.lineno}) may or may not "
                    f"write into the argument `{p}` – alias not classified")
            for p in params:
                hits = sure.get(p, [])
                ctx.ob("R12.10", not hits,
                       f"`{q}` never writes into its argument `{p}` in "
                       f"place ({res.n_writes} write sites of the function "
                       f"examined)" if not hits else
                       f"`{q}` modifies the caller's array `{p}` in place: "
                       f"{hits[0][1]} (line {hits[0][0].lineno}) writes "
                       f"into the argument (or a view of it) without a "
                       f"copy – the caller's data are changed and every "
                       f"later computation on the same array is off",
                       node=f, label=f"argument {p} not written in place")
    ctx.stat("R12.10 functions / write sites examined", [n_funcs, n_writes])


# ----------------------------------------------------------------------
# R12.11 header / values pairing of get_statistics

class _MissingFeature(ModelFault):
    pass


def r1211(ctx, repo):
    f = repo.func(STAT, "get_statistics")
    params = [a.arg for a in f.args.args]
    if params[:1] != ["ds"] or "methods" not in params \
            or "features" not in params:
        raise AnalysisError("get_statistics: signature (ds, methods, "
                            "features) lost")
    NAN = NS("nan_placeholder")

    def label(ft):
        return f"<<label {ft}>>"

    class Meth:
        def __init__(self, name, req):
            self.name = name
            self.req_feature = req

        def __call__(self, *args, **kw):
            if args or "ds" not in kw:
                raise ModelFault(f"statistic {self.name} called without "
                                 f"ds=")
            if self.req_feature:
                if "feature" not in kw:
                    raise ModelFault(f"statistic {self.name} called "
                                     f"without feature=")
                if kw["feature"] not in kw["ds"]:
                    raise _MissingFeature(
                        f"statistic {self.name} is computed for the "
                        f"feature '{kw['feature']}' the dataset lacks")
                return ("val", self.name, kw["feature"])
            if kw.get("feature") is not None:
                raise ModelFault(f"statistic {self.name} got a feature")
            return ("val", self.name, None)

    registry = {"Mq1": Meth("Mq1", False), "Mq2": Meth("Mq2", True),
                "Mq3": Meth("Mq3", True), "Mq4": Meth("Mq4", False)}

    class DS:
        features_scalar = ["fa", "fb"]
        features = ["fa", "fb", "image"]
        config = {"filtering": {"enable filters": True}}

        def __contains__(self, ft):
            return ft in ("fa", "fb", "image")

    cases = []
    for meths in (None, ["Mq2", "Mq1"], ["Mq1"], ["Mq3"],
                  ["Mq4", "Mq3", "Mq2"]):
        for feats in (None, ["fa", "fb"], ["fa", "gone", "fb"], ["gone"],
                      ["fb", "gone"]):
            cases.append((meths, feats))
    verdict = {"length": None, "pairing": None, "complete": None}
    n_eval = 0
    for meths, feats in cases:
        ds = DS()
        g = {"np": NS("np", nan=NAN),
             "dfn": NS("dfn", get_feature_label=lambda ft, rtdc_ds=None:
                       label(ft)),
             "Statistics": NS("Statistics", available_methods=dict(registry))}
        mini = Mini(g)
        mini.bind_module(repo.tree(STAT))
        mini.g.update(g)
        what = f"methods={meths}, features={feats}"
        try:
            got = mini.call(f, (ds,), {
                "methods": None if meths is None else list(meths),
                "features": None if feats is None else list(feats)})
        except _MissingFeature as e:
            verdict["pairing"] = verdict["pairing"] or f"{what}: {e}"
            continue
        except ModelFault as e:
            raise AnalysisError(f"get_statistics on the model ({what}): {e}")
        n_eval += 1
        if not (isinstance(got, tuple) and len(got) == 2):
            raise AnalysisError("get_statistics: does not return (header, "
                                "values)")
        header, values = list(got[0]), list(got[1])
        use_m = list(registry) if meths is None else meths
        use_f = DS.features_scalar if feats is None else feats
        if len(header) != len(values):
            verdict["length"] = verdict["length"] or (
                f"{what}: {len(header)} header entries but {len(values)} "
                f"values – the lists fall out of step")
        for h, v in zip(header, values):
            if not isinstance(h, str):
                raise AnalysisError(f"get_statistics: header entry {h!r} "
                                    f"is not a string")
            if v is NAN:
                miss = [ft for ft in use_f if ft not in ds]
                if not any(label(ft) in h for ft in miss):
                    verdict["pairing"] = verdict["pairing"] or (
                        f"{what}: the nan placeholder of a missing feature "
                        f"stands under the header '{h}'")
            elif isinstance(v, tuple) and v and v[0] == "val":
                ok = v[1] in h.split(" ") or h == v[1]
                if v[2] is not None:
                    ok = ok and label(v[2]) in h
                if not ok:
                    verdict["pairing"] = verdict["pairing"] or (
                        f"{what}: the value of statistic {v[1]}"
                        f"({v[2] or ''}) stands under the header '{h}'")
            else:
                raise AnalysisError(f"get_statistics: value {v!r} not "
                                    f"recognised by the model")
        want = [m for m in use_m if not registry[m].req_feature] + [
            (m, ft) for ft in use_f for m in use_m
            if registry[m].req_feature]
        for w in want:
            if isinstance(w, tuple):
                n = sum(1 for h in header
                        if w[0] in h.split(" ") and label(w[1]) in h)
            else:
                n = sum(1 for h in header if h == w)
            if n != 1:
                verdict["complete"] = verdict["complete"] or (
                    f"{what}: statistic {w} has {n} header entries "
                    f"(expected one)")
    msgs = {"length": "header and values have the same length",
            "pairing": "every value stands under the header of its own "
                       "method and feature (nan placeholder under the "
                       "missing feature)",
            "complete": "every requested method x feature has exactly one "
                        "header entry"}
    for k in ("length", "pairing", "complete"):
        bad = verdict[k]
        ctx.ob("R12.11", bad is None,
               f"get_statistics: {msgs[k]} ({n_eval} model evaluations)"
               if bad is None else f"get_statistics: {bad}", node=f,
               label=f"header/values {k}")
    ctx.stat("R12.11 evaluations", n_eval)


def run(ctx):
    repo = ctx.repo
    FILTER_ALL_NAMES.clear()
    FILTER_STALE_NAMES.clear()
    FILTER_ALL_NAMES.update(filter_all_names(repo))
    ctx.stat("selection attributes of Filter", sorted(FILTER_ALL_NAMES))
    ctx.rule("R12.1", "filter taint: feature data reaching an estimator / "
             "downsampler / statistic / writer / return passed the "
             "filter.all selection (or filtering is switched off)",
             minimum=14)
    ctx.rule("R12.2", "axis pairing of scaling, estimator arguments and "
             "back-transform; semantics of _apply_scale", minimum=15)
    ctx.rule("R12.3", "ignore_nan_inf purges events and positions, NaN at "
             "invalid outputs, estimators wrapped, get_feature purge",
             minimum=9)
    ctx.rule("R12.4", "quantile levels: common invalid mask, same "
             "normalisation of grid and events, percentile at q*100",
             minimum=5)
    r121(ctx, repo)
    r122(ctx, repo)
    r123(ctx, repo)
    ctx.rule("R12.5", "bin-width helpers purge NaN / inf and take every "
             "statistic from the purged value (siblings agree)", minimum=6)
    ctx.rule("R12.6", "downsampled scatter: mask and returned data mark the "
             "same selected events, values unchanged", minimum=3)
    r124(ctx, repo)
    r125(ctx, repo)
    r126(ctx, repo)
    ctx.rule("R12.7", "contour grid extent from the events valid in both "
             "coordinates (the estimator's events)", minimum=2)
    ctx.rule("R12.8", "buffers receiving kernel / density values are "
             "allocated floating", minimum=2)
    r127(ctx, repo)
    r128(ctx, repo)
    ctx.rule("R12.9", "observation matrices of the multivariate estimator "
             "reach gpke with one row per position / event for every N "
             "(incl. N == k_vars)", minimum=2)
    r129(ctx, repo)
    ctx.rule("R12.10", "analysis functions do not write into their array "
             "arguments (or views of them) in place", minimum=R1210_MIN)
    r1210(ctx, repo)
    ctx.rule("R12.11", "get_statistics: header and values are appended "
             "pairwise on every path (evaluated on model datasets)",
             minimum=3)
    r1211(ctx, repo)
    if ctx.tier == "thorough":
        other = []
        for rel in repo.files("dclab/"):
            if rel in SCOPE or rel.endswith("filter.py"):
                continue
            for n in ast.walk(repo.tree(rel)):
                if isinstance(n, ast.Subscript) and _is_filter_all(n.slice):
                    other.append(f"{rel}:{n.lineno} {short(n, 50)}")
        ctx.note("filtered feature access outside the anchored modules "
                 "(not judged): " + ("; ".join(other) or "none"))


X_SEL = "        x = self[xax][self.filter.all]\n"
Y_SEL = "        y = self[yax][self.filter.all]\n"

MUTANTS = [
    ("downsampled scatter ignores the filter (x)", CORE,
     (X_SEL, "        x = self[xax]\n", 0), "R12.1"),
    ("kde contour ignores the filter (y)", CORE,
     (Y_SEL, "        y = self[yax]\n", 1), "R12.1"),
    ("kde scatter ignores the filter (x)", CORE,
     (X_SEL, "        x = self[xax]\n", 2), "R12.1"),
    ("kde scatter selects with the manual filter only", CORE,
     (Y_SEL, "        y = self[yax][self.filter.manual]\n", 2), "R12.1"),
    ("contour spacing from all events", CORE,
     ("            a=x,\n", "            a=self[xax],\n"), "R12.1"),
    ("statistics ignore the filter", STAT,
     ("            x = ds[feat][ds.filter.all]\n",
      "            x = ds[feat]\n"), "R12.1"),
    ("statistics filter only when filters are disabled", STAT,
     ('        if ds.config["filtering"]["enable filters"]:',
      '        if not ds.config["filtering"]["enable filters"]:'), "R12.1"),
    ("tsv filter ignored", EXP,
     ("            if filtered:\n"
      "                data = [ds[c][ds.filter.all] for c in features]\n",
      "            if filtered:\n"
      "                data = [ds[c] for c in features]\n"), "R12.1"),
    ("fcs filtered flag inverted", EXP,
     ("        if filtered:\n"
      "            data = [ds[c][ds.filter.all] for c in features]\n",
      "        if not filtered:\n"
      "            data = [ds[c][ds.filter.all] for c in features]\n"),
     "R12.1"),
    ("avi tests the neighbouring event", EXP,
     ("                if filtered and not ds.filter.all[evid]:",
      "                if filtered and not ds.filter.all[evid - 1]:"),
     "R12.1"),
    ("avi frame test dropped", EXP,
     ("                if filtered and not ds.filter.all[evid]:\n"
      "                    continue\n", ""), "R12.1"),
    ("Events counts all events", STAT,
     ("           method=lambda mm: np.sum(mm.filter.all))",
      "           method=lambda mm: len(mm))"), "R12.1"),
    ("%-gated is a fraction, not per cent", STAT,
     ("           method=lambda mm: np.average(mm.filter.all)*100)",
      "           method=lambda mm: np.average(mm.filter.all))"), "R12.1"),
    ("scatter: y positions scaled with the x scale", CORE,
     ("            posy = RTDCBase._apply_scale(positions[1], yscale, yax)",
      "            posy = RTDCBase._apply_scale(positions[1], xscale, yax)"),
     "R12.2"),
    ("scatter: x positions taken from the y positions", CORE,
     ("            posx = RTDCBase._apply_scale(positions[0], xscale, xax)",
      "            posx = RTDCBase._apply_scale(positions[1], xscale, xax)"),
     "R12.2"),
    ("contour: y mesh not transformed back", CORE,
     ('        if yscale == "log":\n            ymesh = np.exp(ymesh)\n',
      ""), "R12.2"),
    ("contour: x mesh transformed back under the y scale", CORE,
     ('        if xscale == "log":\n            xmesh = np.exp(xmesh)',
      '        if yscale == "log":\n            xmesh = np.exp(xmesh)'),
     "R12.2"),
    ("scatter: estimator axes swapped", CORE,
     ("            density = kde_fct(events_x=xs, events_y=ys,\n"
      "                              xout=posx, yout=posy,",
      "            density = kde_fct(events_x=ys, events_y=xs,\n"
      "                              xout=posx, yout=posy,"), "R12.2"),
    ("contour: estimator gets unscaled events", CORE,
     ("            density = kde_fct(events_x=xs, events_y=ys,\n"
      "                              xout=xmesh, yout=ymesh,",
      "            density = kde_fct(events_x=x, events_y=ys,\n"
      "                              xout=xmesh, yout=ymesh,"), "R12.2"),
    ("downsampling: y scaled with the x scale", CORE,
     ("        ys = RTDCBase._apply_scale(y, yscale, yax)\n\n"
      "        _, _, idx",
      "        ys = RTDCBase._apply_scale(y, xscale, yax)\n\n"
      "        _, _, idx"), "R12.2"),
    ("downsampling on unscaled data", CORE,
     ("        _, _, idx = downsampling.downsample_grid(xs, ys,",
      "        _, _, idx = downsampling.downsample_grid(x, ys,"), "R12.2"),
    ("_apply_scale: decadic logarithm", CORE,
     ("                b = np.log(a)\n", "                b = np.log10(a)\n"),
     "R12.2"),
    ("_apply_scale: unknown scale treated as linear", CORE,
     ("        else:\n"
      "            raise ValueError(\"`scale` must be either 'linear' or "
      "'log', \"\n"
      "                             + \"got '{}'!\".format(scale))\n",
      "        else:\n            b = a\n"), "R12.2"),
    ("wrapper: y events not purged", KDE,
     ("        ev_y = events_y[~bad_in]", "        ev_y = events_y"),
     "R12.3"),
    ("wrapper: invalid y positions not detected", KDE,
     ("            bad_out = get_bad_vals(xout, yout)",
      "            bad_out = get_bad_vals(xout, xout)"), "R12.3"),
    ("wrapper: invalid outputs keep 0", KDE,
     ("        density[bad_out] = np.nan\n", ""), "R12.3"),
    ("wrapper: invalid y events not detected", KDE,
     ("        bad_in = get_bad_vals(events_x, events_y)",
      "        bad_in = get_bad_vals(events_x, events_x)"), "R12.3"),
    ("get_bad_vals: inf in y accepted", KDE,
     ("    return np.isnan(x) | np.isinf(x) | np.isnan(y) | np.isinf(y)",
      "    return np.isnan(x) | np.isinf(x) | np.isnan(y)"), "R12.3"),
    ("wrapper: result written into the input", KDE,
     ("            density = np.zeros_like(events_x, dtype=np.float64)",
      "            density = events_x"), "R12.3"),
    ("gauss estimator not wrapped", KDE,
     ("@ignore_nan_inf\n@Cache\ndef kde_gauss", "@Cache\ndef kde_gauss"),
     "R12.3"),
    ("multivariate estimator not wrapped", KDE,
     ("@ignore_nan_inf\n@Cache\ndef kde_multivariate",
      "@Cache\ndef kde_multivariate"), "R12.3"),
    ("statistics: inf values kept", STAT,
     ("        bad = np.isnan(x) | np.isinf(x)\n        xout = x[~bad]",
      "        bad = np.isnan(x)\n        xout = x[~bad]"), "R12.3"),
    ("statistics: purge inverted", STAT,
     ("        xout = x[~bad]", "        xout = x[bad]"), "R12.3"),
    ("quantiles: events normalised by the other axis", KDC,
     ("    xp = xp / x_norm", "    xp = xp / y_norm"), "R12.4"),
    ("quantiles: y events not purged", KDC,
     ("    xp = xp[~bad]\n    yp = yp[~bad]\n\n    # Normalize",
      "    xp = xp[~bad]\n\n    # Normalize"), "R12.4"),
    ("quantiles: q used as per cent", KDC,
     ("plev = np.nanpercentile(dp, q=q*100)",
      "plev = np.nanpercentile(dp, q=q)"), "R12.4"),
    ("quantiles: event coordinates swapped", KDC,
     ("                       (xp, yp),", "                       (yp, xp),"),
     "R12.4"),
    ("quantiles: invalid y events not detected", KDC,
     ("    bad = get_bad_vals(xp, yp)\n    xp = xp[~bad]\n    yp = yp[~bad]\n"
      "\n    # Normalize",
      "    bad = get_bad_vals(xp, xp)\n    xp = xp[~bad]\n    yp = yp[~bad]\n"
      "\n    # Normalize"), "R12.4"),
]

TWINS = [
    ("scatter: select in a second step", CORE,
     (X_SEL, "        x = self[xax]\n        x = x[self.filter.all]\n", 2)),
    ("contour: filter bound to a local", CORE,
     [(X_SEL, "        filt = self.filter.all\n        x = self[xax][filt]\n",
       1),
      (Y_SEL, "        y = self[yax][filt]\n", 1)]),
    ("statistics: filter applied after the read", STAT,
     ('        if ds.config["filtering"]["enable filters"]:\n'
      "            x = ds[feat][ds.filter.all]\n"
      "        else:\n            x = ds[feat]\n",
      "        x = ds[feat]\n"
      '        if ds.config["filtering"]["enable filters"]:\n'
      "            x = x[ds.filter.all]\n")),
    ("tsv: mask bound to a local first", EXP,
     ("            if filtered:\n"
      "                data = [ds[c][ds.filter.all] for c in features]\n",
      "            if filtered:\n"
      "                sel = ds.filter.all\n"
      "                data = [ds[c][sel] for c in features]\n")),
    ("wrapper: valid mask in a local", KDE,
     ("        ev_x = events_x[~bad_in]\n        ev_y = events_y[~bad_in]\n",
      "        good = ~bad_in\n        ev_x = events_x[good]\n"
      "        ev_y = events_y[good]\n")),
    ("quantiles: normalise by the range", KDC,
     [("    x_norm = x.max()\n", "    x_norm = x.max() - x.min()\n"),
      ("    y_norm = y.max()\n", "    y_norm = y.max() - y.min()\n")]),
    ("histogram estimator: decorators in the other order", KDE,
     ("@ignore_nan_inf\n@Cache\ndef kde_histogram",
      "@Cache\n@ignore_nan_inf\ndef kde_histogram")),
    ("Events via count_nonzero", STAT,
     ("           method=lambda mm: np.sum(mm.filter.all))",
      "           method=lambda mm: np.count_nonzero(mm.filter.all))")),
    ("scatter: positions unpacked first", CORE,
     ("            posx = RTDCBase._apply_scale(positions[0], xscale, xax)\n"
      "            posy = RTDCBase._apply_scale(positions[1], yscale, yax)\n",
      "            px, py = positions[0], positions[1]\n"
      "            posx = RTDCBase._apply_scale(px, xscale, xax)\n"
      "            posy = RTDCBase._apply_scale(py, yscale, yax)\n")),
]


DOANE_PURGE = ("    bad = np.isnan(a) | np.isinf(a)\n    data = a[~bad]\n"
               "    n = data.size\n")

MUTANTS = list(MUTANTS) + [
    ("doane: sample size counts purged events (seeded)", KDE,
     ("    n = data.size\n", "    n = a.size\n"), "R12.5"),
    ("doane: range from the raw data", KDE,
     ("    acc = (data.max() - data.min()) / k\n",
      "    acc = (a.max() - data.min()) / k\n"), "R12.5"),
    ("doane: skewness of the raw data", KDE,
     ("    g1 = skew(data)\n", "    g1 = skew(a)\n"), "R12.5"),
    ("bin number: range from the raw data", KDE,
     ("        num = int(np.round((data.max() - data.min()) / acc))",
      "        num = int(np.round((a.max() - a.min()) / acc))"), "R12.5"),
    ("percentile width: percentile of the raw data", KDE,
     ("    start = np.percentile(data, 10)\n",
      "    start = np.percentile(a, 10)\n"), "R12.5"),
    ("percentile width: inf not purged", KDE,
     ("    bad = np.isnan(a) | np.isinf(a)\n    data = a[~bad]\n"
      "    start = np.percentile",
      "    bad = np.isnan(a)\n    data = a[~bad]\n"
      "    start = np.percentile"), "R12.5"),
    ("doane: purge dropped", KDE,
     (DOANE_PURGE, "    bad = np.isnan(a) | np.isinf(a)\n    data = a\n"
      "    n = data.size\n"), "R12.5"),
    ("doane: mask not inverted", KDE,
     (DOANE_PURGE, "    bad = np.isnan(a) | np.isinf(a)\n    data = a[bad]\n"
      "    n = data.size\n"), "R12.5"),
    ("downsampling: mask written at positions among the selected events "
     "(seeded)", CORE,
     ("            mids = np.where(self.filter.all)[0]\n"
      "            mask[mids] = idx\n",
      "            mask[np.flatnonzero(idx)] = True\n"), "R12.6"),
    ("downsampling: mask of the length of the selection", CORE,
     ("            mask = np.zeros(len(self), dtype=bool)\n"
      "            mids = np.where(self.filter.all)[0]\n"
      "            mask[mids] = idx\n",
      "            mask = np.array(idx)\n"), "R12.6"),
    ("downsampling: y of all selected events returned", CORE,
     ("            return x[idx], y[idx], mask",
      "            return x[idx], y, mask"),
     "R12.6"),
]

TWINS = list(TWINS) + [
    ("doane: sample size via len()", KDE,
     ("    n = data.size\n", "    n = len(data)\n")),
    ("doane: finite mask", KDE,
     (DOANE_PURGE, "    data = a[np.isfinite(a)]\n    n = data.size\n")),
    ("percentile width: parameter rebound to the purged data", KDE,
     ("    data = a[~bad]\n    start = np.percentile(data, 10)\n"
      "    end = np.percentile(data, 90)\n",
      "    a = a[~bad]\n    start = np.percentile(a, 10)\n"
      "    end = np.percentile(a, 90)\n")),
    ("bin number: purged range in locals", KDE,
     ("        num = int(np.round((data.max() - data.min()) / acc))",
      "        lo, hi = data.min(), data.max()\n"
      "        num = int(np.round((hi - lo) / acc))")),
    ("downsampling: mask via flatnonzero of the filter", CORE,
     ("            mids = np.where(self.filter.all)[0]\n",
      "            mids = np.flatnonzero(self.filter.all)\n")),
]


MUTANTS = list(MUTANTS) + [
    ("downsampling returns the scaled data", CORE,
     ("            return x[idx], y[idx]\n",
      "            return xs[idx], ys[idx]\n"), "R12.2"),
]

TWINS = list(TWINS) + [
    ("downsampling: returned points in locals, mirrored range test", CORE,
     [("        if downsample < 0:", "        if 0 > downsample:"),
      ("        if ret_mask:\n            # Mask is a boolean array",
       "        xnew = x[idx]\n        ynew = y[idx]\n\n"
       "        if ret_mask:\n            # Mask is a boolean array"),
      ("            return x[idx], y[idx], mask",
       "            return xnew, ynew, mask"),
      ("            return x[idx], y[idx]\n",
       "            return xnew, ynew\n")]),
    ("downsampling: mask translation in a private method", CORE,
     [("            mask = np.zeros(len(self), dtype=bool)\n"
       "            mids = np.where(self.filter.all)[0]\n"
       "            mask[mids] = idx\n",
       "            mask = self._filtered_mask_to_dataset_mask(idx)\n"),
      ("    def get_kde_contour(self,",
       "    def _filtered_mask_to_dataset_mask(self, idx):\n"
       "        mask = np.zeros(len(self), dtype=bool)\n"
       "        mids = np.where(self.filter.all)[0]\n"
       "        mask[mids] = idx\n"
       "        return mask\n\n"
       "    def get_kde_contour(self,")]),
    ("statistics: purge in a private helper method", STAT,
     [("        bad = np.isnan(x) | np.isinf(x)\n        xout = x[~bad]\n"
       "        return xout\n",
       "        return self._finite(x)\n\n"
       "    @staticmethod\n    def _finite(x):\n"
       "        bad = np.isnan(x) | np.isinf(x)\n        return x[~bad]\n")]),
]


_HELPER_XY = ("    def _get_filtered_xy(self, xax, yax):\n"
              "        x = self[xax][self.filter.all]\n"
              "        y = self[yax][self.filter.all]\n"
              "        return x, y\n\n"
              "    def get_downsampled_scatter(self,")
_USE_XY = "        x, y = self._get_filtered_xy(xax, yax)\n"

TWINS = list(TWINS) + [
    ("filtered (x, y) pair from a private helper", CORE,
     # (usages first: the helper text contains the replaced lines)
     [(X_SEL + Y_SEL, _USE_XY, 0),
      (X_SEL + Y_SEL, _USE_XY, 1),
      ("    def get_downsampled_scatter(self,", _HELPER_XY)]),
    ("downsample_grid imported by name", CORE,
     [("from .. import downsampling\n",
       "from ..downsampling import downsample_grid\n"),
      ("downsampling.downsample_grid(xs, ys,", "downsample_grid(xs, ys,")]),
]

MUTANTS = list(MUTANTS) + [
    ("helper hands back (y, x) for (x, y)", CORE,
     [(X_SEL + Y_SEL, _USE_XY, 0),
      ("    def get_downsampled_scatter(self,",
       _HELPER_XY.replace("return x, y", "return y, x"))], "R12.2"),
    ("helper hands back unfiltered y", CORE,
     [(X_SEL + Y_SEL, _USE_XY, 0),
      ("    def get_downsampled_scatter(self,",
       _HELPER_XY.replace("y = self[yax][self.filter.all]",
                          "y = self[yax]"))], "R12.1"),
]


_SCALED = ("        ys = RTDCBase._apply_scale(y, yscale, yax)\n\n"
           "        _, _, idx = downsampling.downsample_grid(")

MUTANTS = list(MUTANTS) + [
    ("downsampling: inf replaced in place in the scaled arrays (seeded)",
     CORE,
     (_SCALED,
      "        ys = RTDCBase._apply_scale(y, yscale, yax)\n"
      "        for sc in (xs, ys):\n"
      '            if sc.dtype.kind == "f":\n'
      "                sc[np.isinf(sc)] = np.nan\n\n"
      "        _, _, idx = downsampling.downsample_grid("), "R12.6"),
    ("downsampling: nan of the selected x data zeroed before returning",
     CORE,
     ("            return x[idx], y[idx]\n",
      "            x[np.isnan(x)] = 0\n            return x[idx], y[idx]\n"),
     "R12.6"),
]

TWINS = list(TWINS) + [
    ("downsampling: scaled arrays copied before use", CORE,
     (_SCALED,
      "        ys = RTDCBase._apply_scale(y, yscale, yax)\n"
      "        xs = np.array(xs, copy=True)\n"
      "        ys = np.array(ys, copy=True)\n\n"
      "        _, _, idx = downsampling.downsample_grid(")),
    ("downsampling: invalid events probed without storing", CORE,
     (_SCALED,
      "        ys = RTDCBase._apply_scale(y, yscale, yax)\n"
      '        if xs.dtype.kind == "f":\n'
      "            n_inf = int(np.sum(np.isinf(xs)))\n"
      "            del n_inf\n\n"
      "        _, _, idx = downsampling.downsample_grid(")),
]


_GRID_SEL = ("        bad = kde_methods.get_bad_vals(xs, ys)\n"
             "        xc = xs[~bad]\n        yc = ys[~bad]\n")

MUTANTS = list(MUTANTS) + [
    ("contour grid from per-axis finite values (seeded)", CORE,
     (_GRID_SEL, "        xc = xs[np.isfinite(xs)]\n"
                 "        yc = ys[np.isfinite(ys)]\n"), "R12.7"),
    ("contour grid: y extent from the x validity only", CORE,
     (_GRID_SEL, "        bad = kde_methods.get_bad_vals(xs, xs)\n"
                 "        xc = xs[~bad]\n        yc = ys[~bad]\n"), "R12.7"),
    ("contour grid from all scaled events", CORE,
     [(_GRID_SEL, ""),
      ("xlin = np.linspace(xc.min(), xc.max(), xnum, endpoint=True)",
       "xlin = np.linspace(np.nanmin(xs), np.nanmax(xs), xnum, "
       "endpoint=True)"),
      ("xnum = int(np.ceil((xc.max() - xc.min()) / xacc))",
       "xnum = int(np.ceil((np.nanmax(xs) - np.nanmin(xs)) / xacc))"),
      ("yc.max()", "np.nanmax(ys)", 0), ("yc.min()", "np.nanmin(ys)", 0),
      ("yc.min()", "np.nanmin(ys)", 0), ("yc.max()", "np.nanmax(ys)", 0)],
     "R12.7"),
    ("statistics: invalid values kept as nan (seeded core)", STAT,
     ("        bad = np.isnan(x) | np.isinf(x)\n        xout = x[~bad]\n",
      "        xout = np.where(np.isinf(x), np.nan, x)\n"), "R12.3"),
    ("statistics: method applied to the unpurged data", STAT,
     ("            return self.get_feature(ds, kwargs[\"feature\"])",
      "            return ds[kwargs[\"feature\"]][ds.filter.all]"), "R12.3"),
    ("kernel buffer inherits the data dtype (seeded)",
     EXT + "_kernel_base.py",
     ("    Kval = np.empty(data.shape)", "    Kval = np.empty_like(data)"),
     "R12.8"),
    ("kernel buffer allocated as integers", EXT + "_kernel_base.py",
     ("    Kval = np.empty(data.shape)",
      "    Kval = np.zeros(data.shape, dtype=int)"), "R12.8"),
    ("wrapper: density buffer inherits the event dtype", KDE,
     ("            density = np.zeros_like(events_x, dtype=np.float64)",
      "            density = np.zeros_like(events_x)"), "R12.8"),
]

TWINS = list(TWINS) + [
    ("contour grid: joint finite mask written out", CORE,
     (_GRID_SEL, "        good = np.isfinite(xs) & np.isfinite(ys)\n"
                 "        xc = xs[good]\n        yc = ys[good]\n")),
    ("kernel buffer with explicit float dtype", EXT + "_kernel_base.py",
     ("    Kval = np.empty(data.shape)",
      "    Kval = np.empty(data.shape, dtype=np.float64)")),
    ("wrapper: density buffer from the shape", KDE,
     ("            density = np.zeros_like(events_x, dtype=np.float64)",
      "            density = np.zeros(events_x.shape, dtype=float)")),
]


_LOG_BRANCH = (
    "            with warnings.catch_warnings(record=True) as w:\n"
    '                warnings.simplefilter("always")\n'
    "                b = np.log(a)\n"
    "                if len(w):\n"
    "                    # Tell the user that the log-transformation issued\n"
    "                    # a warning.\n"
    '                    warnings.warn("Invalid values encounterd in '
    'np.log "\n'
    "                                  \"while scaling feature '{}'!\""
    ".format(feat))\n")

TWINS = list(TWINS) + [
    ("_apply_scale: log branch in a private module-level function", CORE,
     [(_LOG_BRANCH, "            b = _log_transform(a, feat)\n"),
      ("class RTDCBase(abc.ABC):",
       "def _log_transform(a, feat):\n"
       "    with warnings.catch_warnings(record=True) as w:\n"
       '        warnings.simplefilter("always")\n'
       "        b = np.log(a)\n"
       "        if len(w):\n"
       '            warnings.warn("Invalid values encounterd in np.log "\n'
       "                          \"while scaling feature '{}'!\""
       ".format(feat))\n"
       "    return b\n\n\nclass RTDCBase(abc.ABC):")]),
]

MUTANTS = list(MUTANTS) + [
    ("_apply_scale: extracted log helper uses the decadic logarithm", CORE,
     [(_LOG_BRANCH, "            b = _log_transform(a, feat)\n"),
      ("class RTDCBase(abc.ABC):",
       "def _log_transform(a, feat):\n"
       "    return np.log10(a)\n\n\nclass RTDCBase(abc.ABC):")], "R12.2"),
]


TWINS = list(TWINS) + [
    ("quantiles: tuple assignments, mask negated once, inlined return", KDC,
     [("    bad = get_bad_vals(xp, yp)\n    xp = xp[~bad]\n"
       "    yp = yp[~bad]\n",
       "    valid = ~get_bad_vals(xp, yp)\n"
       "    xp, yp = xp[valid], yp[valid]\n", 0),
      ("    x = x / x_norm\n    xp = xp / x_norm\n",
       "    x, xp = x / x_norm, xp / x_norm\n"),
      ("    y = y / y_norm\n    yp = yp / y_norm\n",
       "    y, yp = y / y_norm, yp / y_norm\n"),
      ("    dp = spint.interpn((x, y), density,\n"
       "                       (xp, yp),\n",
       "    dp = spint.interpn(points=(x, y), values=density,\n"
       "                       xi=(xp, yp),\n"),
      ("    if not np.isscalar(q):\n        q = np.array(q)\n"
       "    plev = np.nanpercentile(dp, q=q*100)\n    return plev\n",
       "    quantiles = q if np.isscalar(q) else np.array(q)\n"
       "    return np.nanpercentile(dp, q=quantiles*100)\n")]),
    ("wrapper: output preparation in a module-level helper", KDE,
     [("        if xout is None:\n"
       "            density = np.zeros_like(events_x, dtype=np.float64)\n"
       "            bad_out = bad_in\n"
       "            xo = yo = None\n"
       "        else:\n"
       "            density = np.zeros_like(xout, dtype=np.float64)\n"
       "            bad_out = get_bad_vals(xout, yout)\n"
       "            xo = xout[~bad_out]\n"
       "            yo = yout[~bad_out]\n",
       "        density, bad_out, xo, yo = _prepare_output(events_x, bad_in,\n"
       "                                                   xout, yout)\n"),
      ("def ignore_nan_inf(kde_method):",
       "def _prepare_output(events_x, bad_in, xout, yout):\n"
       "    if xout is None:\n"
       "        density = np.zeros_like(events_x, dtype=np.float64)\n"
       "        bad_out = bad_in\n"
       "        xo = yo = None\n"
       "    else:\n"
       "        density = np.zeros_like(xout, dtype=np.float64)\n"
       "        bad_out = get_bad_vals(xout, yout)\n"
       "        xo = xout[~bad_out]\n"
       "        yo = yout[~bad_out]\n"
       "    return density, bad_out, xo, yo\n\n\n"
       "def ignore_nan_inf(kde_method):")]),
]

MUTANTS = list(MUTANTS) + [
    ("quantiles: events kept where the mask says invalid", KDC,
     ("    xp = xp[~bad]\n    yp = yp[~bad]\n",
      "    xp = xp[bad]\n    yp = yp[bad]\n", 0), "R12.4"),
    ("kde_none: ones of the position dtype", KDE,
     ("    return np.ones(xout.shape)", "    return np.ones_like(xout)"),
     "R12.8"),
]


_SPACING_X = ("        xacc_sc, xs = RTDCBase.get_kde_spacing(\n"
              "            a=x,\n            feat=xax,\n"
              "            scale=xscale,\n"
              "            method=kde_methods.bin_width_doane,\n"
              "            ret_scaled=True)\n")
_SPACING_Y = _SPACING_X.replace("xacc_sc, xs", "yacc_sc, ys").replace(
    "a=x,", "a=y,").replace("feat=xax", "feat=yax").replace(
    "scale=xscale", "scale=yscale")
_PARTIAL = ("        get_spacing = functools.partial(\n"
            "            RTDCBase.get_kde_spacing,\n"
            "            method=kde_methods.bin_width_doane,\n"
            "            ret_scaled=True)\n")


def _not_form(src):
    """every `x[~mask]` of kde_methods written with np.logical_not"""
    import re
    new = re.sub(r"\[~(\w+)\]", r"[np.logical_not(\1)]", src)
    return new


TWINS = list(TWINS) + [
    ("kde_methods: masks negated with np.logical_not", KDE, _not_form),
    ("contour: spacing calls through functools.partial, flatnonzero", CORE,
     [("import abc\n", "import abc\nimport functools\n"),
      (_SPACING_X, _PARTIAL
       + "        xacc_sc, xs = get_spacing(a=x, feat=xax, scale=xscale)\n"),
      (_SPACING_Y,
       "        yacc_sc, ys = get_spacing(a=y, feat=yax, scale=yscale)\n"),
      ("            mids = np.where(self.filter.all)[0]\n",
       "            mids = np.flatnonzero(self.filter.all)\n")]),
]

MUTANTS = list(MUTANTS) + [
    ("doane: logical_not purge, sample size from the raw data", KDE,
     ("    data = a[~bad]\n    n = data.size\n",
      "    data = a[np.logical_not(bad)]\n    n = a.size\n"), "R12.5"),
    ("contour: partial spacing call with the x scale for y", CORE,
     [("import abc\n", "import abc\nimport functools\n"),
      (_SPACING_X, _PARTIAL
       + "        xacc_sc, xs = get_spacing(a=x, feat=xax, scale=xscale)\n"),
      (_SPACING_Y,
       "        yacc_sc, ys = get_spacing(a=y, feat=yax, scale=xscale)\n")],
     "R12.2"),
    ("contour: partial spacing call on unfiltered data", CORE,
     [("import abc\n", "import abc\nimport functools\n"),
      (_SPACING_X, _PARTIAL
       + "        xacc_sc, xs = get_spacing(a=self[xax], feat=xax, "
         "scale=xscale)\n")], "R12.1"),
]


_GF_BRANCH = ('        if ds.config["filtering"]["enable filters"]:\n'
              "            x = ds[feat][ds.filter.all]\n")

MUTANTS = list(MUTANTS) + [
    ("statistics: purged data of the last feature memoised (seeded part)",
     STAT,
     [(_GF_BRANCH,
       '        enabled = ds.config["filtering"]["enable filters"]\n'
       "        key = (ds.identifier, feat, enabled, ds.filter.revision)\n"
       "        if Statistics._last_feature[0] == key:\n"
       "            return Statistics._last_feature[1]\n"
       "        if enabled:\n"
       "            x = ds[feat][ds.filter.all]\n"),
      ("        xout = x[~bad]\n        return xout\n",
       "        xout = x[~bad]\n"
       "        Statistics._last_feature = (key, xout)\n"
       "        return xout\n"),
      ("    available_methods = {}\n",
       "    available_methods = {}\n    _last_feature = (None, None)\n")],
     "R12."),
    ("statistics: purged data kept on the instance", STAT,
     ("        xout = x[~bad]\n        return xout\n",
      "        xout = x[~bad]\n        self._last = xout\n"
      "        return xout\n"), "R12.1"),
]

TWINS = list(TWINS) + [
    ("statistics: enable flag in a local", STAT,
     (_GF_BRANCH,
      '        enabled = ds.config["filtering"]["enable filters"]\n'
      "        if enabled:\n"
      "            x = ds[feat][ds.filter.all]\n")),
]


_POS = ("    positions = np.column_stack([xout.flatten(), "
        "yout.flatten()])\n")

MUTANTS = list(MUTANTS) + [
    ("F12c returns: positions stacked as (2, N)", KDE,
     (_POS, "    positions = np.vstack([xout.flatten(), yout.flatten()])\n"),
     "R12.9"),
    ("positions as a plain (2, N) array", KDE,
     (_POS, "    positions = np.array([xout.flatten(), yout.flatten()])\n"),
     "R12.9"),
    ("positions transposed once too often", KDE,
     (_POS, "    positions = np.column_stack([xout.flatten(), "
            "yout.flatten()]).T\n"), "R12.9"),
    ("positions: y column twice", KDE,
     (_POS, "    positions = np.column_stack([yout.flatten(), "
            "yout.flatten()])\n"), "R12.9"),
]

TWINS = list(TWINS) + [
    ("positions: vstack transposed", KDE,
     (_POS, "    positions = np.vstack([xout.flatten(), "
            "yout.flatten()]).T\n")),
    ("positions: stack along axis 1", KDE,
     (_POS, "    positions = np.stack([xout.flatten(), yout.flatten()], "
            "axis=1)\n")),
    ("positions: array transposed", KDE,
     (_POS, "    positions = np.array([xout.flatten(), "
            "yout.flatten()]).T\n")),
    ("positions: np.c_", KDE,
     (_POS, "    positions = np.c_[xout.flatten(), yout.flatten()]\n")),
]


MUTANTS = list(MUTANTS) + [
    ("bin number truncated instead of rounded (seeded)", KDE,
     ("        num = int(np.round((data.max() - data.min()) / acc))",
      "        num = int((data.max() - data.min()) / acc)"), "R12.5"),
    ("bin number rounded up", KDE,
     ("        num = int(np.round((data.max() - data.min()) / acc))",
      "        num = int(np.ceil((data.max() - data.min()) / acc))"),
     "R12.5"),
    ("_apply_scale: logarithm computed in single precision (seeded)", CORE,
     ("                b = np.log(a)\n",
      "                b = np.log(a, dtype=np.float32)\n"), "R12.2"),
]

TWINS = list(TWINS) + [
    ("bin number: ratio in a local, np.rint", KDE,
     ("        num = int(np.round((data.max() - data.min()) / acc))",
      "        ratio = (data.max() - data.min()) / acc\n"
      "        num = int(np.rint(ratio))")),
    ("_apply_scale: logarithm with explicit double precision", CORE,
     ("                b = np.log(a)\n",
      "                b = np.log(a, dtype=np.float64)\n")),
]


TWINS = list(TWINS) + [
    ("statistics: feature statistics registered in a loop over a table",
     STAT,
     ('Statistics(name="Mean",   req_feature=True, method=np.average)\n'
      'Statistics(name="Median", req_feature=True, method=np.median)\n'
      'Statistics(name="Mode",   req_feature=True, method=mode)\n'
      'Statistics(name="SD",     req_feature=True, method=np.std)\n',
      "for _name, _method in [\n"
      '        ("Mean", np.average),\n'
      '        ("Median", np.median),\n'
      '        ("Mode", mode),\n'
      '        ("SD", np.std),\n'
      "        ]:\n"
      "    Statistics(name=_name, req_feature=True, method=_method)\n")),
    ("spacing: private static wrapper of the scaling step", CORE,
     [("        asc = RTDCBase._apply_scale(a, scale, feat)\n",
       "        asc = RTDCBase._scaled(a, scale, feat)\n"),
      ("    @staticmethod\n    def get_kde_spacing(",
       "    @staticmethod\n    def _scaled(a, scale, feat):\n"
       "        return RTDCBase._apply_scale(a, scale, feat)\n\n"
       "    @staticmethod\n    def get_kde_spacing(")]),
]

MUTANTS = list(MUTANTS) + [
    ("statistics: %-gated registered in a loop, factor lost", STAT,
     ('Statistics(name="%-gated",\n'
      "           method=lambda mm: np.average(mm.filter.all)*100)\n",
      "for _name, _method in [\n"
      '        ("%-gated", lambda mm: np.average(mm.filter.all)),\n'
      "        ]:\n"
      "    Statistics(name=_name, method=_method)\n"), "R12.1"),
]


MUTANTS = list(MUTANTS) + [
    ("quantiles: sequence q no longer converted to an array (seeded)", KDC,
     ("    if not np.isscalar(q):\n        q = np.array(q)\n", ""),
     "R12.4"),
]

TWINS = list(TWINS) + [
    ("quantiles: q converted unconditionally", KDC,
     ("    if not np.isscalar(q):\n        q = np.array(q)\n",
      "    q = np.asarray(q)\n")),
]



# round 7: R12.10 (arguments not written in place), R12.11 (header / values)
_DP_NORM = "    if normalize:\n        dp /= density.max()\n"
_PERFORM = "    # Perform interpolation\n    dp = spint.interpn("
_STAT_INNER = (
    "                if ft in ds:\n"
    "                    values.append(meth(ds=ds, feature=ft))\n"
    "                else:\n"
    "                    values.append(np.nan)\n"
    "                label = dfn.get_feature_label(ft, rtdc_ds=ds)\n"
    "                header.append(\" \".join([mt, label]))\n")

MUTANTS = list(MUTANTS) + [
    ("quantiles: the caller's density is normalised in place", KDC,
     [(_DP_NORM, ""),
      (_PERFORM, "    if normalize:\n        density /= density.max()\n\n"
       + _PERFORM)], "R12.10"),
    ("quantiles: grid normalised in place (view of the caller's x)", KDC,
     ("    x = x / x_norm\n", "    x /= x_norm\n"), "R12.10"),
    ("quantiles: density normalised by a helper that writes its argument",
     KDC,
     [(_DP_NORM, ""),
      (_PERFORM, "    if normalize:\n        density = _unit_max(density)\n\n"
       + _PERFORM),
      ("def get_quantile_levels(",
       "def _unit_max(arr):\n    arr /= arr.max()\n    return arr\n\n\n"
       "def get_quantile_levels(")], "R12.10"),
    ("quantiles: density normalised with out= into the argument", KDC,
     [(_DP_NORM, ""),
      (_PERFORM, "    if normalize:\n        np.divide(density, "
       "density.max(), out=density)\n\n" + _PERFORM)], "R12.10"),
    ("contour finding: levels made absolute by rescaling the density", KDC,
     ("    level = level * density.max()\n",
      "    dview = np.asarray(density)\n    dview /= dview.max()\n"),
     "R12.10"),
    ("histogram estimator: positions sorted in place", KDE,
     ("    if xout is None and yout is None:\n        xout = events_x\n"
      "        yout = events_y\n",
      "    if xout is None and yout is None:\n        xout = events_x\n"
      "        yout = events_y\n    xout.sort()\n"), "R12.10"),
    ("downsampling: invalid events zeroed in the caller's array", DSP,
     ("    keep[bad] = False\n", "    keep[bad] = False\n    a[bad] = 0\n"),
     "R12.10"),
    ("statistics: missing feature skips the header only", STAT,
     (_STAT_INNER,
      "                if ft not in ds:\n"
      "                    values.append(np.nan)\n"
      "                    continue\n"
      "                values.append(meth(ds=ds, feature=ft))\n"
      "                label = dfn.get_feature_label(ft, rtdc_ds=ds)\n"
      "                header.append(\" \".join([mt, label]))\n"), "R12.11"),
    ("statistics: header written only for available features", STAT,
     (_STAT_INNER,
      "                if ft in ds:\n"
      "                    values.append(meth(ds=ds, feature=ft))\n"
      "                    label = dfn.get_feature_label(ft, rtdc_ds=ds)\n"
      "                    header.append(\" \".join([mt, label]))\n"
      "                else:\n"
      "                    values.append(np.nan)\n"), "R12.11"),
    ("statistics: header entry for every method in the first loop", STAT,
     ("            values.append(meth(ds=ds))\n            header.append(mt)\n",
      "            values.append(meth(ds=ds))\n        header.append(mt)\n"),
     "R12.11"),
    ("statistics: header labelled with the previous feature", STAT,
     [("    for ft in features:\n        for mt in methods:\n",
       "    label = \"\"\n    for ft in features:\n        for mt in methods:\n"),
      (_STAT_INNER,
       "                if ft in ds:\n"
       "                    values.append(meth(ds=ds, feature=ft))\n"
       "                else:\n"
       "                    values.append(np.nan)\n"
       "                header.append(\" \".join([mt, label]))\n"
       "                label = dfn.get_feature_label(ft, rtdc_ds=ds)\n")],
     "R12.11"),
]

TWINS = list(TWINS) + [
    ("quantiles: grid copied, then normalised in place", KDC,
     ("    x = x / x_norm\n", "    x = x.copy()\n    x /= x_norm\n")),
    ("quantiles: event densities divided with out= into the fresh array", KDC,
     (_DP_NORM, "    if normalize:\n        np.divide(dp, density.max(), "
      "out=dp)\n")),
    ("histogram estimator: negative densities removed with putmask", KDE,
     ("    density[density < 0] = 0\n",
      "    np.putmask(density, density < 0, 0)\n")),
    ("contour finding: padded copy written in place", KDC,
     ("        density = np.pad(density, ((1, 1), (1, 1)), mode=\"constant\")"
      "\n",
      "        density = np.pad(density, ((1, 1), (1, 1)), mode=\"constant\")"
      "\n        density[0, 0] = 0\n")),
    ("statistics: guard clauses, value computed before both appends", STAT,
     (_STAT_INNER.replace("            if", "            if", 1),
      "                if ft in ds:\n"
      "                    val = meth(ds=ds, feature=ft)\n"
      "                else:\n"
      "                    val = np.nan\n"
      "                label = dfn.get_feature_label(ft, rtdc_ds=ds)\n"
      "                header.append(\" \".join([mt, label]))\n"
      "                values.append(val)\n")),
    ("statistics: early continue that skips nothing", STAT,
     ("            if meth.req_feature:\n" + _STAT_INNER,
      "            if not meth.req_feature:\n                continue\n"
      + _STAT_INNER.replace("                ", "            ", 1)
      .replace("\n                ", "\n            "))),
]
