"""C02 – HDF5/TSV export contains exactly the selected events and features.

The selection code of ``export.py`` is evaluated *symbolically over a small
scope*: the syntax trees of ``Export.hdf5``, ``store_filtered_feature``,
``yield_filtered_array_stacks``, ``Export.tsv/fcs/avi`` are interpreted
(sa/lib_C02.py) on model datasets whose events are uninterpreted tokens, for
every feature kind the writer dispatches on, every mask class (empty, full,
single, partial, straddling the chunk size) and both kinds of sources
(array-like / event-wise only).  The writer is a recording model; the oracle
is the definition of the property: what reaches the writer for a feature is
the token sequence of the selected events of *that* feature, in order.

R2.1 store_filtered_feature: every feature kind stores exactly the events
     selected by the mask, in order, under its own name; the selection also
     works when the mask is longer than the feature (Export.hdf5 truncates
     the selection to the shortest feature and hands features of other
     lengths to this function).
R2.2 yield_filtered_array_stacks tiles the index list: chunks are non-empty,
     at most one chunk size long and their concatenation is the gather of the
     indices – array route and event-wise route, remainder included.
R2.3 Export.hdf5: per feature kind of the writer's dispatch table the stored
     events equal the selection (filter on/off, full filter fast path,
     truncated selection); the unfiltered fast path is never taken under a
     partial selection; one selection is used for all features.
R2.4 text / FCS / AVI routes: rows = selected events exactly when `filtered`,
     all events otherwise; header columns and data columns agree.
R2.5 carried-over parts: every metadata section of CFG_METADATA present in
     the source plus `user` (and no analysis section) reaches
     store_metadata; all logs / tables are stored under the prefix exactly
     when requested.
R2.8 existing files (evaluated symbolically on a model file system): for
     hdf5 / tsv / fcs / avi the exists test, the removal of an existing file
     under ``override=True`` and the writer all act on the final,
     suffix-normalised path: an existing final file is refused without
     override, removed (never appended to) with override, and no other file
     is touched.
R2.7 lazy accessors: a feature accessor of a hierarchy child that fills a
     memo on first use (``if self._array is None: self._array = …``) must
     not let per-call arguments (dtype, copy, …) flow into the remembered
     value.
"""
from __future__ import annotations

import ast

from ..core import (AnalysisError, const_str, find_calls, kwarg, last_attr,
                    names_in, txt, walk)
from ..lib_C02 import (Arr, Ev, Feat, Mat, Mini, MiniError, ModelFault, NS,
                       Opaque, SelfModel, numpy_model)

ASSUMPTIONS = [
    "NOT decided: value equality per dtype (h5py / numpy conversions), the "
    "event count attribute, TSV precision, basins of the exported file "
    "(C07), shape reported by feature proxies (R7.6).",
    "Small scope: 5-7 events, chunk sizes 1,2,3,5 (the code's control flow "
    "depends on the selection size modulo / divided by the chunk size only); "
    "events are uninterpreted tokens, so any reordering, loss, duplication or "
    "cross-feature mix-up inside the scope is found; numpy's indexing laws "
    "(boolean masks must match in length, integer gathers keep order) are "
    "modelled, not executed.",
    "A consumer of yield_filtered_array_stacks uses each chunk before asking "
    "for the next one (the event-wise route re-uses its buffer, as "
    "documented).",
]

EXP = "dclab/rtdc_dataset/export.py"
WRI = "dclab/rtdc_dataset/writer.py"

SCALAR_SAMPLE = "deform"
OTHER_SAMPLE = "userdef1"
TRACE_KEYS = ("fl1_raw", "fl2_median")
CFG_SECTIONS = ["experiment", "imaging", "setup", "online_contour"]


# ----------------------------------------------------------------------
# the writer's dispatch table (folded from RTDCWriter.store_feature)

def writer_kinds(repo):
    """{feature literal: kind} with kind in scalar|ragged|stack|dict, from
    the if/elif chain of RTDCWriter.store_feature"""
    f0 = repo.func(WRI, "RTDCWriter.store_feature")
    cls = repo.cls(WRI, "RTDCWriter")
    # the chain sits in store_feature or in a private method it delegates
    # to (store_feature split into "prepare" and "write" steps)
    cands, todo, seen = [], [f0], set()
    while todo:
        g = todo.pop(0)
        if g.name in seen:
            continue
        seen.add(g.name)
        cands.append(g)
        for c in walk(g):
            if isinstance(c, ast.Call) and isinstance(
                    c.func, ast.Attribute) and isinstance(
                    c.func.value, ast.Name) and c.func.value.id == "self" \
                    and c.func.attr.startswith("_"):
                for st in cls.body:
                    if isinstance(st, ast.FunctionDef) \
                            and st.name == c.func.attr:
                        todo.append(st)
    chain = None
    f = f0
    for g in cands:
        for n in walk(g):
            if isinstance(n, ast.If) and isinstance(n.test, ast.Compare) \
                    and isinstance(n.test.left, ast.Name) and len(
                    n.test.ops) == 1 and isinstance(
                    n.test.ops[0], ast.Eq) \
                    and const_str(n.test.comparators[0]) == "index" \
                    and len(n.orelse) == 1 and isinstance(
                    n.orelse[0], ast.If):
                chain = n
                f = g
        if chain is not None:
            break
    if chain is None:
        raise AnalysisError("RTDCWriter.store_feature: dispatch chain "
                            "(`feat == 'index'` …) not found")
    kinds = {}
    node = chain
    has_scalar = has_else = False

    def resolve(e, depth=0):
        """a name stands for its single local assignment or for the
        module-level constant of writer.py"""
        if isinstance(e, ast.Name) and depth < 4:
            local = [n for n in walk(f) if isinstance(n, ast.Assign)
                     and any(isinstance(t, ast.Name) and t.id == e.id
                             for t in n.targets)]
            if len(local) == 1 and len(local[0].targets) == 1:
                return resolve(local[0].value, depth + 1)
            if not local:
                v = repo.module_assign(WRI, e.id, missing_ok=True)
                if v is not None:
                    return resolve(v, depth + 1)
        return e
    while True:
        test = resolve(node.test)
        if isinstance(test, ast.Compare) and len(test.ops) == 1:
            cmp0 = resolve(test.comparators[0])
            if isinstance(cmp0, ast.Call) and isinstance(
                    cmp0.func, ast.Name) and cmp0.func.id in (
                    "list", "tuple", "set", "frozenset") and len(
                    cmp0.args) == 1:
                cmp0 = resolve(cmp0.args[0])
            test = ast.Compare(left=test.left, ops=test.ops,
                               comparators=[cmp0])
        lits = []
        if isinstance(test, ast.Compare) and len(test.ops) == 1:
            if isinstance(test.ops[0], ast.Eq):
                lits = [const_str(test.comparators[0])]
            elif isinstance(test.ops[0], ast.In) and isinstance(
                    test.comparators[0], (ast.List, ast.Tuple, ast.Set)):
                lits = [const_str(e) for e in test.comparators[0].elts]
        body_calls = {last_attr(c) for s in node.body for c in walk(s)
                      if isinstance(c, ast.Call)}
        if lits and all(lits):
            if "write_ragged" in body_calls:
                k = "ragged"
            elif "keys" in body_calls:
                k = "dict"
            elif body_calls & {"write_image_grayscale",
                               "write_image_float32"}:
                k = "stack"
            elif lits == ["index"]:
                k = "scalar"
            else:
                raise AnalysisError(
                    f"RTDCWriter.store_feature: branch `{txt(test)}` not "
                    f"classified")
            for lit in lits:
                kinds[lit] = k
        elif isinstance(test, ast.Call) and last_attr(
                test) == "scalar_feature_exists":
            has_scalar = True
        else:
            raise AnalysisError(f"RTDCWriter.store_feature: unrecognised "
                                f"dispatch test `{txt(test)}`")
        if len(node.orelse) == 1 and isinstance(node.orelse[0], ast.If):
            node = node.orelse[0]
            continue
        has_else = bool(node.orelse)
        break
    if not (has_scalar and has_else):
        raise AnalysisError("RTDCWriter.store_feature: scalar branch or "
                            "fallback branch lost")
    if "ragged" not in kinds.values() or "dict" not in kinds.values():
        raise AnalysisError("RTDCWriter.store_feature: ragged / dict kinds "
                            "not found")
    return kinds


# ----------------------------------------------------------------------
# models

class Ragged(Feat):
    """events of different sizes: no common item shape, event-wise only"""

    def __init__(self, name, n):
        super().__init__(name, n, sliceable=False)

    @property
    def shape(self):
        raise ModelFault(f"ragged feature '{self.name}' has no per-event "
                         f"shape (cannot be assembled into array stacks)")


class ROArr(Arr):
    def __setitem__(self, k, v):
        raise ModelFault("assignment destination is read-only "
                         "(ds.filter.all)")

    def copy(self):
        return Arr(self.v, self.kind)


class HW:
    """recording writer"""

    def __init__(self):
        self.mode = "append"
        self.path = "OUT"
        self.calls = []
        self.meta = []
        self.logs = []
        self.tables = []
        self.h5file = Opaque("h5file")

    def __enter__(self):
        return self

    def store_feature(self, feat, data, shape=None):
        self.calls.append((feat, data, shape))

    def store_metadata(self, meta):
        self.meta.append(meta)

    def store_log(self, name, lines):
        self.logs.append((name, lines))

    def store_table(self, name, cmp_array):
        self.tables.append((name, cmp_array))

    def store_basin(self, *a, **k):
        pass


class WriterFactory:
    def __init__(self, hw, cs):
        self.hw = hw
        self.cs = cs
        self.opened = []

    def __call__(self, path_or_h5file, mode="append", compression_kwargs=None,
                 compression="deprecated"):
        self.hw.mode = mode
        self.opened.append(mode)
        fs = getattr(path_or_h5file, "fs", None)
        if fs is not None:
            nm = str(path_or_h5file)
            fs.events.append(("writer", nm, mode, nm in fs.existing))
            fs.existing.add(nm)
        return self.hw

    def get_best_nd_chunks(self, item_shape, item_dtype=None):
        return tuple([self.cs] + list(item_shape))


class FileM:
    def __init__(self, sink):
        self.sink = sink

    def __enter__(self):
        return self

    def write(self, s):
        self.sink.append(s)

    def writelines(self, lines):
        for s in lines:         # = write() per item, no separators added
            self.sink.append(s)

    def flush(self):
        pass

    def close(self):
        pass

    def __exit__(self, *a):
        pass


class FSM:
    """model file system: which names exist, what was opened for writing"""

    def __init__(self, existing=()):
        self.existing = set(existing)
        self.events = []


class PathM:
    def __init__(self, name="out.rtdc", written=None, fs=None):
        self._name = name
        self.written = written if written is not None else []
        self.fs = fs if fs is not None else FSM()

    def _new(self, name):
        return PathM(name, self.written, self.fs)

    @property
    def suffix(self):
        return "." + self._name.rsplit(".", 1)[1] if "." in self._name else ""

    @property
    def name(self):
        return self._name

    @property
    def stem(self):
        return self._name.rsplit(".", 1)[0]

    @property
    def parent(self):
        return self._new("dir/")

    def __truediv__(self, o):
        return self._new(str(o))

    def with_name(self, n):
        return self._new(n)

    def with_suffix(self, s):
        return self._new(self._name.rsplit(".", 1)[0] + s)

    def exists(self):
        return self._name in self.fs.existing or self._name.endswith("/")

    def is_file(self):
        return self._name in self.fs.existing

    def unlink(self, missing_ok=False):
        if self._name not in self.fs.existing:
            if missing_ok:
                return
            raise ModelFault(f"unlink of '{self._name}', which does not "
                             f"exist (FileNotFoundError)")
        self.fs.existing.discard(self._name)
        self.fs.events.append(("unlink", self._name))

    def mkdir(self, *a, **k):
        pass

    def open(self, mode="r", encoding=None, **k):
        existed = self._name in self.fs.existing
        if any(c in mode for c in "wax+"):
            self.fs.events.append(("open", self._name, mode, existed))
            self.fs.existing.add(self._name)
        return FileM(self.written)

    def __str__(self):
        return self._name

    def __fspath__(self):
        return self._name


class ConfigDictM(dict):
    """one configuration section: a dict whose `data` is itself, created
    empty or from a mapping, optionally knowing its section"""

    def __init__(self, *a, section=None, **k):
        super().__init__(*a, **k)
        self.section = section

    @property
    def data(self):
        return self

    def copy(self):
        return ConfigDictM(self, section=self.section)


class Config(dict):
    def as_dict(self):
        return {k: dict(v) for k, v in self.items()}


class DS:
    def __init__(self, feats, n, fmt, mask, scalars):
        self.feats = feats
        self.n = n
        self.format = fmt
        self.filter = NS("filter", all=ROArr(mask, "bool"),
                         manual=Opaque("manual"))
        self.config = Config({s: {"key " + s: 1} for s in CFG_SECTIONS[:3]})
        self.config["filtering"] = {"enable filters": True}
        self.config["calculation"] = {"emodulus lut": "x"}
        self.config["user"] = {"note": "n"}
        self.logs = {"log-a": ["l1"], "log-b": ["l2", "l3"]}
        self.tables = {"tab-a": Opaque("table a")}
        self.features_innate = list(feats)
        self.features_scalar = [f for f in feats if f in scalars]
        self.title = "title"
        self.basins = []
        self.path = PathM("in.rtdc")

    def __getitem__(self, feat):
        return self.feats[feat]

    def __contains__(self, feat):
        return feat in self.feats

    def __len__(self):
        return self.n

    def get_measurement_identifier(self):
        return "mid"


class SelfM(SelfModel):
    """instance of Export; methods, helpers and class constants are
    interpreted on demand"""

    def __init__(self, mini, cls, ds):
        super().__init__(mini, cls, rtdc_ds=ds)


def make_feature(name, kind, n, sliceable):
    if kind == "ragged":
        return Ragged(name, n)
    if kind == "dict":
        ln = n if not isinstance(n, dict) else n
        return {k: Feat("trace:" + k, ln, sliceable) for k in TRACE_KEYS}
    if kind == "stack":
        return Feat(name, n, sliceable)
    return Feat(name, n, True)


def flatten(data):
    """-> {key or None: [Ev …]} of whatever was handed to the writer"""
    if isinstance(data, Ev):
        return {None: [data]}
    if isinstance(data, Feat):
        return {None: data.all_events()}
    if isinstance(data, Arr):
        return {None: list(data.v)}
    if isinstance(data, (list, tuple)):
        return {None: list(data)}
    if isinstance(data, dict):
        out = {}
        for k, v in data.items():
            out[k] = flatten(v)[None]
        return out
    raise MiniError(f"writer model received {type(data).__name__}")


def stored_events(hw, feat):
    """{key: [Ev]} accumulated over all store_feature calls of `feat`"""
    acc = {}
    whole = False
    for (f, data, shape) in hw.calls:
        if f != feat:
            continue
        if isinstance(data, Feat) or (isinstance(data, dict) and any(
                isinstance(v, Feat) for v in data.values())):
            whole = True
        for k, evs in flatten(data).items():
            acc.setdefault(k, []).extend(evs)
    return acc, whole


def expected_events(feat, kind, sel):
    if kind == "dict":
        return {k: [Ev("trace:" + k, i) for i in sel] for k in TRACE_KEYS}
    return {None: [Ev(feat, i) for i in sel]}


def compare(hw, feat, kind, sel):
    """None when the writer received exactly the selected events of `feat`,
    else a description"""
    got, whole = stored_events(hw, feat)
    want = expected_events(feat, kind, sel)
    if not sel and not got:
        return None
    if kind != "dict" and set(got) - {None}:
        return f"'{feat}' stored as a dict with keys {sorted(got)}"
    for k in want:
        g = got.get(k, [])
        if g != want[k]:
            gi = [(e.i if isinstance(e, Ev) and e.feat == (
                "trace:" + k if k else feat) else repr(e)) for e in g]
            pre = ("the unfiltered fast path ran under a partial selection: "
                   if whole and len(g) > len(want[k]) else "")
            return (f"{pre}'{feat}'{'/' + k if k else ''}: stored events "
                    f"{gi}, selected events {sel}")
    extra = set(got) - set(want)
    if extra:
        return f"'{feat}': unexpected keys {sorted(extra)}"
    return None


MASKS5 = [
    [True] * 5,
    [False] * 5,
    [False, False, True, False, False],
    [True, False, True, True, False],
    [False, True, True, True, True],
]


# integer constants export.py imports from sibling modules (name: value)
imported_consts = {}


def base_globals(repo, hw, cs, scalars, extra=None):
    """module-level names of export.py as model values; module functions
    are bound from the tree (helpers a refactoring adds are picked up)"""
    warned = []
    g = {
        "np": numpy_model(),
        "warnings": NS("warnings", warn=lambda *a, **k: warned.append(a)),
        "dfn": NS("dfn",
                  scalar_feature_exists=lambda f: f in scalars,
                  feature_exists=lambda f: True,
                  CFG_METADATA=list(CFG_SECTIONS),
                  get_feature_label=lambda c, rtdc_ds=None: "label " + c),
        "RTDCWriter": WriterFactory(hw, cs),
        "pathlib": NS("pathlib", Path=lambda p: p if isinstance(
            p, PathM) else PathM(str(p))),
        "hdf5plugin": NS("hdf5plugin", Zstd=lambda **k: Opaque("zstd")),
        "uuid": NS("uuid", uuid4=lambda: "uuid4-uuid4"),
        "time": NS("time", strftime=lambda fmt, *a: "T"),
        "json": NS("json", dumps=lambda *a, **k: "{}"),
        "codecs": NS("codecs", BOM_UTF8="BOM"),
        "version": "1.2.3", "version_tuple": (1, 2, 3),
        "LimitingExportSizeWarning": UserWarning,
        "IMAGEIO_AVAILABLE": True, "FCSWRITE_AVAILABLE": True,
        "get_basin_classes": lambda: {},
        "ConfigurationDict": ConfigDictM,
        "Configuration": Config,
        "_warned": warned,
    }
    mini = Mini(g)
    mini.bind_module(repo.tree(EXP))
    # plain constants imported from sibling modules (`from .writer import
    # CHUNK_SIZE`) take their value from the parsed sibling
    base = EXP.rsplit("/", 1)[0]
    for st in repo.tree(EXP).body:
        if isinstance(st, ast.ImportFrom) and st.level == 1 and st.module \
                and "." not in st.module:
            rel = f"{base}/{st.module}.py"
            if not repo.exists(rel):
                continue
            for a in st.names:
                local = a.asname or a.name
                if local in mini.g:
                    continue
                v = repo.module_assign(rel, a.name, missing_ok=True)
                if v is None:
                    continue
                try:
                    mini.g[local] = mini.expr(v, {}, set())
                    imported_consts.setdefault(local, mini.g[local])
                except (MiniError, ModelFault):
                    pass
    if extra:
        mini.g.update(extra)
    return mini


# ----------------------------------------------------------------------
# R2.2

def cnote(cval, ints):
    return "" if cval is None else f", {' = '.join(ints)} = {cval}"


def r22(ctx, repo):
    f = repo.func(EXP, "yield_filtered_array_stacks")
    n_eval = 0
    for route, sliceable in (("array route", True),
                             ("event-wise route", False)):
        bad = None
        # (chunk size of the feature, value of the integer constants the
        # module imports: the writer's constants are small or large
        # compared with the feature's own chunk size)
        base_globals(repo, HW(), 2, set())
        ints = [k for k, v in imported_consts.items()
                if isinstance(v, int) and not isinstance(v, bool)]
        grid = [(cs, None) for cs in (1, 2, 3, 5)]
        if ints:
            grid += [(3, 2), (5, 2), (5, 3), (2, 5)]
        for cs, cval in grid:
            for n in range(0, 3 * cs + 3):
                hw = HW()
                mini = base_globals(repo, hw, cs, set())
                if cval is not None:
                    for k in ints:
                        mini.g[k] = cval
                data = Feat("image", 2 * n + 2, sliceable)
                idx = [2 * i + 1 for i in range(n)]
                for form in ("arr", "list"):
                    ind = Arr(idx, "int") if form == "arr" else list(idx)
                    n_eval += 1
                    try:
                        chunks = mini.call(f, (data, ind))
                    except ModelFault as e:
                        bad = bad or (f"{n} selected events, chunk size "
                                      f"{cs}{cnote(cval, ints)}: {e}")
                        continue
                    flat = []
                    for c in chunks:
                        evs = flatten(c)[None]
                        if not evs or len(evs) > cs:
                            bad = bad or (
                                f"{n} selected events, chunk size {cs}"
                                f"{cnote(cval, ints)}: a "
                                f"chunk holds {len(evs)} events")
                        flat += evs
                    want = [Ev("image", i) for i in idx]
                    if flat != want and bad is None:
                        gi = [e.i if isinstance(e, Ev) else e for e in flat]
                        bad = (f"{n} selected events (indices {idx}), chunk "
                               f"size {cs}{cnote(cval, ints)}: chunks "
                               f"concatenate to {gi}")
        ctx.ob("R2.2", bad is None,
               f"{route}: the chunks tile the index list for every "
               f"selection size 0..3c+2 and chunk size c in 1,2,3,5"
               if bad is None else f"{route}: {bad}",
               node=f, label=f"tiling {route}")
    ctx.stat("R2.2 generator evaluations", n_eval)


# ----------------------------------------------------------------------
# R2.1

def kinds_table(repo):
    wk = writer_kinds(repo)
    feats = dict(wk)
    feats[SCALAR_SAMPLE] = "scalar"
    feats[OTHER_SAMPLE] = "other"
    return feats


def hdf5_truncates(repo):
    """Export.hdf5 limits the selection to the shortest feature (so features
    and mask may differ in length)"""
    # (in Export.hdf5 itself or in a helper of the module it delegates to)
    repo.func(EXP, "Export.hdf5")
    for q, f in repo.all_functions(EXP):
        for n in walk(f):
            if isinstance(n, ast.Assign) and isinstance(
                    n.targets[0], ast.Subscript) and isinstance(
                    n.targets[0].slice, ast.Slice) and isinstance(
                    n.value, ast.Constant) and n.value.value is False \
                    and n.targets[0].slice.lower is not None:
                return True
    return False


def r21(ctx, repo, feats):
    f = repo.func(EXP, "store_filtered_feature")
    scalars = {k for k, v in feats.items() if v == "scalar"}
    trunc = hdf5_truncates(repo)
    n_eval = 0
    reps = {}
    for name, kind in sorted(feats.items()):
        reps.setdefault(kind, []).append(name)
    for kind, names in sorted(reps.items()):
        bad = None
        bad_short = None
        for name in names:
            for sliceable in (True, False):
                for mask in MASKS5 + [[True, True, False, True, True, True,
                                       True]]:
                    n = len(mask)
                    for short in (False, True):
                        if short and not trunc:
                            continue
                        # short: the feature has fewer events than the mask,
                        # the mask selects nothing beyond the feature
                        nfeat = n - 2 if short else n
                        m = [b and i < nfeat for i, b in enumerate(mask)]
                        hw = HW()
                        mini = base_globals(repo, hw, 2, scalars)
                        data = make_feature(name, kind, nfeat, sliceable)
                        sel = [i for i, b in enumerate(m) if b]
                        n_eval += 1
                        try:
                            mini.call(f, (), dict(rtdc_writer=hw, feat=name,
                                                  data=data,
                                                  filtarr=Arr(m, "bool")))
                            msg = compare(hw, name, kind, sel)
                        except ModelFault as e:
                            msg = f"'{name}', mask {m}: {e}"
                        if msg:
                            if short:
                                bad_short = bad_short or msg
                            else:
                                bad = bad or f"mask {m}: {msg}"
        ctx.ob("R2.1", bad is None,
               f"{kind} features ({', '.join(names)}): the writer receives "
               f"exactly the selected events, in order" if bad is None
               else f"{kind} features: {bad}",
               node=f, label=f"selection {kind}")
        if trunc:
            ctx.ob("R2.1", bad_short is None,
                   f"{kind} features: the selection also works for a mask "
                   f"longer than the feature" if bad_short is None else
                   f"{kind} features: Export.hdf5 limits the selection to "
                   f"the shortest feature, but here the selection fails when "
                   f"mask and feature differ in length – {bad_short}",
                   node=f, label=f"selection {kind} tolerates length "
                                 f"mismatch")
    ctx.stat("R2.1 evaluations", n_eval)


# ----------------------------------------------------------------------
# R2.3 / R2.5

def run_hdf5(repo, feats, fmt, mask, filtered, lengths, cs=2, logs=True,
             tables=True, features=None, skip_checks=False, path=None,
             override=False):
    scalars = {k for k, v in feats.items() if v == "scalar"}
    hw = HW()
    mini = base_globals(repo, hw, cs, scalars)
    n = len(mask)
    fd = {}
    for name, kind in feats.items():
        ln = lengths.get(name, n)
        fd[name] = make_feature(name, kind, ln, fmt == "hdf5")
    ds = DS(fd, n, fmt, mask, scalars)
    cls = repo.cls(EXP, "Export")
    me = SelfM(mini, cls, ds)
    me.hdf5(path if path is not None else PathM("out.rtdc"),
            features=features, filtered=filtered, logs=logs, tables=tables,
            basins=False, skip_checks=skip_checks, override=override)
    return hw, ds, mini


def r23(ctx, repo, feats):
    f = repo.func(EXP, "Export.hdf5")
    n_eval = 0
    results = {name: None for name in feats}
    short_bad = {"scalar": None, "other kinds": None}
    modes = set()
    scen = []
    for fmt in ("hdf5", "tdms"):
        for filtered in (True, False):
            for mask in MASKS5:
                scen.append((fmt, filtered, mask, {}))
    # truncated selections: one feature is shorter than the dataset
    stack_name = sorted(k for k, v in feats.items() if v == "stack")[0]
    for fmt in ("hdf5", "tdms"):
        for filtered in (True, False):
            for mask in (MASKS5[0], MASKS5[3]):
                scen.append((fmt, filtered, mask, {stack_name: 3}))
                scen.append((fmt, filtered, mask, {SCALAR_SAMPLE: 3}))
    for fmt, filtered, mask, lengths in scen:
        n_eval += 1
        lmin = min([len(mask)] + list(lengths.values()))
        sel = [i for i, b in enumerate(mask)
               if (b or not filtered) and i < lmin]
        tag = (f"format {fmt}, filtered={filtered}, filter {mask}"
               + (f", feature lengths {lengths}" if lengths else ""))
        short_scalar = SCALAR_SAMPLE in lengths
        try:
            hw, ds, mini = run_hdf5(repo, feats, fmt, mask, filtered, lengths)
        except ModelFault as e:
            msg = f"{tag}: {e}"
            if short_scalar:
                short_bad["scalar"] = short_bad["scalar"] or msg
            elif lengths:
                short_bad["other kinds"] = short_bad["other kinds"] or msg
            else:
                for name in feats:
                    results[name] = results[name] or msg
            continue
        modes |= set(mini.g["RTDCWriter"].opened)
        for name, kind in feats.items():
            msg = compare(hw, name, kind, sel)
            if msg:
                msg = f"{tag}: {msg}"
                if short_scalar:
                    short_bad["scalar"] = short_bad["scalar"] or msg
                elif lengths:
                    short_bad["other kinds"] = short_bad[
                        "other kinds"] or msg
                else:
                    results[name] = results[name] or msg
    for name in sorted(feats):
        bad = results[name]
        ctx.ob("R2.3", bad is None,
               f"'{name}' ({feats[name]}): exported events = selected events "
               f"for both source kinds, filter on/off and all mask classes"
               if bad is None else bad, node=f,
               label=f"export dispatch {name}")
    if hdf5_truncates(repo):
        for k in ("other kinds", "scalar"):
            bad = short_bad[k]
            ctx.ob("R2.3", bad is None,
                   f"selection limited to the shortest feature ({k} short): "
                   f"every feature exports the common events" if bad is None
                   else f"selection limited to the shortest feature: {bad}",
                   node=f, label=f"truncated export, short feature "
                                 f"({k})")
    ctx.stat("R2.3 export evaluations", n_eval)
    # duplicates / order of the feature list do not matter – with and
    # without the length checks, filtered and unfiltered
    bad = None
    for skip in (False, True):
        for filtered, sel in ((True, [0, 2, 3]), (False, [0, 1, 2, 3, 4])):
            tag = f"skip_checks={skip}, filtered={filtered}: "
            try:
                hw, ds, _ = run_hdf5(repo, feats, "hdf5", MASKS5[3],
                                     filtered, {}, skip_checks=skip,
                                     features=[SCALAR_SAMPLE, stack_name,
                                               SCALAR_SAMPLE, stack_name])
                b = compare(hw, SCALAR_SAMPLE, "scalar", sel) or compare(
                    hw, stack_name, "stack", sel)
                others = {c[0] for c in hw.calls} - {SCALAR_SAMPLE,
                                                     stack_name}
                if others:
                    b = (f"features not requested were exported: "
                         f"{sorted(others)}")
                if b:
                    bad = bad or (tag + b + " (a feature named twice in the "
                                  "request is written twice)")
            except ModelFault as e:
                bad = bad or tag + str(e)
    ctx.ob("R2.3", bad is None,
           "a feature listed twice is exported once; only requested features "
           "are exported" if bad is None else
           f"duplicate / subset feature list: {bad}", node=f,
           label="requested feature list")


def r25(ctx, repo, feats):
    f = repo.func(EXP, "Export.hdf5")
    small = {k: v for k, v in feats.items()
             if k in (SCALAR_SAMPLE,)}
    for filtered in (True, False):
        try:
            hw, ds, _ = run_hdf5(repo, small, "hdf5", MASKS5[3], filtered, {})
            err = None
        except ModelFault as e:
            hw, err = None, str(e)
        lab = "filtered" if filtered else "unfiltered"
        if err:
            ctx.ob("R2.5", False, err, node=f, label=f"metadata {lab}")
            continue
        meta = {}
        for m in hw.meta:
            for s, d in m.items():
                meta.setdefault(s, {}).update(d)
        want = {s for s in CFG_SECTIONS if s in ds.config} | {"user"}
        miss = want - set(meta)
        extra = set(meta) - want
        ok = not miss and not extra and all(
            all(meta[s].get(k) == v for k, v in ds.config[s].items())
            for s in want)
        ctx.ob("R2.5", ok,
               f"{lab}: every metadata section of the source and `user` "
               f"reach the writer, analysis sections do not" if ok else
               f"{lab}: sections missing {sorted(miss)}, unexpected "
               f"{sorted(extra)} or values changed", node=f,
               label=f"metadata {lab}")
        alias = sorted({s for m in hw.meta for s, d in m.items()
                        if s in ds.config and d is ds.config[s]}
                       | {s for s in CFG_SECTIONS[:3] + ["user"]
                          if set(ds.config[s]) != {
                              "key " + s if s != "user" else "note"}})
        ctx.ob("R2.5", not alias,
               f"{lab}: the exported metadata are copies" if not alias else
               f"{lab}: sections {alias} alias the live configuration of the "
               f"source (the new run identifier would be written into it)",
               node=f, label=f"metadata copied {lab}")
    for lg, tb in ((True, False), (False, True)):
        try:
            hw, ds, _ = run_hdf5(repo, small, "hdf5", MASKS5[0], True, {},
                                 logs=lg, tables=tb)
            err = None
        except ModelFault as e:
            hw, err = None, str(e)
        for what, flag in (("logs", lg), ("tables", tb)):
            lab = f"{what} {'requested' if flag else 'not requested'}"
            if err:
                ctx.ob("R2.5", False, err, node=f, label=lab)
                continue
            srcd = ds.logs if what == "logs" else ds.tables
            gotl = hw.logs if what == "logs" else hw.tables
            # (the export log itself is always written)
            carried = [(n, v) for (n, v) in gotl
                       if any(v is sv for sv in srcd.values())]
            if flag:
                names = [n for n, _ in carried]
                ok = len(carried) == len(srcd) and all(
                    any(n.endswith(k) and n != k and v is srcd[k]
                        for n, v in carried) for k in srcd) and len(
                    set(names)) == len(names)
                msg = (f"all {len(srcd)} {what} of the source are stored "
                       f"under the prefix" if ok else
                       f"{what} stored: {names}, source has {sorted(srcd)}")
            else:
                ok = not carried
                msg = (f"no {what} of the source are stored" if ok else
                       f"{what} stored although not requested")
            ctx.ob("R2.5", ok, msg, node=f, label=lab)


# ----------------------------------------------------------------------
# R2.4

def r24(ctx, repo):
    cls = repo.cls(EXP, "Export")
    scalars = {"deform", "area_um", "time"}
    feats = {"deform": "scalar", "area_um": "scalar", "time": "scalar",
             "image": "stack"}
    for meth in ("tsv", "fcs"):
        f = repo.func(EXP, f"Export.{meth}")
        bad = None
        bad_hdr = None
        bad_dt = None
        for filtered in (True, False):
            for mask in MASKS5:
                hw = HW()
                got = {}
                extra = {
                    "fcswrite": NS("fcswrite", write_fcs=lambda **k:
                                   got.update(k)),
                }
                mini = base_globals(repo, hw, 2, scalars, extra)
                mini.g["np"] = numpy_model(
                    savetxt=lambda fd, X, **k: got.update(data=X, kw=k))
                fd = {n: make_feature(n, k, 5, True)
                      for n, k in feats.items()}
                ds = DS(fd, 5, "hdf5", mask, scalars)
                p = PathM("out." + meth)
                me = SelfM(mini, cls, ds)
                req = ["time", "Deform" if meth == "tsv" else "deform",
                       "area_um", "time"]
                tag = f"filtered={filtered}, filter {mask}"
                try:
                    getattr(me, meth)(p, req, filtered=filtered)
                except ModelFault as e:
                    bad = bad or f"{tag}: {e}"
                    continue
                X = got.get("data")
                if not isinstance(X, Mat) or not X.transposed:
                    bad = bad or (f"{tag}: the writer did not receive an "
                                  f"(events x features) table")
                    continue
                if X.dtype not in (None, float, "float64", "longdouble"):
                    bad_dt = bad_dt or (
                        f"the table is converted to dtype {X.dtype!r} before "
                        f"it is printed: float64 and large integer features "
                        f"lose digits the %.10e format would show")
                sel = [i for i, b in enumerate(mask) if b or not filtered]
                cols = []
                for col in X.rows:
                    evs = list(col)
                    names = {e.feat for e in evs if isinstance(e, Ev)}
                    idx = [e.i if isinstance(e, Ev) else e for e in evs]
                    if idx != sel:
                        bad = bad or (f"{tag}: rows are events {idx}, "
                                      f"selected events are {sel}")
                    cols.append(sorted(names)[0] if len(names) == 1
                                else None)
                want_cols = ["area_um", "deform", "time"]
                if sel and cols != want_cols:
                    bad = bad or (f"{tag}: columns {cols}, requested "
                                  f"{want_cols}")
                # header agreement
                if meth == "tsv":
                    hdr = [s for s in p.written if isinstance(s, str)
                           and s.startswith("# ") and "\t" in s]
                    h1 = hdr[0][2:].strip().split("\t") if hdr else None
                    h2 = hdr[1][2:].strip().split("\t") if len(
                        hdr) > 1 else None
                    if h1 != want_cols or h2 != ["label " + c
                                                 for c in want_cols]:
                        bad_hdr = bad_hdr or (
                            f"header {h1} / {h2} does not name the data "
                            f"columns {want_cols}")
                else:
                    h = got.get("chn_names")
                    if h != ["label " + c for c in want_cols]:
                        bad_hdr = bad_hdr or (
                            f"channel names {h} do not name the data columns "
                            f"{want_cols}")
        ctx.ob("R2.4", bad is None,
               f"{meth}: rows are the selected events exactly when `filtered`"
               f", all events otherwise; one column per requested feature"
               if bad is None else f"{meth}: {bad}", node=f,
               label=f"{meth} selection")
        ctx.ob("R2.4", bad_hdr is None,
               f"{meth}: header and data columns agree" if bad_hdr is None
               else f"{meth}: {bad_hdr}", node=f, label=f"{meth} header")
        if meth == "tsv":
            ctx.ob("R2.4", bad_dt is None,
                   "tsv: the table keeps the precision of the features (no "
                   "narrowing dtype)" if bad_dt is None else
                   f"tsv: {bad_dt}", node=f, label="tsv precision")
    # avi
    f = repo.func(EXP, "Export.avi")
    bad = None
    for filtered in (True, False):
        for mask in MASKS5:
            frames = []
            hw = HW()
            vout = NS("vout", append_data=lambda im: frames.append(im),
                      close=lambda: None)
            mini = base_globals(repo, hw, 2, scalars, {
                "imageio": NS("imageio", get_writer=lambda **k: vout)})
            fd = {n: make_feature(n, k, 5, False) for n, k in feats.items()}
            ds = DS(fd, 5, "tdms", mask, scalars)
            me = SelfM(mini, cls, ds)
            try:
                me.avi(PathM("out.avi"), filtered=filtered)
            except ModelFault as e:
                bad = bad or str(e)
                continue
            sel = [i for i, b in enumerate(mask) if b or not filtered]
            got = [(e.feat, e.i) if isinstance(e, Ev) else e for e in frames]
            if got != [("image", i) for i in sel]:
                bad = bad or (f"filtered={filtered}, filter {mask}: frames "
                              f"{got}, selected events {sel}")
    ctx.ob("R2.4", bad is None,
           "avi: frames are the images of the selected events exactly when "
           "`filtered`" if bad is None else f"avi: {bad}", node=f,
           label="avi selection")


def r23_guard(ctx, repo):
    """the unfiltered branch stores the feature under its own name"""
    f = repo.func(EXP, "Export.hdf5")
    loops = [n for n in walk(f) if isinstance(n, ast.For) and find_calls(
        n, name="store_filtered_feature")]
    if len(loops) != 1:
        raise AnalysisError("Export.hdf5: feature loop (the `for` that calls "
                            "store_filtered_feature) not found")
    lp = loops[0]
    # the selection variable is not rebound inside the feature loop
    call = find_calls(lp, name="store_filtered_feature")[0]
    fa = kwarg(call, "filtarr", 3)
    if fa is None:
        raise AnalysisError("Export.hdf5: store_filtered_feature call has no "
                            "filtarr argument")
    sel_names = names_in(fa)
    rebound = [n for n in walk(lp) if isinstance(n, ast.Name) and isinstance(
        n.ctx, ast.Store) and n.id in sel_names]
    reread = [n for n in walk(lp) if isinstance(n, ast.Attribute)
              and n.attr == "all" and isinstance(n.value, ast.Attribute)
              and n.value.attr == "filter"]
    ok = not rebound and not reread
    ctx.ob("R2.3", ok,
           "one selection array, defined before the feature loop, is used "
           "for every feature" if ok else
           "the selection is rebound or re-read from ds.filter.all inside "
           "the feature loop (features of one file could be exported with "
           "different selections)", node=lp,
           label="one selection for all features")


# ----------------------------------------------------------------------
# R2.8 override / exists act on the final path

def r28(ctx, repo, feats):
    cls = repo.cls(EXP, "Export")
    scalars = {"deform", "area_um", "time"}
    small = {"deform": "scalar", "area_um": "scalar", "time": "scalar",
             "image": "stack"}
    for meth, suf in (("hdf5", ".rtdc"), ("tsv", ".tsv"), ("fcs", ".fcs"),
                      ("avi", ".avi")):
        f = repo.func(EXP, f"Export.{meth}")
        final = "out" + suf
        scen = [
            ("out", {final}, True, "ok"),
            (final, {final}, True, "ok"),
            ("out", {final}, False, "refuse"),
            (final, {final}, False, "refuse"),
            ("out", {"out"}, True, "ok"),
            ("out", set(), False, "ok"),
        ]
        bad = None
        for given, existing, override, want in scen:
            fs = FSM(existing)
            p = PathM(given, fs=fs)
            tag = (f"path '{given}', existing files {sorted(existing)}, "
                   f"override={override}")
            fault = None
            try:
                if meth == "hdf5":
                    run_hdf5(repo, {"deform": "scalar"}, "hdf5",
                             MASKS5[0], True, {}, path=p, override=override)
                else:
                    hw = HW()

                    def get_writer(uri=None, **k):
                        nm = str(uri)
                        fs.events.append(("open", nm, "wb",
                                          nm in fs.existing))
                        fs.existing.add(nm)
                        return NS("vout", append_data=lambda im: None,
                                  close=lambda: None)
                    mini = base_globals(repo, hw, 2, scalars, {
                        "fcswrite": NS("fcswrite", write_fcs=lambda **k:
                                       fs.events.append(
                                           ("open", str(k.get("filename")),
                                            "wb", str(k.get("filename"))
                                            in fs.existing))),
                        "imageio": NS("imageio", get_writer=get_writer)})
                    mini.g["np"] = numpy_model(savetxt=lambda *a, **k: None)
                    fd = {n: make_feature(n, k, 5, meth != "avi")
                          for n, k in small.items()}
                    ds = DS(fd, 5, "hdf5", MASKS5[0], scalars)
                    me = SelfM(mini, cls, ds)
                    if meth == "avi":
                        me.avi(p, override=override)
                    else:
                        getattr(me, meth)(p, ["deform", "time"],
                                          override=override)
            except ModelFault as e:
                fault = str(e)
            writes = [ev for ev in fs.events if ev[0] in ("open", "writer")]
            if want == "refuse":
                if fault is None or "OSError" not in fault:
                    bad = bad or (f"{tag}: the existing file '{final}' is "
                                  f"not protected (no OSError"
                                  + (f", but: {fault}" if fault else "")
                                  + f"; writes: {writes})")
                elif writes or final not in fs.existing:
                    bad = bad or (f"{tag}: the file was touched before the "
                                  f"refusal ({fs.events})")
                continue
            if fault is not None:
                bad = bad or f"{tag}: {fault}"
                continue
            targets = {ev[1] for ev in writes}
            if targets != {final}:
                bad = bad or (f"{tag}: data are written to "
                              f"{sorted(targets)}, the final path is "
                              f"'{final}'")
                continue
            first = writes[0]
            stale = first[3] and not (first[0] == "open"
                                      and "w" in first[2])
            if stale:
                bad = bad or (
                    f"{tag}: '{final}' still exists when the writer is "
                    f"opened in mode '{first[2]}': the new events are "
                    f"appended to the old file (the unlink / exists test "
                    f"acted on the path before the suffix was added)")
            if "out" in existing and "out" not in fs.existing:
                bad = bad or (f"{tag}: the unrelated file 'out' was removed "
                              f"(unlink acted on the path before the suffix "
                              f"was added)")
        ctx.ob("R2.8", bad is None,
               f"{meth}: the exists test, the removal of an existing file "
               f"and the writer all act on the final path '{final}'"
               if bad is None else f"{meth}: {bad}", node=f,
               label=f"{meth} override acts on the final path")


# ----------------------------------------------------------------------
# R2.7 lazy accessors of hierarchy children

HEV = "dclab/rtdc_dataset/fmt_hierarchy/events.py"


def lazy_memos(tree):
    """(class, method, attribute, assignment, test) for every
    ``if self.<a> is None: … self.<a> = <value>`` inside a method"""
    out = []
    for cls in [n for n in tree.body if isinstance(n, ast.ClassDef)]:
        for m in [n for n in cls.body if isinstance(n, ast.FunctionDef)]:
            for n in walk(m):
                if not isinstance(n, ast.If):
                    continue
                tested = set()
                for c in ast.walk(n.test):
                    if isinstance(c, ast.Compare) and len(c.ops) == 1 \
                            and isinstance(c.ops[0], ast.Is) and isinstance(
                            c.comparators[0], ast.Constant) \
                            and c.comparators[0].value is None \
                            and isinstance(c.left, ast.Attribute) \
                            and isinstance(c.left.value, ast.Name) \
                            and c.left.value.id == "self":
                        tested.add(c.left.attr)
                    elif isinstance(c, ast.UnaryOp) and isinstance(
                            c.op, ast.Not) and isinstance(
                            c.operand, ast.Attribute) and isinstance(
                            c.operand.value, ast.Name) \
                            and c.operand.value.id == "self":
                        tested.add(c.operand.attr)
                for st in n.body:
                    for s in walk(st):
                        if isinstance(s, ast.Assign) and len(
                                s.targets) == 1 and isinstance(
                                s.targets[0], ast.Attribute) and isinstance(
                                s.targets[0].value, ast.Name) \
                                and s.targets[0].value.id == "self" \
                                and s.targets[0].attr in tested:
                            out.append((cls, m, s.targets[0].attr, s, n))
    return out


def value_names(func, expr):
    """names the value of `expr` depends on, locals of `func` expanded"""
    defs = {}
    for n in walk(func):
        if isinstance(n, ast.Assign):
            for t in n.targets:
                for x in ast.walk(t):
                    if isinstance(x, ast.Name):
                        defs.setdefault(x.id, set()).update(
                            names_in(n.value))
        elif isinstance(n, ast.AugAssign) and isinstance(
                n.target, ast.Name):
            defs.setdefault(n.target.id, set()).update(names_in(n.value))
        elif isinstance(n, (ast.For,)):
            for x in ast.walk(n.target):
                if isinstance(x, ast.Name):
                    defs.setdefault(x.id, set()).update(names_in(n.iter))
    seen = set()
    todo = list(names_in(expr))
    while todo:
        x = todo.pop()
        if x in seen:
            continue
        seen.add(x)
        todo += list(defs.get(x, ()))
    return seen


def r27(ctx, repo):
    memos = lazy_memos(repo.tree(HEV))
    if not memos:
        raise AnalysisError(f"{HEV}: no lazily filled accessor "
                            f"(`if self._x is None: self._x = …`) found")
    for cls, m, attr, st, test in memos:
        a = m.args
        params = [p.arg for p in (a.posonlyargs + a.args)[1:]
                  + a.kwonlyargs]
        if a.vararg:
            params.append(a.vararg.arg)
        if a.kwarg:
            params.append(a.kwarg.arg)
        used = sorted(value_names(m, st.value) & set(params))
        ctx.ob("R2.7", not used,
               f"the value remembered in `self.{attr}` does not depend on "
               f"the arguments of this call" if not used else
               f"`self.{attr}` is filled once but its value depends on the "
               f"per-call argument(s) {used}: the first caller's "
               f"{'/'.join(used)} sticks, later callers (e.g. the exporter) "
               f"get values converted for someone else", node=st,
               label=f"lazy memo {attr} independent of call arguments")
    if ctx.tier == "thorough":
        other = []
        for rel in repo.files("dclab/rtdc_dataset/"):
            if rel == HEV:
                continue
            for cls, m, attr, st, test in lazy_memos(repo.tree(rel)):
                a = m.args
                params = [p.arg for p in (a.posonlyargs + a.args)[1:]
                          + a.kwonlyargs] + [
                    x.arg for x in (a.vararg, a.kwarg) if x]
                used = sorted(value_names(m, st.value) & set(params))
                if used:
                    other.append(f"{rel}::{cls.name}.{m.name}: self.{attr} "
                                 f"depends on {used}")
        ctx.note("lazy memos depending on call arguments outside the "
                 "anchored hierarchy module (not judged): "
                 + ("; ".join(other) or "none"))


def run(ctx):
    repo = ctx.repo
    ctx.rule("R2.7", "lazily filled feature accessors of hierarchy children "
             "remember a value that does not depend on per-call arguments",
             minimum=1)
    ctx.rule("R2.8", "export: exists test, removal under override and the "
             "writer act on the final (suffix-normalised) path", minimum=4)
    ctx.rule("R2.1", "store_filtered_feature stores exactly the selected "
             "events per feature kind, also for a mask longer than the "
             "feature", minimum=10)
    ctx.rule("R2.2", "yield_filtered_array_stacks tiles the index list "
             "(both routes, remainder included)", minimum=2)
    ctx.rule("R2.3", "Export.hdf5: exported events = selection per writer "
             "feature kind, fast path only without a partial selection, one "
             "selection for all features", minimum=14)
    ctx.rule("R2.4", "tsv / fcs / avi: selected events exactly when "
             "`filtered`; header and columns agree; no narrowing of "
             "the text table", minimum=6)
    ctx.rule("R2.5", "metadata sections, user section, logs and tables are "
             "carried over as requested", minimum=8)
    feats = kinds_table(repo)
    ctx.stat("writer feature kinds", feats)
    r22(ctx, repo)
    r21(ctx, repo, feats)
    r23(ctx, repo, feats)
    r23_guard(ctx, repo)
    r25(ctx, repo, feats)
    r24(ctx, repo)
    r27(ctx, repo)
    r28(ctx, repo, feats)


def _re(pattern, repl):
    """regex edit (tolerates both the present and the repaired form of a
    line); stale when nothing changes"""
    import re

    def edit(src):
        return re.sub(pattern, repl, src, count=1)
    return edit


MUTANTS = [
    ("array route: remainder dropped", EXP,
     ("        if stop < len(indices):\n"
      "            yield data[indices[stop:]]\n", ""), "R2.2"),
    ("array route: stop not initialised", EXP,
     ("        indices = np.array(indices)\n        stop = 0\n",
      "        indices = np.array(indices)\n"), "R2.2"),
    ("array route: chunk start off by one", EXP,
     ("            start = chunk_size * kk\n",
      "            start = chunk_size * kk + 1\n"), "R2.2"),
    ("array route: empty remainder yielded", EXP,
     ("        if stop < len(indices):", "        if stop <= len(indices):"),
     "R2.2"),
    ("array route: data indexed by position", EXP,
     ("            yield data[indices[start:stop]]",
      "            yield data[start:stop]"), "R2.2"),
    ("event-wise route: flush test off by one", EXP,
     ("            if (jj + 1) % chunk_size == 0:",
      "            if jj % chunk_size == 0:"), "R2.2"),
    ("event-wise route: remainder one too long", EXP,
     ("            yield chunk[:jj]", "            yield chunk[:jj + 1]"),
     "R2.2"),
    ("event-wise route: remainder dropped", EXP,
     ("        # yield remainder\n        if jj:\n"
      "            yield chunk[:jj]\n", ""), "R2.2"),
    ("event-wise route: counter not reset", EXP,
     ("                jj = 0\n                yield chunk\n",
      "                yield chunk\n"), "R2.2"),
    ("event-wise route: position instead of index", EXP,
     ("            chunk[jj] = data[ii]", "            chunk[jj] = data[jj]"),
     "R2.2"),
    ("filtered store: contour by position", EXP,
     ("        for ii in indices:\n"
      "            hw.store_feature(\"contour\", data[ii])",
      "        for ii in range(len(indices)):\n"
      "            hw.store_feature(\"contour\", data[ii])"), "R2.1"),
    ("filtered store: scalar unfiltered", EXP,
     _re(r"hw\.store_feature\(feat, data\[(filtarr|indices)\]\)",
         "hw.store_feature(feat, data)"), "R2.1"),
    ("filtered store: whole image stack per chunk", EXP,
     ("            hw.store_feature(feat, imstack)",
      "            hw.store_feature(feat, data)"), "R2.1"),
    ("filtered store: trace branch lost", EXP,
     ('    elif feat == "trace":\n        # assemble filtered trace stacks',
      '    elif feat == "traces":\n        # assemble filtered trace stacks'),
     "R2.1"),
    ("filtered store: contour branch lost", EXP,
     ('    if feat == "contour":\n        for ii in indices:',
      '    if feat == "contours":\n        for ii in indices:'), "R2.1"),
    ("filtered store: inverted selection", EXP,
     ("    indices = np.where(filtarr)[0]\n    if indices.size == 0:",
      "    indices = np.where(~filtarr)[0]\n    if indices.size == 0:"),
     "R2.1"),
    ("filtered store: trace stored under the key of another trace", EXP,
     ('                hw.store_feature("trace", {tr: trstack})',
      '                hw.store_feature("trace", '
      '{list(data.keys())[0]: trstack})'), "R2.1"),
    ("hdf5: fast path under a partial filter", EXP,
     ('(np.all(filter_arr) and ds.format == "hdf5")',
      '(np.any(filter_arr) and ds.format == "hdf5")'), "R2.3"),
    ("hdf5: filter re-read per feature", EXP,
     ("                                           filtarr=filter_arr)\n\n"
      "            if basins:",
      "                                           filtarr=ds.filter.all)\n\n"
      "            if basins:"), "R2.3"),
    ("hdf5: truncation at the longest feature", EXP,
     ("                filter_arr[l_min:] = False",
      "                filter_arr[l_max:] = False"), "R2.3"),
    ("hdf5: read-only filter truncated in place", EXP,
     ("                    filter_arr = np.copy(filter_arr)\n",
      "                    pass\n"), "R2.3"),
    ("hdf5: filtered flag inverted", EXP,
     ("        if filtered:\n            filter_arr = ds.filter.all",
      "        if not filtered:\n            filter_arr = ds.filter.all"),
     "R2.3"),
    ("hdf5: duplicate features exported twice", EXP,
     ("        features = sorted(set(features))\n"
      "        if not skip_checks and features:",
      "        features = sorted(features)\n"
      "        if not skip_checks and features:"), "R2.3"),
    ("hdf5: writer opened in replace mode", EXP,
     ('                        mode="append",\n'
      '                        compression_kwargs=compression_kwargs) as hw:',
      '                        mode="replace",\n'
      '                        compression_kwargs=compression_kwargs) as hw:'),
     "R2.3"),
    ("hdf5: data of another feature", EXP,
     ("                                           data=ds[feat],\n"
      "                                           filtarr=filter_arr)",
      "                                           data=ds[features[0]],\n"
      "                                           filtarr=filter_arr)"),
     "R2.3"),
    ("tsv: filtered flag inverted", EXP,
     ("            if filtered:\n"
      "                data = [ds[c][ds.filter.all] for c in features]\n"
      "            else:\n                data = [ds[c] for c in features]\n\n"
      "            np.savetxt",
      "            if not filtered:\n"
      "                data = [ds[c][ds.filter.all] for c in features]\n"
      "            else:\n                data = [ds[c] for c in features]\n\n"
      "            np.savetxt"), "R2.4"),
    ("fcs: filter ignored", EXP,
     ("        if filtered:\n"
      "            data = [ds[c][ds.filter.all] for c in features]\n"
      "        else:\n            data = [ds[c] for c in features]\n\n"
      "        data = np.array(data).transpose()",
      "        if filtered:\n"
      "            data = [ds[c] for c in features]\n"
      "        else:\n            data = [ds[c] for c in features]\n\n"
      "        data = np.array(data).transpose()"), "R2.4"),
    ("fcs: duplicates kept (columns differ from request)", EXP,
     ("        # Check that features are valid\n"
      "        features = sorted(set(features))\n",
      "        # Check that features are valid\n"
      "        features = sorted(features)\n"), "R2.4"),
    ("tsv: header columns in another order than the data", EXP,
     ('            header1 = "\\t".join([c for c in features])',
      '            header1 = "\\t".join([c for c in reversed(features)])'),
     "R2.4"),
    ("fcs: channel names in another order than the data", EXP,
     ("        chn_names = [dfn.get_feature_label(c, rtdc_ds=ds) "
      "for c in features]",
      "        chn_names = [dfn.get_feature_label(c, rtdc_ds=ds)\n"
      "                     for c in sorted(features, reverse=True)]"),
     "R2.4"),
    ("tsv: requested names not lower-cased", EXP,
     ("        features = [c.lower() for c in features]\n", ""), "R2.4"),
    ("avi: unfiltered export skips frames", EXP,
     ("                if filtered and not ds.filter.all[evid]:",
      "                if not ds.filter.all[evid]:"), "R2.4"),
    ("avi: stops at the first excluded frame", EXP,
     ("                if filtered and not ds.filter.all[evid]:\n"
      "                    continue",
      "                if filtered and not ds.filter.all[evid]:\n"
      "                    break"), "R2.4"),
    ("hdf5: user section dropped", EXP,
     ('        if "user" in ds.config:\n'
      '            meta["user"] = ds.config["user"].copy()\n', ""), "R2.5"),
    ("hdf5: metadata alias the source", EXP,
     ("                meta[sec] = ds.config[sec].copy()",
      "                meta[sec] = ds.config[sec]"), "R2.5"),
    ("hdf5: analysis sections exported", EXP,
     ("        for sec in dfn.CFG_METADATA:\n            if sec in ds.config:",
      "        for sec in ds.config:\n            if sec in ds.config:"),
     "R2.5"),
    ("hdf5: logs collide under one name", EXP,
     ('                    hw.store_log(f"{meta_prefix}{log}",',
      '                    hw.store_log(f"{meta_prefix}",'), "R2.5"),
    ("hdf5: tables follow the logs flag", EXP,
     ("            if tables:\n                # write tables",
      "            if logs:\n                # write tables"), "R2.5"),
]

TWINS = [
    ("array route with a stepped range", EXP,
     ("        stop = 0\n"
      "        for kk in range(len(indices) // chunk_size):\n"
      "            start = chunk_size * kk\n"
      "            stop = chunk_size * (kk + 1)\n"
      "            yield data[indices[start:stop]]\n"
      "        if stop < len(indices):\n"
      "            yield data[indices[stop:]]\n",
      "        for start in range(0, len(indices), chunk_size):\n"
      "            yield data[indices[start:start + chunk_size]]\n")),
    ("event-wise flush test written as equality", EXP,
     ("            if (jj + 1) % chunk_size == 0:",
      "            if jj + 1 == chunk_size:")),
    ("scalar selection through the index array", EXP,
     _re(r"hw\.store_feature\(feat, data\[(filtarr|indices)\]\)",
         "sel_idx = np.where(filtarr)[0]\n"
         "        hw.store_feature(feat, data[sel_idx])")),
    ("hdf5: selection variable renamed", EXP,
     lambda s: s.replace("filter_arr", "sel_mask")),
    ("hdf5: fast-path test reordered", EXP,
     ('(np.all(filter_arr) and ds.format == "hdf5")',
      '(ds.format == "hdf5" and np.all(filter_arr))')),
    ("tsv: mask bound to a local first", EXP,
     ("            if filtered:\n"
      "                data = [ds[c][ds.filter.all] for c in features]\n"
      "            else:\n                data = [ds[c] for c in features]\n\n"
      "            np.savetxt",
      "            if filtered:\n"
      "                sel = ds.filter.all\n"
      "                data = [ds[c][sel] for c in features]\n"
      "            else:\n                data = [ds[c] for c in features]\n\n"
      "            np.savetxt")),
    ("filtered store: early return per kind", EXP,
     ('    if feat == "contour":\n        for ii in indices:\n'
      '            hw.store_feature("contour", data[ii])\n'
      '    elif feat in ["mask", "image", "image_bg"]:',
      '    if feat == "contour":\n        for ii in indices:\n'
      '            hw.store_feature("contour", data[ii])\n'
      '        return\n'
      '    if feat in ["mask", "image", "image_bg"]:')),
    ("avi: positive form of the frame test", EXP,
     ("                if filtered and not ds.filter.all[evid]:\n"
      "                    continue\n",
      "                if filtered:\n"
      "                    if not ds.filter.all[evid]:\n"
      "                        continue\n")),
]

# mutant that re-introduces the repaired defect F02 (applies to the fixed tree)
MUTANTS = list(MUTANTS) + [
    ("scalar branch selects with the boolean mask (F02 returns)",
     "dclab/rtdc_dataset/export.py",
     ("hw.store_feature(feat, data[indices])",
      "hw.store_feature(feat, data[filtarr])"), "R2."),
]


TWINS = list(TWINS) + [
    ("writer: image kinds in module constants, mask flag in a local", WRI,
     [("class RTDCWriter:\n",
       'FEATURES_IMAGE_GRAYSCALE = ["image", "image_bg", "mask", "qpi_oah",\n'
       '                            "qpi_oah_bg"]\n'
       'FEATURES_IMAGE_FLOAT32 = ("qpi_amp", "qpi_pha")\n\n\n'
       "class RTDCWriter:\n"),
      ('        elif feat in ["image", "image_bg", "mask", "qpi_oah", '
       '"qpi_oah_bg"]:\n',
       "        elif feat in FEATURES_IMAGE_GRAYSCALE:\n"
       '            is_mask = feat == "mask"\n'),
      ('is_boolean=(feat == "mask"))', "is_boolean=is_mask)"),
      ('        elif feat in ["qpi_amp", "qpi_pha"]:',
       "        elif feat in FEATURES_IMAGE_FLOAT32:")]),
    ("writer: contour test through a local flag", WRI,
     [('        elif feat == "contour":\n',
       "        elif is_ragged:\n"),
      ('        if feat == "index":\n',
       '        is_ragged = feat == "contour"\n'
       '        if feat == "index":\n')]),
    ("export: chunk-less module constant used in the filtered store", EXP,
     [("def store_filtered_feature(rtdc_writer, feat, data, filtarr):",
       'IMAGE_LIKE = ["mask", "image", "image_bg"]\n\n\n'
       "def store_filtered_feature(rtdc_writer, feat, data, filtarr):"),
      ('    elif feat in ["mask", "image", "image_bg"]:',
       "    elif feat in IMAGE_LIKE:")]),
]


META_LOOP = ("        # only cfg metadata (no analysis metadata)\n"
             "        for sec in dfn.CFG_METADATA:\n"
             "            if sec in ds.config:\n"
             "                meta[sec] = ds.config[sec].copy()\n"
             "        # add user-defined metadata\n"
             '        if "user" in ds.config:\n'
             '            meta["user"] = ds.config["user"].copy()\n')
CHILD_MEMO = "            self._array = hparent[self.feat][filt_arr]\n"

MUTANTS = list(MUTANTS) + [
    ("hdf5: one loop over all sections without copying (seeded)", EXP,
     (META_LOOP,
      '        for sec in list(dfn.CFG_METADATA) + ["user"]:\n'
      "            if sec in ds.config:\n"
      "                meta[sec] = ds.config[sec]\n"), "R2.5"),
    ("child scalar: memo converted with the first caller's dtype (seeded)",
     HEV,
     (CHILD_MEMO,
      "            self._array = np.asarray(hparent[self.feat][filt_arr],\n"
      "                                     dtype=dtype, *args, **kwargs)\n"),
     "R2.7"),
    ("child scalar: memo dtype through a local", HEV,
     (CHILD_MEMO,
      "            arr = np.asarray(hparent[self.feat][filt_arr])\n"
      "            if dtype is not None:\n"
      "                arr = arr.astype(dtype)\n"
      "            self._array = arr\n"), "R2.7"),
    ("tsv: table narrowed to float32 (seeded)", EXP,
     ("                       np.array(data).transpose(),\n"
      '                       fmt=str("%.10e"),',
      "                       np.array(data, dtype=np.float32).transpose(),\n"
      '                       fmt=str("%.10e"),'), "R2.4"),
]

TWINS = list(TWINS) + [
    ("hdf5: one loop over all sections, copying", EXP,
     (META_LOOP,
      '        for sec in list(dfn.CFG_METADATA) + ["user"]:\n'
      "            if sec in ds.config:\n"
      "                meta[sec] = ds.config[sec].copy()\n")),
    ("child scalar: plain array remembered, converted per call", HEV,
     (CHILD_MEMO,
      "            arr = hparent[self.feat][filt_arr]\n"
      "            self._array = np.asarray(arr)\n")),
    ("tsv: table explicitly float64", EXP,
     ("                       np.array(data).transpose(),\n"
      '                       fmt=str("%.10e"),',
      "                       np.array(data, dtype=np.float64).transpose(),\n"
      '                       fmt=str("%.10e"),')),
]


_HDF5_EXISTS = ('        if not override and path.exists():\n'
                '            raise OSError("File already exists: {}\\n".'
                'format(path)\n'
                '                          + "Please use the '
                '`override=True` option.")\n'
                '        elif path.exists():\n'
                '            path.unlink()\n')
_TSV_SUFFIX = ('        # Make sure that path ends with .tsv\n'
               '        if path.suffix != ".tsv":\n'
               '            path = path.with_name(path.name + ".tsv")\n')
_TSV_CHECK = ('        # Check if file already exist\n'
              '        if not override and path.exists():\n'
              '            raise OSError("File already exists: {}\\n".'
              'format(\n'
              '                str(path).encode("ascii", "ignore")) +\n'
              '                "Please use the `override=True` option.")\n')

MUTANTS = list(MUTANTS) + [
    ("hdf5: existing file removed before the suffix is added (seeded)", EXP,
     [("        path = pathlib.Path(path)\n"
       "        # Make sure that path ends with .rtdc\n",
       "        path = pathlib.Path(path)\n"
       "        if override and path.exists():\n"
       "            path.unlink()\n"
       "        # Make sure that path ends with .rtdc\n"),
      ("        elif path.exists():\n            path.unlink()\n\n"
       "        # make sure the parent directory exists", "\n"
       "        # make sure the parent directory exists")], "R2.8"),
    ("hdf5: existing file kept under override (appended to)", EXP,
     ("        elif path.exists():\n            path.unlink()\n\n"
      "        # make sure the parent directory exists", "\n"
      "        # make sure the parent directory exists"), "R2.8"),
    ("tsv: exists test before the suffix is added", EXP,
     (_TSV_SUFFIX + _TSV_CHECK, _TSV_CHECK + _TSV_SUFFIX, 0), "R2.8"),
    ("hdf5: override flag inverted in the exists test", EXP,
     ("        if not override and path.exists():\n"
      '            raise OSError("File already exists: {}\\n".format(path)',
      "        if override and path.exists():\n"
      '            raise OSError("File already exists: {}\\n".format(path)'),
     "R2.8"),
]

TWINS = list(TWINS) + [
    ("hdf5: exists test nested", EXP,
     (_HDF5_EXISTS,
      '        if path.exists():\n'
      '            if not override:\n'
      '                raise OSError("File already exists: {}".format(path))\n'
      '            path.unlink()\n')),
]


TWINS = list(TWINS) + [
    ("tsv: header written with writelines and inlined joins", EXP,
     [("            cfg = self.rtdc_ds.config.as_dict()\n"
       "            for sec in sorted(cfg.keys()):\n"
       "                for key in sorted(cfg[sec].keys()):\n"
       '                    fd.write(f"# dc:{sec}:{key} = '
       '{cfg[sec][key]}\\n")\n',
       "            cfg = ds.config.as_dict()\n"
       "            for sec in sorted(cfg):\n"
       "                section = cfg[sec]\n"
       '                fd.writelines(f"# dc:{sec}:{key} = '
       '{section[key]}\\n"\n'
       "                              for key in sorted(section))\n"),
      ('            header1 = "\\t".join([c for c in features])\n'
       '            fd.write("# "+header1+"\\n")\n',
       '            fd.write("# " + "\\t".join(features) + "\\n")\n'),
      ('            header2 = "\\t".join(labels)\n'
       '            fd.write("# "+header2+"\\n")\n',
       '            fd.write("# " + "\\t".join(labels) + "\\n")\n')]),
]


_ARRAY_ROUTE = ("        indices = np.array(indices)\n"
                "        stop = 0\n"
                "        for kk in range(len(indices) // chunk_size):\n"
                "            start = chunk_size * kk\n"
                "            stop = chunk_size * (kk + 1)\n"
                "            yield data[indices[start:stop]]\n"
                "        if stop < len(indices):\n"
                "            yield data[indices[stop:]]\n")

TWINS = list(TWINS) + [
    ("array route in a private generator, delegated with `yield from`", EXP,
     [(_ARRAY_ROUTE,
       "        yield from _yield_stacks_sliced(data, indices, chunk_size)\n"),
      ("def store_filtered_feature(rtdc_writer, feat, data, filtarr):",
       "def _yield_stacks_sliced(data, indices, chunk_size):\n"
       + _ARRAY_ROUTE.replace("\n        ", "\n    ").replace(
           "        indices = np.array", "    indices = np.array", 1)
       + "\n\ndef store_filtered_feature(rtdc_writer, feat, data, "
         "filtarr):")]),
]

MUTANTS = list(MUTANTS) + [
    ("delegated array route drops the remainder", EXP,
     [(_ARRAY_ROUTE,
       "        yield from _yield_stacks_sliced(data, indices, chunk_size)\n"),
      ("def store_filtered_feature(rtdc_writer, feat, data, filtarr):",
       "def _yield_stacks_sliced(data, indices, chunk_size):\n"
       "    indices = np.array(indices)\n"
       "    for kk in range(len(indices) // chunk_size):\n"
       "        start = chunk_size * kk\n"
       "        yield data[indices[start:start + chunk_size]]\n"
       "\n\ndef store_filtered_feature(rtdc_writer, feat, data, "
       "filtarr):")], "R2.2"),
]


TWINS = list(TWINS) + [
    ("tsv: first invalid feature found with next(), f-string messages", EXP,
     [("        # Check that features exist\n"
       "        for c in features:\n"
       "            if c not in ds.features_scalar:\n"
       '                raise ValueError("Invalid feature name {}".format(c))'
       "\n",
       "        # Check that features exist\n"
       "        invalid = next(\n"
       "            (c for c in features if c not in ds.features_scalar), "
       "None)\n"
       "        if invalid is not None:\n"
       '            raise ValueError(f"Invalid feature name {invalid}")\n')]),
]

MUTANTS = list(MUTANTS) + [
    ("tsv: next()-based feature check accepts unknown features", EXP,
     [("        # Check that features exist\n"
       "        for c in features:\n"
       "            if c not in ds.features_scalar:\n"
       '                raise ValueError("Invalid feature name {}".format(c))'
       "\n",
       "        # Check that features exist\n"
       "        invalid = next(\n"
       "            (c for c in features if c in ds.features_scalar), "
       "None)\n"
       "        if invalid is None:\n"
       '            raise ValueError(f"Invalid feature name {invalid}")\n'),
      ("        features = [c.lower() for c in features]\n", "")], "R2.4"),
]


def _limit_helper_twin(src):
    """the block that limits the selection to the shortest feature moved
    verbatim into a module-level helper; Export.hdf5 delegates"""
    start = src.index("            # check that all features have same length")
    end = src.index("                    LimitingExportSizeWarning)\n",
                    start) + len("                    "
                                 "LimitingExportSizeWarning)\n")
    block = src[start:end]
    body = "\n".join(line[8:] if line.startswith("        ") else line
                     for line in block.split("\n"))
    helper = ("def _limit_filter_to_common_length(ds, features, "
              "filter_arr):\n" + body + "    return filter_arr\n\n\n")
    new = (src[:start]
           + "            filter_arr = _limit_filter_to_common_length(\n"
             "                ds, features, filter_arr)\n" + src[end:])
    return new.replace("def yield_filtered_array_stacks(data, indices):",
                       helper + "def yield_filtered_array_stacks(data, "
                       "indices):")


TWINS = list(TWINS) + [
    ("hdf5: limiting block in a module-level helper", EXP,
     _limit_helper_twin),
]

MUTANTS = list(MUTANTS) + [
    ("hdf5: duplicates removed only when the lengths are checked (seeded)",
     EXP,
     ("        features = sorted(set(features))\n"
      "        if not skip_checks and features:\n",
      "        if not skip_checks and features:\n"
      "            features = sorted(set(features))\n"), "R2.3"),
    ("hdf5: limiting branch off by one", EXP,
     ("                filter_arr[l_min:] = False",
      "                filter_arr[l_min - 1:] = False"), "R2.3"),
]


def _dispatch_in_helper(src):
    """RTDCWriter.store_feature: the kind dispatch moved into a private
    method the public one delegates to"""
    start = src.index('        if feat == "index":\n            # By design')
    end = src.index("    def store_log(self, name, lines):")
    body = src[start:end]
    helper = ("    def _write_feature_data(self, events, feat, data, dtype, "
              "shape):\n" + body)
    call = ("        self._write_feature_data(events=events, feat=feat, "
            "data=data,\n"
            "                                 dtype=dtype, shape=shape)\n\n")
    return src[:start] + call + helper + src[end:]


TWINS = list(TWINS) + [
    ("writer: kind dispatch in a private method", WRI, _dispatch_in_helper),
]


MUTANTS = list(MUTANTS) + [
    ("chunk size capped by the writer constant at one site only (seeded)",
     EXP,
     [("from .writer import RTDCWriter\n",
       "from .writer import CHUNK_SIZE, RTDCWriter\n"),
      ("    chunk_size = chunk_shape[0]\n",
       "    chunk_size = min(chunk_shape[0], CHUNK_SIZE)\n")], "R2.2"),
]

TWINS = list(TWINS) + [
    ("chunk size capped consistently (buffer as well)", EXP,
     [("from .writer import RTDCWriter\n",
       "from .writer import CHUNK_SIZE, RTDCWriter\n"),
      ("    chunk_size = chunk_shape[0]\n",
       "    chunk_size = min(chunk_shape[0], CHUNK_SIZE)\n"
       "    chunk_shape = (chunk_size,) + tuple(chunk_shape[1:])\n")]),
]

