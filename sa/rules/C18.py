"""C18 – contour-, image- and fluorescence-derived features obey their
definitions (narrow claim: most of this property is numerical and NOT decided).

R18.1 sibling idiom: the optional per-event offset ``bg_off`` (scalar or array)
      is tested for presence with ``is None`` / ``is not None`` in every
      function that takes it – never by truth value or ``== None``.
R18.2 background-corrected brightness: the image is cast to a signed type
      before the background is subtracted; every statistic is taken over
      ``imgi[mski]`` of the same event; the offset shifts the location
      statistics (mean, percentiles) and not the deviation; percentiles 10/90
      land in this order.
R18.3 ``cont_moments_cv``: the 64-bit cast dominates every use of the contour
      coordinates (all products are formed from 64-bit values).
R18.4 volume: the cone terms equal the docstring's R² + R·r + r² (exact
      polynomial identity), the factor is π/3·dz, the sum is scaled by
      ``point_scale³``; ``get_volume`` passes the pixel size as scale, divides
      the centroid by it, pairs x with pos_x / y with pos_y and averages the
      two halves.
R18.5 crosstalk: with the spill-over defined in the docstring (c_ij = fl_j /
      fl_i, unit diagonal) ``correct_crosstalk`` returns exactly the unspilled
      signal of the requested channel – rational-function identity over six
      symbolic coefficients; negative coefficients are refused.
R18.6 ``get_volume``: the radial and the axial coordinate handed to each
      ``vol_revolve`` call come from the same (possibly re-oriented) pair.
R18.7 axis-swap symmetry of the contour moments: the polynomial of a_qp is
      the x↔y image of a_pq (sign from the orientation), scaled by the same
      constant; the central moments are defined symmetrically.
R18.10 event-wise accessors (``__getitem__``) of the fmt_tdms columns: an
      array that the accessor fills in place and returns is allocated in that
      call, never an instance attribute / module-level buffer (or a view of
      one) that the next call overwrites.
R18.11 every ``parse_version(x) <op> parse_version("X")`` of feat_defect.py
      is evaluated (PEP 440 ordering model) on release, post, local, dev and
      pre-release strings around X: the verdict moves only at a final release
      (builds between two releases get the verdict of the earlier release).
"""
from __future__ import annotations

import ast
import itertools
import re
from fractions import Fraction

from ..absval import Poly, Rat, eval_pred, ratfun
from ..core import (AnalysisError, call_name, const_str, find_calls, kwarg,
                    last_attr, names_in, short, stmts_of, txt, walk)
from .. import lib_C04 as L
from ..normalize import expand_locals, inline_helpers

ASSUMPTIONS = [
    "NOT decided: contour <-> mask round trip, translation / rotation "
    "invariance, convergence of the volume, floating point error of the "
    "matrix inversion, marching squares (_find_contours_cy.pyx), "
    "remove_duplicates, the convex hull.",
    "R18.5 decides the algebra over the rationals with non-negative symbolic "
    "coefficients (np.linalg.inv modelled as the exact inverse).",
    "R18.7 compares polynomials up to the sign that the reversed orientation "
    "of the swapped contour introduces.",
]

BRIGHT = "dclab/features/bright.py"
BC = "dclab/features/bright_bc.py"
PERC = "dclab/features/bright_perc.py"
INERT = "dclab/features/inert_ratio.py"
VOL = "dclab/features/volume.py"
CT = "dclab/features/fl_crosstalk.py"

SIGNED = {"int", "np.int16", "np.int32", "np.int64", "np.intp", "float",
          "np.float32", "np.float64", "'int64'", "'int32'", "'float64'",
          "np.int_", "np.longlong"}


# ----------------------------------------------------------------------
# lazy polynomial value of the locals of a function (single-assignment
# locals and module constants are substituted to a fixpoint, so renaming,
# splitting into intermediates and reordering independent statements do not
# change what a rule compares)

class Fold:
    def __init__(self, repo, rel, func, leaf=None, multi=None, stop=()):
        self.repo, self.rel, self.func = repo, rel, func
        self.leaf, self.multi, self.stop = leaf, multi, set(stop)
        self.defs, self.augs, self.other = {}, {}, set()
        self.memo, self.busy = {}, set()
        for n in walk(func):
            if isinstance(n, ast.Assign):
                for t in n.targets:
                    if isinstance(t, ast.Name) and len(n.targets) == 1:
                        self.defs.setdefault(t.id, []).append(n)
                    else:
                        for b in _bound(t):
                            if not isinstance(t, (ast.Subscript,
                                                  ast.Attribute)):
                                self.other.add(b)
            elif isinstance(n, ast.AugAssign):
                if isinstance(n.target, ast.Name):
                    self.augs.setdefault(n.target.id, []).append(n)
            elif isinstance(n, (ast.For, ast.comprehension)):
                self.other |= set(_bound(n.target))
            elif isinstance(n, ast.With):
                for it in n.items:
                    if it.optional_vars is not None:
                        self.other |= set(_bound(it.optional_vars))
        a = func.args
        self.params = {x.arg for x in a.args + a.kwonlyargs}

    def value(self, name):
        if name in self.memo:
            return self.memo[name]
        if name in self.busy:
            raise AnalysisError(f"{self.func.name}: cyclic definition of "
                                f"`{name}`")
        self.busy.add(name)
        try:
            defs = self.defs.get(name, [])
            augs = self.augs.get(name, [])
            if len(defs) == 1 and not augs and name not in self.other \
                    and name not in self.params:
                r = self.rat(defs[0].value)
            elif self.multi is not None:
                r = self.multi(self, name, defs, augs)
            else:
                r = None
            if r is None:
                r = Rat(Poly.sym(name))     # opaque (re-assigned) value
            self.memo[name] = r
            return r
        finally:
            self.busy.discard(name)

    def res(self, e):
        if self.leaf is not None:
            r = self.leaf(self, e)
            if r is not None:
                return r
        if isinstance(e, ast.Name):
            if e.id in self.stop:
                return e.id
            if e.id in self.defs or e.id in self.augs:
                return self.value(e.id)
            if e.id in self.params or e.id in self.other:
                return e.id
            c = self.repo.module_assign(self.rel, e.id, missing_ok=True)
            if isinstance(c, ast.Constant) and isinstance(
                    c.value, (int, float)) and not isinstance(c.value, bool):
                return ratfun(c, lambda x: None)
            if isinstance(c, (ast.BinOp, ast.UnaryOp)):
                return ratfun(c, self.res)
            return e.id
        return None

    def rat(self, e):
        return ratfun(e, self.res)

    def try_rat(self, e):
        try:
            return self.rat(e)
        except AnalysisError:
            return None


def _symbols(r):
    out = set()
    for p in (r.n, r.d):
        for mono in p.t:
            out |= {s_ for s_, _e in mono}
    return out


class ImportAwareRepo:
    """repo view in which a private helper imported from a sibling module
    (``from .mod import _helper``) is found like a helper of the file"""

    def __init__(self, repo):
        self._repo = repo

    def __getattr__(self, name):
        return getattr(self._repo, name)

    def func(self, rel, qual, missing_ok=False):
        f = self._repo.func(rel, qual, missing_ok=True)
        if f is not None or "." in qual:
            if f is None and not missing_ok:
                return self._repo.func(rel, qual)
            return f
        for st in self._repo.tree(rel).body:
            if isinstance(st, ast.ImportFrom) and st.level == 1 and st.module:
                for a in st.names:
                    if (a.asname or a.name) == qual:
                        other = rel.rsplit("/", 1)[0] + "/" \
                            + st.module.replace(".", "/") + ".py"
                        if self._repo.exists(other):
                            return self._repo.func(other, a.name,
                                                   missing_ok=missing_ok)
        if missing_ok:
            return None
        return self._repo.func(rel, qual)


def normalised(repo, rel, qual):
    """the function with extracted private helpers inlined"""
    return inline_helpers(ImportAwareRepo(repo), rel, repo.func(rel, qual))


# ----------------------------------------------------------------------
# R18.1

def truth_uses(fn, name):
    """[(node, kind)] where `name` is used for its truth value or compared
    with None by value"""
    out = []

    def is_name(e):
        return isinstance(e, ast.Name) and e.id == name

    def truthy(e):
        if is_name(e):
            out.append((e, f"truth value of `{name}`"))
        elif isinstance(e, ast.UnaryOp) and isinstance(e.op, ast.Not):
            truthy(e.operand)
        elif isinstance(e, ast.BoolOp):
            for v in e.values:
                truthy(v)
    for n in walk(fn):
        if isinstance(n, (ast.If, ast.While, ast.IfExp)):
            truthy(n.test)
        elif isinstance(n, ast.Assert):
            truthy(n.test)
        elif isinstance(n, ast.BoolOp):
            for v in n.values[:-1]:
                if is_name(v):
                    out.append((v, f"truth value of `{name}`"))
        elif isinstance(n, ast.UnaryOp) and isinstance(n.op, ast.Not) \
                and is_name(n.operand):
            out.append((n.operand, f"truth value of `{name}`"))
        elif isinstance(n, ast.Call) and call_name(n) == "bool" and n.args \
                and is_name(n.args[0]):
            out.append((n, f"bool({name})"))
        elif isinstance(n, ast.Compare) and len(n.ops) == 1 and isinstance(
                n.ops[0], (ast.Eq, ast.NotEq)):
            ops = [n.left, n.comparators[0]]
            if any(is_name(o) for o in ops) and any(isinstance(
                    o, ast.Constant) and o.value is None for o in ops):
                out.append((n, f"`{txt(n)}` (element-wise for arrays)"))
        elif isinstance(n, ast.comprehension):
            for c in n.ifs:
                truthy(c)
    seen, res = set(), []
    for node, kind in out:
        if id(node) not in seen:
            seen.add(id(node))
            res.append((node, kind))
    return res


def presence_tests(fn, name):
    out = []
    for n in walk(fn):
        if isinstance(n, ast.Compare) and len(n.ops) == 1 and isinstance(
                n.ops[0], (ast.Is, ast.IsNot)) and isinstance(
                n.left, ast.Name) and n.left.id == name and isinstance(
                n.comparators[0], ast.Constant) \
                and n.comparators[0].value is None:
            out.append(n)
    return out


def r181(ctx, repo):
    sib = []
    for rel in repo.files("dclab/features/"):
        for q, fn in repo.all_functions(rel):
            if "bg_off" in [a.arg for a in fn.args.args
                            + fn.args.kwonlyargs]:
                sib.append((rel, q, fn))
    names = {q for _r, q, _f in sib}
    if not {"get_bright_bc", "get_bright_perc"} <= names:
        raise AnalysisError("siblings get_bright_bc / get_bright_perc with a "
                            "`bg_off` parameter not found")
    for rel, q, fn in sib:
        bad = truth_uses(fn, "bg_off")
        good = presence_tests(fn, "bg_off")
        reads = [n for n in walk(fn) if isinstance(n, ast.Name)
                 and n.id == "bg_off" and isinstance(n.ctx, ast.Load)]
        if not reads:
            raise AnalysisError(f"{q}: parameter bg_off is never read")
        items = [(n, None) for n in good] + [(n, k) for n, k in bad]
        items.sort(key=lambda x: (x[0].lineno, x[0].col_offset))
        if not items:
            ctx.ob("R18.1", False, f"{q} uses the optional `bg_off` without "
                   f"any presence test (None would be subtracted)", node=fn,
                   label="bg_off presence test")
        for i, (n, kind) in enumerate(items):
            lab = "bg_off presence test" + ("" if i == 0 else f" #{i + 1}")
            ctx.ob("R18.1", kind is None,
                   f"presence of the offset is tested with `{txt(n)}`"
                   if kind is None else
                   f"{q} tests the optional, possibly array-valued `bg_off` "
                   f"by {kind}: a per-event array raises 'truth value of an "
                   f"array is ambiguous' (and a zero offset counts as "
                   f"absent), its siblings use `is not None`",
                   node=n, key=f"{rel}::{q}::{lab}")


# ----------------------------------------------------------------------
# R18.2

FLOATS = {"float", "np.float32", "np.float64", "np.longdouble", "np.float_",
          "'float64'", "'float32'", "np.double"}


def _cast_of(e):
    """(dtype node, source node) when `e` is np.array(x, dtype=…),
    np.asarray(x, dtype=…) or x.astype(…); else (None, None)"""
    if isinstance(e, ast.Call):
        if call_name(e) in ("np.array", "np.asarray", "np.asanyarray"):
            return kwarg(e, "dtype", 1), (e.args[0] if e.args else None)
        if last_attr(e) == "astype" and e.args and isinstance(
                e.func, ast.Attribute):
            return e.args[0], e.func.value
        if call_name(e) in ("int", "np.int64", "np.int32", "np.rint",
                            "np.round", "np.floor", "np.trunc", "round"):
            return e.func, (e.args[0] if e.args else None)
    return None, None


def r182(ctx, repo):
    bg_kinds = {}
    _r182(ctx, repo, bg_kinds)
    if set(bg_kinds) != {"get_bright_bc", "get_bright_perc"}:
        raise AnalysisError("background subtraction of the siblings "
                            "get_bright_bc / get_bright_perc not recognised")
    a, b = bg_kinds["get_bright_bc"], bg_kinds["get_bright_perc"]
    same = a.split(" (")[0] == b.split(" (")[0]
    ctx.ob("R18.2", same,
           f"get_bright_bc and get_bright_perc treat the background alike "
           f"({a})" if same else
           f"siblings disagree on the background operand: get_bright_bc "
           f"uses it {a}, get_bright_perc {b} – avg and percentiles of the "
           f"same event are taken over different difference images",
           node=repo.func(BC, "get_bright_bc"),
           label="siblings subtract the same background")


STAT_FUNCS = ("np.mean", "np.std", "np.percentile", "np.nanmean",
              "np.nanstd", "np.median", "np.nanpercentile")


def _stat_dispatch(fn, q):
    """{loop variable: [numpy statistics]} for loops over the values of a
    local table of statistic functions (``for name, func in T.items()``,
    ``for func in T.values()``)"""
    out = {}
    for lp in walk(fn):
        if not isinstance(lp, ast.For) or not isinstance(lp.iter, ast.Call) \
                or not isinstance(lp.iter.func, ast.Attribute) \
                or lp.iter.func.attr not in ("items", "values") \
                or not isinstance(lp.iter.func.value, ast.Name):
            continue
        table = lp.iter.func.value.id
        if lp.iter.func.attr == "items":
            if not (isinstance(lp.target, ast.Tuple) and len(
                    lp.target.elts) == 2 and isinstance(
                    lp.target.elts[1], ast.Name)):
                continue
            var = lp.target.elts[1].id
        else:
            if not isinstance(lp.target, ast.Name):
                continue
            var = lp.target.id
        vals = []
        for n in walk(fn):
            if isinstance(n, ast.Assign):
                for t in n.targets:
                    if isinstance(t, ast.Name) and t.id == table:
                        if isinstance(n.value, ast.Dict):
                            vals += list(n.value.values)
                        elif isinstance(n.value, ast.Call) and call_name(
                                n.value) == "dict" and not n.value.args:
                            vals += [k.value for k in n.value.keywords]
                        else:
                            vals.append(None)
                    elif isinstance(t, ast.Subscript) and isinstance(
                            t.value, ast.Name) and t.value.id == table:
                        vals.append(n.value)
        funcs = [txt(v) if v is not None else None for v in vals]
        if not funcs or not any(f in STAT_FUNCS for f in funcs):
            continue        # not a table of statistics
        if any(f not in STAT_FUNCS for f in funcs):
            raise AnalysisError(f"{q}: table `{table}` mixes statistics with "
                                f"{[f for f in funcs if f not in STAT_FUNCS]}")
        out[var] = funcs
    return out


def _r182(ctx, repo, bg_kinds):
    for rel, q, bc in ((BRIGHT, "get_bright", False),
                       (BC, "get_bright_bc", True),
                       (PERC, "get_bright_perc", True)):
        fn = normalised(repo, rel, q)
        loops = [n for n in walk(fn) if isinstance(n, ast.For)
                 and isinstance(n.target, ast.Name)]
        stats = []
        stat_names = {}
        seen_calls = set()
        dispatch = _stat_dispatch(fn, q)
        for lp in loops:
            for c in walk(lp):
                if not isinstance(c, ast.Call) or id(c) in seen_calls:
                    continue
                if call_name(c) in STAT_FUNCS:
                    seen_calls.add(id(c))
                    stat_names[id(c)] = [call_name(c)]
                    stats.append((lp, c))
                elif isinstance(c.func, ast.Name) and c.func.id in dispatch:
                    # func(...) with func iterating over a table of numpy
                    # statistics: one statistic per table entry
                    seen_calls.add(id(c))
                    stat_names[id(c)] = dispatch[c.func.id]
                    stats.append((lp, c))
        if not stats:
            raise AnalysisError(f"{q}: statistics loop not found")
        lp = stats[0][0]
        ii = lp.target.id
        asg = {}
        for s in walk(lp):
            if isinstance(s, ast.Assign) and len(s.targets) == 1 \
                    and isinstance(s.targets[0], ast.Name):
                asg[s.targets[0].id] = s
        # image and mask of the same event
        img_names = {k for k, s in asg.items() if "image" in names_in(
            s.value) and f"[{ii}]" in txt(s.value)}
        if not img_names:
            raise AnalysisError(f"{q}: per-event image binding lost")

        def unfold(e, depth=4):
            """loop locals other than the event image replaced by their
            single definition (`pixels = imgi[mski]`, `mski = mask[ii]`)"""
            while depth and isinstance(e, ast.Name) and e.id in asg \
                    and e.id not in img_names:
                e = asg[e.id].value
                depth -= 1
            return e
        seen_masks = set()
        for _lp, c in stats:
            a0 = c.args[0] if c.args else kwarg(c, "a")
            a = unfold(a0)
            base_ok = isinstance(a, ast.Subscript) and isinstance(
                a.value, ast.Name) and a.value.id in img_names
            m = unfold(a.slice) if isinstance(a, ast.Subscript) else None
            is_mask = isinstance(m, ast.Subscript) and txt(m.value) == "mask"
            if base_ok and is_mask and txt(m.slice) != ii and txt(
                    m) not in seen_masks:
                seen_masks.add(txt(m))
                ctx.ob("R18.2", False, f"`{txt(m)}`: the mask is not the "
                       f"one of event `{ii}`", node=c,
                       label="mask of the same event")
            ok = base_ok and is_mask and txt(m.slice) == ii
            for sname in stat_names[id(c)]:
                ctx.ob("R18.2", ok,
                       f"{sname} is taken over the event's image under "
                       f"the event's mask" if ok else
                       f"{sname} is taken over `{txt(a0)}`"
                       + (f" = `{short(a, 40)}`" if a is not a0 else "")
                       + ", not over the event image restricted to the "
                       "event mask", node=c,
                       label=f"masked statistic {sname}")
        if not bc:
            continue
        name = sorted(img_names)[0]
        v = asg[name].value
        ok = False
        why = f"`{short(v, 60)}` is not a difference image - background"
        if isinstance(v, ast.BinOp) and isinstance(v.op, ast.Sub):
            left, right = v.left, v.right
            bg_ok = txt(right) == f"image_bg[{ii}]" or (
                "image_bg" in names_in(right) and f"[{ii}]" in txt(right))
            cast = None
            if isinstance(left, ast.Call):
                if call_name(left) in ("np.array", "np.asarray"):
                    cast = kwarg(left, "dtype", 1)
                    src = left.args[0] if left.args else None
                elif last_attr(left) == "astype" and left.args:
                    cast = left.args[0]
                    src = left.func.value
            if cast is None:
                why = (f"`{short(left, 40)}` is subtracted without a cast: "
                       f"uint8 arithmetic wraps around where the background "
                       f"is brighter than the image")
            elif txt(cast) not in SIGNED:
                why = f"cast to `{txt(cast)}` is not a signed type"
            elif src is None or txt(src) != f"image[{ii}]":
                why = f"the cast is applied to `{txt(src)}`"
            elif not bg_ok:
                why = f"`{txt(right)}` is not the event's background"
            else:
                ok = True
            # the background enters the difference exactly: un-cast or cast
            # to a floating type (it may be a float image, e.g. a rolling
            # median); an integer cast truncates it per pixel
            bcast, bsrc = _cast_of(right)
            if bcast is None:
                bkind = "exact (no cast)"
            elif txt(bcast) in FLOATS:
                bkind = "exact (float cast)"
            else:
                bkind = f"cast to {txt(bcast)}"
            bg_kinds[q] = bkind
            okb = bkind.startswith("exact") and (
                bsrc is None or txt(bsrc) == f"image_bg[{ii}]")
            ctx.ob("R18.2", okb,
                   "the background enters the subtraction un-truncated"
                   if okb else
                   f"the background operand is `{short(right, 50)}`: "
                   f"a floating-point background is truncated per pixel "
                   f"before the subtraction, the result is no longer "
                   f"mean/percentile(image - background) (the integer cast "
                   f"is only needed for the unsigned image)",
                   node=asg[name], label="background operand exact")
        ctx.ob("R18.2", ok, "the image is cast to a signed type before the "
               "background of the same event is subtracted" if ok else why,
               node=asg[name], label="signed background subtraction")
        # offsets
        subs = [s for s in walk(fn) if isinstance(s, ast.AugAssign)
                and isinstance(s.op, ast.Sub) and txt(s.value) == "bg_off"
                and isinstance(s.target, ast.Name)]
        got = sorted(s.target.id for s in subs)
        want = ["avg"] if q == "get_bright_bc" else ["p10", "p90"]
        adds = [s for s in walk(fn) if isinstance(s, (ast.AugAssign,
                                                      ast.Assign))
                and "bg_off" in names_in(s.value) and s not in subs
                and not (isinstance(s, ast.Assign) and all(
                    isinstance(t, ast.Name) and t.id == "bg_off"
                    for t in s.targets))]
        ok = got == want and not adds
        ctx.ob("R18.2", ok,
               f"the offset is subtracted once from {want} and from nothing "
               f"else" if ok else
               f"the offset is subtracted from {got}"
               + (f" and used in `{short(adds[0], 40)}`" if adds else "")
               + f"; the definition shifts exactly {want} (the deviation is "
               f"offset-free)", node=subs[0] if subs else fn,
               label="offset shifts location statistics only")
        if q == "get_bright_perc":
            pc = [c for _l, c in stats if call_name(c) == "np.percentile"]
            st = pc[0]
            while not isinstance(st, ast.stmt):
                st = st.parent
            qv = kwarg(pc[0], "q", 1)
            tg = txt(st.targets[0]) if isinstance(st, ast.Assign) else ""
            ok = txt(qv) in ("[10, 90]", "(10, 90)") and tg.replace(
                " ", "") in (f"(p10[{ii}],p90[{ii}])",
                             f"p10[{ii}],p90[{ii}]")
            ctx.ob("R18.2", ok, "percentiles 10 and 90 are stored as (p10, "
                   "p90)" if ok else f"percentiles {txt(qv)} are stored as "
                   f"{tg}", node=st, label="percentile order")
            rets = [r for r in walk(fn) if isinstance(r, ast.Return)]
            ok = all(isinstance(r.value, ast.Tuple) and [
                txt(e).split("[")[0] for e in r.value.elts] == ["p10", "p90"]
                for r in rets)
            ctx.ob("R18.2", ok, "returns (p10, p90)" if ok else
                   "return order is not (p10, p90)", node=rets[0],
                   label="return order", nontrivial=False)


# ----------------------------------------------------------------------
# R18.3

class DT:
    """model numpy dtype / scalar type"""
    _strict_attrs = True
    PARENTS = {"integer": "number", "inexact": "number",
               "signedinteger": "integer", "unsignedinteger": "integer",
               "floating": "inexact", "complexfloating": "inexact",
               "number": "generic", "bool_": "generic"}

    def __init__(self, name, kind=None, itemsize=None, parent=None):
        self.name = name
        self.kind = kind
        self.itemsize = itemsize
        self.parent = parent
        self.type = self
        self.char = name

    def __eq__(self, o):
        return isinstance(o, DT) and o.name == self.name

    def __hash__(self):
        return hash(self.name)

    def __repr__(self):
        return self.name

    def lineage(self):
        out = [self.name]
        p = self.parent
        while p:
            out.append(p)
            p = DT.PARENTS.get(p)
        return out


def _dtypes():
    d = {}
    for n, k, sz, par in (
            ("int8", "i", 1, "signedinteger"), ("int16", "i", 2,
                                                "signedinteger"),
            ("int32", "i", 4, "signedinteger"),
            ("int64", "i", 8, "signedinteger"),
            ("uint8", "u", 1, "unsignedinteger"),
            ("uint16", "u", 2, "unsignedinteger"),
            ("uint32", "u", 4, "unsignedinteger"),
            ("float16", "f", 2, "floating"), ("float32", "f", 4, "floating"),
            ("float64", "f", 8, "floating"),
            ("longdouble", "f", 16, "floating")):
        d[n] = DT(n, k, sz, par)
    for n in ("integer", "signedinteger", "unsignedinteger", "floating",
              "inexact", "number", "generic", "complexfloating"):
        d[n] = DT(n, None, None, DT.PARENTS.get(n))
    d["int_"] = d["intp"] = d["longlong"] = d["int64"]
    d["double"] = d["float_"] = d["float64"]
    return d


def _as_dt(table, t):
    if isinstance(t, DT):
        return t
    if t is int:
        return table["int64"]
    if t is float:
        return table["float64"]
    if isinstance(t, str) and t in table:
        return table[t]
    raise AnalysisError(f"dtype model: `{t!r}` not modelled")


class MCont:
    """model contour array: only its dtype matters"""
    _strict_attrs = True

    def __init__(self, table, dt):
        self._t = table
        self.dtype = dt
        self.shape = (5, 2)
        self.ndim = 2

    def astype(self, t, *a, **k):
        return MCont(self._t, _as_dt(self._t, t))

    def copy(self):
        return MCont(self._t, self.dtype)

    def __len__(self):
        return 5


def r183(ctx, repo):
    fn = normalised(repo, INERT, "cont_moments_cv")
    # the prologue: everything before the first read of the coordinates
    first = None
    for i, st in enumerate(fn.body):
        if any(isinstance(n, ast.Subscript) and txt(n.value) == "cont"
               for n in ast.walk(st)):
            first = i
            break
    if first is None:
        raise AnalysisError("cont_moments_cv: coordinate reads lost")
    pro = ast.FunctionDef(
        name="cont_moments_cv__cast_prologue", args=fn.args,
        body=list(fn.body[:first]) + [ast.Return(value=ast.Name(
            id="cont", ctx=ast.Load()))], decorator_list=[], returns=None,
        type_comment=None, lineno=fn.lineno, col_offset=0)
    ast.fix_missing_locations(pro)
    table = _dtypes()
    np_ = L.NPModel(dict(table))

    def issubdtype(a, b):
        a = a.dtype if isinstance(a, MCont) else _as_dt(table, a)
        b = _as_dt(table, b)
        return b.name in a.lineage()

    def asarray(a, dtype=None, **k):
        if isinstance(a, MCont):
            return a if dtype is None else a.astype(dtype)
        raise AnalysisError("dtype model: np.asarray of a non-contour")
    np_.issubdtype = issubdtype
    np_.asarray = np_.array = np_.asanyarray = asarray
    np_.dtype = lambda t: _as_dt(table, t)
    it = L.Interp(repo)
    env = it.env(INERT, {"np": np_, "ssp": L.Opaque("scipy.spatial")})
    run_pro = L.Closure(it, pro, env)
    results = {}
    for name in ("int8", "int16", "int32", "int64", "uint8", "uint16",
                 "uint32", "float16", "float32", "float64"):
        res = L.run(lambda: run_pro(MCont(table, table[name])))
        if res[0] == "ok" and not isinstance(res[1], MCont):
            raise AnalysisError("cont_moments_cv: the contour is replaced by "
                                f"{type(res[1]).__name__} before it is read")
        results[name] = res
    for kind, names in (("integer", ("int8", "int16", "int32", "int64",
                                     "uint8", "uint16", "uint32")),
                        ("floating", ("float16", "float32", "float64"))):
        bad = None
        for n_ in names:
            r = results[n_]
            if r[0] != "ok":
                bad = bad or (n_, f"{r[0]} {r[1]}: {r[2]}")
                continue
            dt = r[1].dtype
            wide = dt.kind in ("i", "f") and dt.itemsize >= 8 and (
                kind == "integer" or dt.kind == "f")
            if not wide:
                bad = bad or (n_, f"dtype {dt} when the coordinates are "
                              f"read")
        ctx.ob("R18.3", bad is None,
               f"{kind} contours ({', '.join(names)}) are 64 bit when the "
               f"coordinates are read" if bad is None else
               f"{kind} contours are not cast to 64 bit before the "
               f"coordinates are read: a {bad[0]} contour has {bad[1]}"
               + (": products of coordinates overflow for long channels"
                  if kind == "integer" else
                  ": moments are accumulated in reduced precision"),
               node=fn.body[first],
               key=f"{INERT}::cont_moments_cv::64-bit cast of {kind} input")
    # no product is formed from the un-cast parameter elsewhere
    prnc = repo.func(INERT, "get_inert_ratio_prnc")
    cc = [s for s in walk(prnc) if isinstance(s, ast.Assign) and txt(
        s.targets[0]) == "cc"]
    ok = bool(cc) and "np.float64" in txt(cc[0].value)
    ctx.ob("R18.3", ok, "the rotated copy is a float64 array" if ok else
           "the rotated contour copy is not float64", node=cc[0] if cc
           else prnc, label="rotation copy is 64 bit")


# ----------------------------------------------------------------------
# R18.4 / R18.6

ABS = ("np.abs", "abs", "np.absolute", "np.fabs")


def _vol_leaf(sums):
    def leaf(fold, e):
        if isinstance(e, ast.Attribute) and txt(e) in ("np.pi", "math.pi"):
            return "pi"
        if isinstance(e, ast.Call):
            cn = call_name(e)
            if cn in ABS and len(e.args) == 1:
                return fold.rat(e.args[0])
            if cn == "np.diff" and len(e.args) == 1 and not e.keywords \
                    and txt(e.args[0]) in ("r", "z"):
                return "d" + txt(e.args[0])
            if cn in ("np.sum", "np.nansum") and len(e.args) == 1:
                sums.append(e.args[0])
                return "SUM"
            if cn == "float" and len(e.args) == 1:
                return fold.rat(e.args[0])
        if isinstance(e, ast.Subscript) and txt(e) == "r[:-1]":
            return "rp"
        return None
    return leaf


def r184(ctx, repo):
    vr = normalised(repo, VOL, "vol_revolve")
    rets = [r for r in walk(vr) if isinstance(r, ast.Return)]
    if len(rets) != 1 or rets[0].value is None:
        raise AnalysisError("vol_revolve: single return of the volume lost")
    ret = rets[0]
    sums = []
    fold = Fold(repo, VOL, vr, leaf=_vol_leaf(sums))
    vol = fold.rat(ret.value)
    if len(sums) != 1:
        raise AnalysisError(f"vol_revolve: expected one sum over the "
                            f"segments, found {len(sums)}")
    seg_expr = sums[0]
    inner = []
    v = Fold(repo, VOL, vr, leaf=_vol_leaf(inner)).rat(seg_expr)
    syms = _symbols(v)
    ok = syms == {"rp", "dr", "dz", "pi"}
    ctx.ob("R18.4", ok, "the segment volume is built from dr = diff(r), dz = "
           "diff(z), rp = r[:-1]" if ok else f"the segment volume is built "
           f"from {sorted(syms)}, expected np.diff(r), np.diff(z), r[:-1] "
           f"and pi", node=ret, label="segment quantities", nontrivial=False)
    rp, dr, dz, pi = (Rat(Poly.sym(s)) for s in ("rp", "dr", "dz", "pi"))
    big = rp + dr
    three = Rat(Poly.const(3))
    want = pi * dz / three * (big * big + big * rp + rp * rp)
    ok = v.same(want)
    ctx.ob("R18.4", ok, "segment volume equals pi*dz/3*(R^2 + R*r + r^2) "
           "with R = r + dr (polynomial identity)" if ok else
           "segment volume differs from the truncated-cone formula "
           "pi*h/3*(R^2 + R*r + r^2) of the docstring", node=ret,
           label="truncated cone formula")
    # sign of dz: no absolute value may enclose the height difference
    full = ast.parse(expand_locals(vr, seg_expr, depth=8), mode="eval").body
    sign_kept = not any(
        isinstance(c, ast.Call) and call_name(c) in ABS + ("np.sign",)
        and ("np.diff(z)" in txt(c) or "dz" in names_in(c))
        for c in ast.walk(full))
    ctx.ob("R18.4", sign_kept, "the sign of dz is kept (volume flips with "
           "the orientation)" if sign_kept else "|dz| is used: the volume no "
           "longer flips sign with the orientation", node=ret,
           label="orientation sign")
    mono = vol.monomial()
    ok = mono is not None and mono[0] == {"SUM": 1, "point_scale": 3} \
        and mono[1] == 1
    ctx.ob("R18.4", ok, "the summed volume is scaled by point_scale**3"
           if ok else f"volume scaling is "
           f"{mono[0] if mono else 'not a monomial'}"
           f", expected point_scale**3", node=ret, label="cubic scale")
    ctx.ob("R18.4", True, "returns the scaled sum", node=ret,
           label="return", nontrivial=False)

    gv = normalised(repo, VOL, "get_volume")
    calls = find_calls(gv, name="vol_revolve")
    if len(calls) != 2:
        raise AnalysisError("get_volume: expected two vol_revolve calls")
    index = {id(c): i + 1 for i, c in enumerate(calls)}

    def gleaf(fold, e):
        if isinstance(e, ast.Call) and id(e) in index:
            return f"V{index[id(e)]}"
        if isinstance(e, ast.Call) and call_name(e) in (
                "np.array", "np.asarray", "np.copy", "float",
                "np.float64") and e.args:
            return fold.rat(e.args[0])
        if isinstance(e, ast.Call) and last_attr(e) == "astype" \
                and isinstance(e.func, ast.Attribute):
            return fold.rat(e.func.value)
        if isinstance(e, ast.Subscript):
            t = txt(e).replace("(", "").replace(")", "")
            if t in ("cc[:, 0]", "cc[:, 1]"):
                return "cc" + t[-2]
            if isinstance(e.value, ast.Name) and e.value.id in (
                    "pos_x", "pos_y") and isinstance(e.slice, ast.Name):
                return f"{e.value.id}[i]"
        return None
    gf = Fold(repo, VOL, gv, leaf=gleaf)
    pix = Rat(Poly.sym("pix"))
    for i, c in enumerate(calls):
        sc = kwarg(c, "point_scale", 2)
        r = gf.try_rat(sc) if sc is not None else None
        ok = r is not None and r.same(pix)
        ctx.ob("R18.4", ok, "the pixel size is the point scale" if ok else
               f"vol_revolve is called with scale `{txt(sc)}`", node=c,
               label=f"vol_revolve call #{i + 1} scale")
    # centroid in pixels: every arithmetic local that involves a contour
    # column is that column minus centroid / pixel size
    asgs = [n for n in stmts_of(gv) if isinstance(n, ast.Assign)]
    for k, pos in (("0", "pos_x[i]"), ("1", "pos_y[i]")):
        col = Rat(Poly.sym("cc" + k))
        want = col - Rat(Poly.sym(pos)) / pix
        hits = []
        for a in asgs:
            r = gf.try_rat(a.value)
            if r is not None and "cc" + k in _symbols(r):
                hits.append((a, r))
        if not hits:
            raise AnalysisError("get_volume: centring statement lost")
        # the radial column (1) must be centred - the radii enter the
        # volume; the axial column (0) enters through differences only and
        # through the orientation test (decided by the evaluation of R18.6):
        # it is either left as it is or shifted by exactly pos_x / pix
        bad = [a for a, r in hits if not (r.same(want) or (
            k == "0" and r.same(col)))]
        ctx.ob("R18.4", not bad, f"column {k} is centred with "
               f"{pos.replace('[i]', '[ii]')}/pix" if not bad else
               f"column {k} is centred by `{short(bad[0].value, 50)}` "
               f"(expected {pos.replace('[i]', '[ii]')} / pix: centroid "
               f"in µm, contour in pixels)", node=(bad or [hits[0][0]])[0],
               label=f"centroid in pixels, column {k}")
    _min_points(ctx, repo, gv, calls)
    v1, v2 = Rat(Poly.sym("V1")), Rat(Poly.sym("V2"))
    half = Rat(Poly.const(Fraction(1, 2)))
    avg = []
    for a in asgs:
        r = gf.try_rat(a.value)
        if r is not None and {"V1", "V2"} <= _symbols(r):
            avg.append((a, r))
    # the value that is stored: not an intermediate of another candidate
    inter = set()
    for a, _r in avg:
        for b, _r2 in avg:
            if a is not b:
                inter |= {t.id for t in a.targets if isinstance(t, ast.Name)
                          and t.id in names_in(b.value)}
    avg = [(a, r) for a, r in avg if not any(
        isinstance(t, ast.Name) and t.id in inter for t in a.targets)]
    ok = bool(avg) and all(r.same((v1 + v2) * half) for _a, r in avg)
    ctx.ob("R18.4", ok, "the result is the mean of both halves" if ok else
           "the two half volumes are not averaged", node=avg[0][0] if avg
           else gv, label="average of halves")


def _min_points(ctx, repo, gv, calls):
    """the guard in front of the volume computation against the law the
    source states next to it ("If the contour has less than N pixels, the
    computation will fail" -> evaluated for n = N-1, N, N+1)"""
    src = repo.src(VOL).splitlines()
    lo = gv.lineno
    hi = max(getattr(n, "end_lineno", lo) or lo for n in ast.walk(gv))
    stated = None
    for line in src[lo - 1:hi]:
        m = re.search(r"#.*(?:less|fewer) than (\d+) (?:pixels|points)",
                      line)
        if m:
            stated = int(m.group(1))
    nmin = stated if stated is not None else 4

    def size_of(e):
        t = txt(e)
        return t.endswith(".shape[0]") or (t.startswith("len(")
                                           and t.endswith(")"))
    guard = polarity = None
    for n in walk(gv):
        if isinstance(n, ast.If) and any(size_of(x) for x in ast.walk(
                n.test)) and isinstance(n.test, (ast.Compare, ast.BoolOp,
                                                 ast.UnaryOp)):
            inside = all(any(c is x for x in ast.walk(ast.Module(
                body=n.body, type_ignores=[]))) for c in calls)
            skips = any(isinstance(x, (ast.Continue, ast.Return))
                        for st in n.body for x in ast.walk(st)) and not any(
                any(c is x for x in ast.walk(st)) for st in n.body
                for c in calls)
            if inside:
                guard, polarity = n, True
            elif skips:
                guard, polarity = n, False
    if guard is None:
        raise AnalysisError("get_volume: point-count guard of the volume "
                            "computation not found")

    def res(e):
        return "n" if size_of(e) else None
    bad = []
    for k in (nmin - 1, nmin, nmin + 1):
        runs = bool(eval_pred(guard.test, {"n": float(k)}, res)) == polarity
        if runs != (k >= nmin):
            bad.append((k, runs))
    ctx.ob("R18.4", not bad,
           f"contours of at least {nmin} points are evaluated, shorter ones "
           f"give nan (guard evaluated for n = {nmin - 1}, {nmin}, "
           f"{nmin + 1})" if not bad else
           f"guard `{txt(guard.test)}`: a contour of {bad[0][0]} points is "
           + ("evaluated" if bad[0][1] else "skipped (nan)")
           + f", but the source states that only contours of less than "
           f"{nmin} points cannot be computed (a {nmin}-point contour - "
           f"rectangle, diamond, 2x2 mask - has a volume)",
           node=guard, label="minimum number of contour points")



def _bound(t):
    """names (re)defined by an assignment target: plain names and the base
    of subscript / attribute stores"""
    if isinstance(t, ast.Name):
        return [t.id]
    if isinstance(t, (ast.Tuple, ast.List)):
        return [n for e in t.elts for n in _bound(e)]
    if isinstance(t, (ast.Subscript, ast.Attribute)):
        return _bound(t.value)
    if isinstance(t, ast.Starred):
        return _bound(t.value)
    return []


def r186(ctx, repo):
    gv = repo.func(VOL, "get_volume")
    deps = {}
    MARK = "<counter_clockwise>"
    for s in walk(gv):
        if isinstance(s, ast.Assign):
            src = set(names_in(s.value))
            if any(isinstance(c, ast.Call) and call_name(c)
                   == "counter_clockwise" for c in ast.walk(s.value)):
                src.add(MARK)
            for t in s.targets:
                for n in _bound(t):
                    deps.setdefault(n, set()).update(src)
        elif isinstance(s, ast.AugAssign):
            for n in _bound(s.target):
                deps.setdefault(n, set()).update(names_in(s.value))
    if not any(MARK in v for v in deps.values()):
        raise AnalysisError("get_volume: counter_clockwise call lost")

    def closure(names):
        seen = set()
        todo = list(names)
        while todo:
            n = todo.pop()
            if n in seen:
                continue
            seen.add(n)
            todo += list(deps.get(n, ()))
        return seen
    calls = find_calls(gv, name="vol_revolve")
    bad = []
    for i, c in enumerate(calls):
        r = kwarg(c, "r", 0)
        z = kwarg(c, "z", 1)
        if r is None or z is None:
            raise AnalysisError("get_volume: vol_revolve arguments")
        fr = MARK in closure(names_in(r))
        fz = MARK in closure(names_in(z))
        if fr != fz:
            bad.append((i + 1, r, z) if fr else (i + 1, z, r))
    ctx.ob("R18.6", not bad,
           f"r and z of all {len(calls)} vol_revolve calls derive from the "
           f"(possibly re-oriented) coordinate pair" if not bad else
           f"with fix_orientation `{txt(bad[0][1])}` follows the re-oriented "
           f"contour but its partner `{txt(bad[0][2])}` does not (call "
           f"{', '.join('#%d' % b[0] for b in bad)}): a reversed coordinate "
           f"is paired with an un-reversed one", node=calls[0],
           label="vol_revolve r/z orientation-consistent")
    # reversal of the lower half applies to both coordinates
    c2 = calls[1] if len(calls) > 1 else None
    if c2 is not None:
        r, z = kwarg(c2, "r", 0), kwarg(c2, "z", 1)
        rev = [isinstance(a, ast.Subscript) and txt(a.slice) == "::-1"
               for a in (r, z)]
        allrev = []
        for c in calls:
            allrev.append(tuple(isinstance(a, ast.Subscript) and txt(
                a.slice) == "::-1" for a in (kwarg(c, "r", 0),
                                             kwarg(c, "z", 1))))
        ok = all(a == b for a, b in allrev)
        # the half that is mirrored to positive radii changes its sense of
        # rotation and has to be traversed backwards
        negated = set()
        for st in walk(gv):
            if isinstance(st, ast.AugAssign) and isinstance(
                    st.op, ast.Mult) and txt(st.value) == "-1":
                negated |= set(_bound(st.target))
            if isinstance(st, ast.Assign) and isinstance(
                    st.value, ast.UnaryOp) and isinstance(
                    st.value.op, ast.USub):
                for t in st.targets:
                    negated |= set(_bound(t))
        for i, c in enumerate(calls):
            ra = kwarg(c, "r", 0)
            base = ra.value if isinstance(ra, ast.Subscript) else ra
            mir = isinstance(base, ast.Name) and base.id in negated
            good = mir == allrev[i][0]
            ctx.ob("R18.6", good,
                   ("the mirrored half is traversed backwards" if mir else
                    "the un-mirrored half keeps its order") if good else
                   (f"`{txt(ra)}` is mirrored to positive radii but not "
                    f"reversed: its volume enters with the wrong sign"
                    if mir else f"`{txt(ra)}` is reversed without being "
                    f"mirrored"), node=c,
                   label=f"vol_revolve call #{i + 1} mirrored <=> reversed")
        ctx.ob("R18.6", ok, "each call reverses both coordinates or none"
               if ok else "one coordinate of a vol_revolve call is reversed "
               "without the other", node=c2,
               label="reversal applies to both coordinates")


def r186_eval(ctx, repo):
    """get_volume evaluated (analyser's numpy model, floats) on one polygon
    at several positions, both orientations and all start points: sign flip,
    translation invariance and the orientation fix"""
    gv_node = repo.func(VOL, "get_volume")
    it = L.Interp(repo)
    try:
        env = it.env(VOL, {"np": L.NPModel()})
        gv = env.lookup("get_volume")
        pts = [(10, 0), (7, 4), (2, 5), (-6, 3), (-9, -1), (-3, -5), (4, -4)]
        pix = 0.34
        rows = []
        for x0 in (12, 60, 600):
            for start in (0, 3):
                for rev in (False, True):
                    p = [(x + x0, y + 30) for x, y in pts]
                    p = p[start:] + p[:start]
                    if rev:
                        p = p[::-1]
                    cx = sum(q[0] for q in p) / len(p) * pix
                    cy = sum(q[1] for q in p) / len(p) * pix
                    c1, c2 = (L.Mat([list(q) for q in p]) for _ in (0, 1))
                    raw = L.run(lambda: gv(c1, cx, cy, pix))
                    fix = L.run(lambda: gv(c2, cx, cy, pix,
                                           fix_orientation=True))
                    rows.append((x0, start, rev, raw, fix))
    except AnalysisError as e:
        ctx.note(f"R18.6: get_volume could not be evaluated on the model "
                 f"({e}); only the structural obligations apply")
        return
    bad = [r for r in rows if r[3][0] != "ok" or r[4][0] != "ok"
           or not all(isinstance(v[1], float) for v in (r[3], r[4]))]
    if bad:
        r = bad[0]
        ctx.ob("R18.6", False, f"get_volume fails on a {len(pts)}-point "
               f"polygon at x = {r[0]} (reversed={r[2]}): "
               f"{r[3] if r[3][0] != 'ok' else r[4]}", node=gv_node,
               label="volume of a model polygon")
        return
    ref = abs(rows[0][3][1])

    def close(a, b):
        return abs(a - b) <= 1e-9 * max(1.0, abs(a), abs(b))
    flips = [r for r in rows if not close(abs(r[3][1]), ref)]
    by = {}
    for r in rows:
        by.setdefault((r[0], r[1]), {})[r[2]] = r[3][1]
    nosign = [k for k, v in by.items() if not close(v[False], -v[True])]
    ctx.ob("R18.6", not flips and not nosign and ref > 0,
           f"the volume of the model polygon is the same at every position "
           f"and start point and changes sign with the orientation "
           f"({len(rows)} evaluations)" if not flips and not nosign else
           (f"the volume depends on the position / start point: "
            f"{flips[0][3][1]} at x = {flips[0][0]} vs {ref}" if flips else
            f"reversing the contour at x = {nosign[0][0]} does not flip the "
            f"sign of the volume"), node=gv_node,
           label="volume: translation invariant, sign follows orientation")
    wrong = [r for r in rows if not close(r[4][1], ref)]
    ctx.ob("R18.6", not wrong,
           f"fix_orientation=True returns the positive volume for both "
           f"orientations at every position ({len(rows)} evaluations)"
           if not wrong else
           f"fix_orientation=True returns {wrong[0][4][1]:.6g} instead of "
           f"{ref:.6g} for the {'reversed ' if wrong[0][2] else ''}polygon "
           f"at x = {wrong[0][0]} (start point {wrong[0][1]}): the "
           f"orientation test depends on where the contour lies (it must be "
           f"centred before an angle / open-sum test, or the test must be "
           f"translation invariant)", node=gv_node,
           label="orientation fix works at every position")


# ----------------------------------------------------------------------
# R18.5

SAMPLE = {"ct21": Fraction(1, 7), "ct31": Fraction(1, 11),
          "ct12": Fraction(1, 5), "ct32": Fraction(1, 13),
          "ct13": Fraction(1, 17), "ct23": Fraction(1, 19),
          "t1": Fraction(3), "t2": Fraction(5), "t3": Fraction(11)}


def _poly_at(p, point):
    tot = Fraction(0)
    for mono, cf in p.t.items():
        v = Fraction(cf)
        for sym, e in mono:
            if sym not in point:
                raise AnalysisError(f"crosstalk model: free symbol {sym}")
            v *= point[sym] ** e
        tot += v
    return tot


class Sym(Rat):
    """exact rational function with closed arithmetic; branch conditions on
    symbolic values are decided at a generic point of the domain (small
    positive coefficients, SAMPLE) - the other regions of the domain are
    covered by the numeric grid of R18.5"""

    def at(self, point=SAMPLE):
        d = _poly_at(self.d, point)
        if d == 0:
            raise AnalysisError("crosstalk model: pole at the sample point")
        return _poly_at(self.n, point) / d

    @staticmethod
    def of(v):
        r = _rat(v)
        return r if isinstance(r, Sym) else Sym(r.n, r.d)

    def _w(self, r):
        return Sym(r.n, r.d)

    def __add__(self, o): return self._w(Rat.__add__(self, _rat(o)))
    def __radd__(self, o): return self._w(Rat.__add__(_rat(o), self))
    def __sub__(self, o): return self._w(Rat.__sub__(self, _rat(o)))
    def __rsub__(self, o): return self._w(Rat.__sub__(_rat(o), self))
    def __mul__(self, o): return self._w(Rat.__mul__(self, _rat(o)))
    def __rmul__(self, o): return self._w(Rat.__mul__(_rat(o), self))
    def __truediv__(self, o): return self._w(Rat.__truediv__(self, _rat(o)))
    def __rtruediv__(self, o): return self._w(Rat.__truediv__(_rat(o), self))
    def __neg__(self): return self._w(Rat.__neg__(self))
    def __pow__(self, k): return self._w(Rat.__pow__(self, k))
    def __abs__(self): return self if self.at() >= 0 else -self

    def _c(self, o):
        return Sym.of(o).at()

    def __lt__(self, o): return self.at() < self._c(o)
    def __le__(self, o): return self.at() <= self._c(o)
    def __gt__(self, o): return self.at() > self._c(o)
    def __ge__(self, o): return self.at() >= self._c(o)
    def __eq__(self, o): return self.at() == self._c(o)
    def __ne__(self, o): return self.at() != self._c(o)
    __hash__ = Rat.__hash__


def _rat(v):
    if isinstance(v, Rat):
        return v
    if isinstance(v, (int, Fraction)) and not isinstance(v, bool):
        return Rat(Poly.const(v))
    if isinstance(v, float) and v == int(v):
        return Rat(Poly.const(int(v)))
    if isinstance(v, float):
        return Rat(Poly.const(Fraction(v).limit_denominator(10**9)))
    raise AnalysisError(f"crosstalk model: value {v!r}")


def _inv(m):
    if not isinstance(m, L.Mat) or m.shape != (3, 3):
        raise L.ModelFault("LinAlgError", "inverse of a non 3x3 matrix")
    a = [[_rat(v) for v in r] for r in m.rows]

    def minor(i, j):
        rows = [r for k, r in enumerate(a) if k != i]
        s = [[v for k, v in enumerate(r) if k != j] for r in rows]
        return s[0][0] * s[1][1] - s[0][1] * s[1][0]
    det = None
    for j in range(3):
        t = a[0][j] * minor(0, j)
        if j % 2:
            t = -t
        det = t if det is None else det + t
    out = [[None] * 3 for _ in range(3)]
    for i in range(3):
        for j in range(3):
            c = minor(j, i)
            if (i + j) % 2:
                c = -c
            out[i][j] = Sym.of(c / det)
    if det.n.is_zero():
        raise L.ModelFault("LinAlgError", "Singular matrix")
    return L.Mat(out)


def _det(m):
    if not isinstance(m, L.Mat) or m.shape != (3, 3):
        raise L.ModelFault("LinAlgError", "determinant of a non 3x3 matrix")
    a = [[_rat(v) for v in r] for r in m.rows]
    det = (a[0][0] * (a[1][1] * a[2][2] - a[1][2] * a[2][1])
           - a[0][1] * (a[1][0] * a[2][2] - a[1][2] * a[2][0])
           + a[0][2] * (a[1][0] * a[2][1] - a[1][1] * a[2][0]))
    return Sym.of(det)


def r185(ctx, repo):
    it = L.Interp(repo)
    np_ = L.NPModel()
    np_.linalg = L.namespace("np.linalg", inv=_inv, det=_det)
    # dtype requests when the spill matrix is built (the model is exact;
    # a request for less than double precision is recorded)
    narrow = []
    for nm in ("float32", "float16", "single", "half", "int32", "int16",
               "int8", "uint8", "uint16", "uint32"):
        setattr(np_, nm, nm)
    np_.double = np_.float_ = "float64"
    plain_array = np_.array

    def array(a, dtype=None, *r, **k):
        if isinstance(dtype, str) and dtype in (
                "float32", "float16", "single", "half", "int32", "int16",
                "int8", "uint8", "uint16", "uint32", "f4", "f2"):
            narrow.append(dtype)
        elif dtype is int:
            narrow.append("int")
        return plain_array(a)
    np_.array = np_.asarray = array
    ext = {"np": np_}
    for st in repo.tree(CT).body:
        if isinstance(st, ast.ImportFrom) and st.level == 0 and st.module in (
                "numpy", "numpy.linalg"):
            src_ns = np_ if st.module == "numpy" else np_.linalg
            for a in st.names:
                try:
                    ext[a.asname or a.name] = getattr(src_ns, a.name)
                except (AttributeError, AnalysisError):
                    raise AnalysisError(f"fl_crosstalk: `{st.module}."
                                        f"{a.name}` is not modelled")
        elif isinstance(st, ast.Import):
            for a in st.names:
                if a.name == "numpy":
                    ext[a.asname or "numpy"] = np_
                elif a.name == "numpy.linalg" and a.asname:
                    ext[a.asname] = np_.linalg
    env = it.env(CT, ext)
    cc_node = repo.func(CT, "correct_crosstalk")
    gm_node = repo.func(CT, "get_compensation_matrix")
    cc = env.lookup("correct_crosstalk")
    gm = env.lookup("get_compensation_matrix")
    names = ["ct21", "ct31", "ct12", "ct32", "ct13", "ct23"]
    ga = gm_node.args
    params = [a.arg for a in ga.args]
    n_def = len(ga.defaults)
    optional = set(params[len(params) - n_def:]) if n_def else set()
    if not set(names) <= set(params) or (
            set(params) - set(names)) - optional or any(
            d is None for d in ga.kw_defaults):
        raise AnalysisError("get_compensation_matrix: the six spill "
                            "coefficients are no longer its (only required) "
                            "parameters")
    c = {n: Sym(Poly.sym(n)) for n in names}
    one = Rat(Poly.const(1))
    t = [Sym(Poly.sym(f"t{i}")) for i in (1, 2, 3)]

    def spill(i, j):      # from channel i to channel j (1-based)
        return one if i == j else c[f"ct{i}{j}"]
    meas = []
    for j in (1, 2, 3):
        s = None
        for i in (1, 2, 3):
            term = t[i - 1] * spill(i, j)
            s = term if s is None else s + term
        meas.append(Sym(s.n, s.d))
    for k in (1, 2, 3):
        res = L.run(lambda: cc(meas[0], meas[1], meas[2], k, **c))
        ok = res[0] == "ok" and isinstance(res[1], Rat) and res[1].same(
            t[k - 1])
        ctx.ob("R18.5", ok,
               f"channel {k}: correcting the spilled signals returns the "
               f"unspilled signal exactly (rational identity in 6 "
               f"coefficients)" if ok else
               f"channel {k}: correct_crosstalk(fl_j = sum_i t_i*c_ij) is "
               f"not t_{k} – the compensation does not invert the spill-over "
               f"the docstring defines ("
               + (f"{res[0]} {res[1]}" if res[0] != "ok" else "different "
                  "rational function") + ")", node=cc_node,
               label=f"inverts the modelled spill-over, channel {k}")
    ctx.ob("R18.5", not narrow,
           "the spill matrix is built and inverted in double precision"
           if not narrow else
           f"the spill matrix is built with dtype {sorted(set(narrow))}: "
           f"coefficients are rounded to single precision before the "
           f"inversion, the compensation no longer inverts the documented "
           f"spill-over within float64 accuracy", node=gm_node,
           label="spill matrix in double precision")
    # the whole domain: every non-negative *invertible* spill matrix, also
    # with a negative determinant (strong mutual spill), must be inverted -
    # numeric grid, exact arithmetic
    F = Fraction
    tv = [F(3), F(5), F(11)]
    grid = []
    fam = [{"ct12": v12, "ct21": v21, "ct13": v13, "ct31": F(1, 3),
            "ct23": F(0), "ct32": F(1)}
           for v12, v21, v13 in itertools.product((F(0), F(1, 2), F(2)),
                                                  repeat=3)]
    # third channel fully decoupled / coupled in one direction only
    fam += [{"ct12": v12, "ct21": v21, "ct13": F(0), "ct31": F(0),
             "ct23": F(0), "ct32": F(0)}
            for v12, v21 in itertools.product((F(0), F(1, 2), F(2)),
                                              repeat=2)]
    fam += [{"ct12": F(1, 2), "ct21": F(1, 4), "ct13": F(1, 3),
             "ct31": F(0), "ct23": F(1, 5), "ct32": F(0)}]
    for cf in fam:
        mat = [[F(1) if i == j else cf[f"ct{i}{j}"] for j in (1, 2, 3)]
               for i in (1, 2, 3)]
        d = (mat[0][0] * (mat[1][1] * mat[2][2] - mat[1][2] * mat[2][1])
             - mat[0][1] * (mat[1][0] * mat[2][2] - mat[1][2] * mat[2][0])
             + mat[0][2] * (mat[1][0] * mat[2][1] - mat[1][1] * mat[2][0]))
        if d != 0:
            grid.append((cf, mat, d))
    for sign, lab in ((1, "positive"), (-1, "negative")):
        sel = [g for g in grid if (g[2] > 0) == (sign > 0)]
        if not sel:
            raise AnalysisError("crosstalk grid lost a determinant sign")
        bad = None
        for cf, mat, d in sel:
            ms = [sum(tv[i] * mat[i][j] for i in range(3)) for j in range(3)]
            for k in (1, 2, 3):
                res = L.run(lambda: cc(Sym.of(ms[0]), Sym.of(ms[1]),
                                       Sym.of(ms[2]), k,
                                       **{n: Sym.of(v)
                                          for n, v in cf.items()}))
                good = res[0] == "ok" and isinstance(
                    res[1], Rat) and res[1].same(_rat(tv[k - 1]))
                if not good and bad is None:
                    bad = (cf, d, k, res)
        ctx.ob("R18.5", bad is None,
               f"all {len(sel)} invertible non-negative spill matrices of "
               f"the grid with {lab} determinant are inverted exactly"
               if bad is None else
               f"spill matrix { {k_: str(v) for k_, v in bad[0].items()} } "
               f"(non-negative, determinant {bad[1]}) is invertible, but "
               f"correct_crosstalk(channel {bad[2]}) gives "
               + (f"{bad[3][0]} {bad[3][1]}: {str(bad[3][2])[:80]} - only "
                  f"negative coefficients and an exactly singular matrix "
                  f"may be refused" if bad[3][0] != "ok" else
                  "a value different from the unspilled signal - the "
                  "compensation applied on this path is not the inverse of "
                  "the full 3x3 spill matrix (a shortcut taken under an "
                  "incomplete decoupling test?)"), node=gm_node,
               label=f"invertible spill with {lab} determinant is corrected")
    # two-channel use: defaults are zero
    c2 = {n: (c[n] if n in ("ct21", "ct12") else 0) for n in names}
    m2 = [t[0] + t[1] * c["ct21"], t[1] + t[0] * c["ct12"], t[2]]
    res = L.run(lambda: cc(m2[0], m2[1], m2[2], 1, ct21=c["ct21"],
                           ct12=c["ct12"]))
    ok = res[0] == "ok" and isinstance(res[1], Rat) and res[1].same(t[0])
    ctx.ob("R18.5", ok, "omitted coefficients default to no spill" if ok
           else "with omitted coefficients the two-channel correction is "
           "not exact (defaults are not zero?)", node=cc_node,
           label="defaults are zero spill")
    # negative coefficients are refused, zero is accepted
    for n in names:
        kw = {m: 0 for m in names}
        kw[n] = -1
        res = L.run(lambda: gm(**kw))
        ok = res[0] == "raise" and res[1] == "ValueError"
        ctx.ob("R18.5", ok, f"a negative {n} is refused" if ok else
               f"a negative {n} is accepted ({res[0]})", node=gm_node,
               label=f"negative {n} refused")
    res = L.run(lambda: gm(**{m: 0 for m in names}))
    ok = res[0] == "ok" and isinstance(res[1], L.Mat) and all(
        _rat(res[1].rows[i][j]).same(_rat(1 if i == j else 0))
        for i in range(3) for j in range(3))
    ctx.ob("R18.5", ok, "no spill gives the identity" if ok else
           f"zero coefficients do not give the identity matrix", node=gm_node,
           label="zero spill is the identity", nontrivial=False)
    res = L.run(lambda: cc(t[0], t[1], t[2], 4))
    ok = res[0] == "raise"
    ctx.ob("R18.5", ok, "an invalid channel number is refused" if ok else
           "channel 4 is accepted", node=cc_node, label="channel range",
           nontrivial=False)


# ----------------------------------------------------------------------
# R18.7

SWAP = {"x0": "y0", "y0": "x0", "x1": "y1", "y1": "x1"}


def _swap_poly(p, table):
    t = {}
    for mono, cf in p.t.items():
        k = tuple(sorted((table.get(s, s), e) for s, e in mono))
        t[k] = t.get(k, 0) + cf
    return Poly(t)


def _swap(r, table=SWAP):
    return Rat(_swap_poly(r.n, table), _swap_poly(r.d, table))


A_NAMES = ("a00", "a10", "a01", "a20", "a02", "a11", "a30", "a03", "a21",
           "a12")


def _moment_fold(repo, fn, stop=()):
    """Fold for cont_moments_cv: contour columns -> x0 / y0, np.roll(·, -1)
    -> x1 / y1, np.sum(e) -> e, the orientation sign -> SIGN"""
    def sign_of(fold, test):
        """'neg' / 'pos' when `test` decides the sign of a00"""
        if isinstance(test, ast.Compare) and len(test.ops) == 1:
            a, b = test.left, test.comparators[0]
            op = test.ops[0]
            if isinstance(a, ast.Constant) and a.value == 0:
                a, b = b, a
                op = {ast.Lt: ast.Gt, ast.Gt: ast.Lt, ast.LtE: ast.GtE,
                      ast.GtE: ast.LtE}.get(type(op), type(None))()
            if isinstance(b, ast.Constant) and b.value == 0 and isinstance(
                    a, ast.Name) and a.id == "a00":
                if isinstance(op, ast.Lt):
                    return "neg"
                if isinstance(op, (ast.Gt, ast.GtE)):
                    return "pos"
        return None

    def const(e, v):
        return (isinstance(e, ast.Constant) and e.value == v) or (
            isinstance(e, ast.UnaryOp) and isinstance(e.op, ast.USub)
            and isinstance(e.operand, ast.Constant) and -e.operand.value == v)

    def leaf(fold, e):
        if isinstance(e, ast.Subscript):
            t = txt(e).replace("(", "").replace(")", "")
            if t == "cont[:, 0]":
                return "x0"
            if t == "cont[:, 1]":
                return "y0"
        if isinstance(e, ast.Call):
            cn = call_name(e)
            if cn in ("np.sum",) and len(e.args) == 1 and not e.keywords:
                return fold.rat(e.args[0])
            if cn == "np.roll":
                sh = kwarg(e, "shift", 1)
                base = fold.rat(e.args[0]) if e.args else None
                sy = _symbols(base) if base is not None else set()
                if txt(sh) != "-1" or len(sy) != 1 or not base.same(
                        Rat(Poly.sym(next(iter(sy))))) or next(
                        iter(sy)) not in ("x0", "y0"):
                    raise AnalysisError(f"cont_moments_cv: `{txt(e)}` is "
                                        f"not the successor np.roll(x, -1)")
                return next(iter(sy))[0] + "1"
            if cn == "np.sign" and len(e.args) == 1 and txt(
                    e.args[0]) == "a00":
                return "SIGN"
        if isinstance(e, ast.IfExp):
            k = sign_of(fold, e.test)
            if k == "neg" and const(e.body, -1) and const(e.orelse, 1):
                return "SIGN"
            if k == "pos" and const(e.body, 1) and const(e.orelse, -1):
                return "SIGN"
            if (k == "neg" and const(e.body, 1) and const(e.orelse, -1)) or (
                    k == "pos" and const(e.body, -1) and const(e.orelse, 1)):
                return -Rat(Poly.sym("SIGN"))
            raise AnalysisError(f"cont_moments_cv: conditional "
                                f"`{short(e, 50)}` not recognised")
        return None

    def multi(fold, name, defs, augs):
        # c = <const>; if a00 < 0: c *= -1
        if len(defs) == 1 and augs:
            for a in augs:
                g = a.parent
                if not (isinstance(a.op, ast.Mult) and const(a.value, -1)
                        and isinstance(g, ast.If) and a in g.body
                        and sign_of(fold, g.test) == "neg"):
                    raise AnalysisError(
                        f"cont_moments_cv: update `{short(a, 40)}` of "
                        f"`{name}` not recognised")
            if len(augs) != 1:
                raise AnalysisError(f"cont_moments_cv: `{name}` is flipped "
                                    f"{len(augs)} times")
            return fold.rat(defs[0].value) * Rat(Poly.sym("SIGN"))
        return None
    return Fold(repo, INERT, fn, leaf=leaf, multi=multi, stop=stop)


F32 = ("np.float32", "'float32'", "np.single", "'f4'", "numpy.float32")


def _prnc_float32(ctx, repo):
    """the principal inertia ratio is handed out in single precision
    (source: 'np.float32 for compatibility with opencv'): the rounding to
    float32 is what turns 1 +- 1e-9 of isotropic shapes into exactly 1, so
    that the ratio is never below one"""
    fn = normalised(repo, INERT, "get_inert_ratio_prnc")
    rets = [r for r in walk(fn) if isinstance(r, ast.Return)
            and r.value is not None]
    names = set()
    for r in rets:
        v = r.value
        while isinstance(v, ast.Subscript):
            v = v.value
        if isinstance(v, ast.Call) and last_attr(v) == "astype" and v.args \
                and txt(v.args[0]) in F32:
            continue
        if isinstance(v, ast.Call) and call_name(v) in F32 and v.args:
            continue
        if not isinstance(v, ast.Name):
            raise AnalysisError("get_inert_ratio_prnc: returned value "
                                f"`{txt(r.value)}` not recognised")
        names.add(v.id)

    def is_f32(e):
        return e is not None and txt(e) in F32
    why = {}
    for name in sorted(names):
        defs = [a for a in walk(fn) if isinstance(a, ast.Assign) and any(
            isinstance(t, ast.Name) and t.id == name for t in a.targets)]
        ok = False
        # follow `x = x[0]`-style re-bindings back to the array
        allocs = []
        for a in defs:
            v = a.value
            base = v
            while isinstance(base, ast.Subscript):
                base = base.value
            if isinstance(base, ast.Name) and base.id in (names | {name}):
                continue
            allocs.append(v)
        if not allocs:
            raise AnalysisError(f"get_inert_ratio_prnc: allocation of "
                                f"`{name}` not found")
        for v in allocs:
            for c in ast.walk(v):
                if isinstance(c, ast.Call):
                    if is_f32(kwarg(c, "dtype")) or any(
                            is_f32(x) for x in c.args[1:]) or (
                            last_attr(c) == "astype" and c.args
                            and is_f32(c.args[0])) or call_name(c) in F32:
                        ok = True
        if not ok:
            stores = [a for a in walk(fn) if isinstance(a, ast.Assign)
                      and any(isinstance(t, ast.Subscript) and isinstance(
                          t.value, ast.Name) and t.value.id == name
                          for t in a.targets)]
            ok = bool(stores) and all(
                isinstance(a.value, ast.Call) and (
                    call_name(a.value) in F32 or call_name(a.value) in (
                        "max", "np.maximum", "np.fmax")) for a in stores)
        if not ok:
            why[name] = short(allocs[0], 50)
    ctx.ob("R18.7", not why,
           "the principal inertia ratio is stored in single precision "
           "(values of isotropic shapes round to exactly 1)" if not why else
           f"the result `{sorted(why)[0]}` is allocated as "
           f"`{why[sorted(why)[0]]}` and the stored ratio is neither "
           f"rounded to float32 nor clamped: sqrt(mu20/mu02) of isotropic "
           f"shapes comes out as 1 - 1e-9 and the ratio is no longer at "
           f"least one (the returned values also differ bitwise from the "
           f"documented float32 result)",
           node=fn, key=f"{INERT}::get_inert_ratio_prnc::single precision "
           f"result (ratio >= 1)")


def r187(ctx, repo):
    fn = normalised(repo, INERT, "cont_moments_cv")
    fa = _moment_fold(repo, fn)
    env, nodes = {}, {}
    for need in A_NAMES:
        d = fa.defs.get(need, [])
        if len(d) != 1:
            raise AnalysisError(f"cont_moments_cv: polynomial {need} could "
                                f"not be folded")
        env[need] = fa.value(need)
        nodes[need] = d[0]
        if not _symbols(env[need]) <= {"x0", "y0", "x1", "y1"}:
            raise AnalysisError(
                f"cont_moments_cv: {need} depends on "
                f"{sorted(_symbols(env[need]) - {'x0', 'y0', 'x1', 'y1'})}")
    pairs = [("a00", "a00"), ("a10", "a01"), ("a20", "a02"), ("a11", "a11"),
             ("a30", "a03"), ("a21", "a12")]
    for a, b in pairs:
        ok = (-_swap(env[a])).same(env[b])
        ctx.ob("R18.7", ok,
               f"{b} is the x<->y image of {a} (up to the orientation sign)"
               if ok else
               f"{b} is not the x<->y image of {a}: exchanging the axes "
               f"does not exchange the moments", node=nodes[b],
               key=f"{INERT}::cont_moments_cv::axis symmetry {a}/{b}")
    # Green's theorem for the two lowest orders (definition of area and
    # first moment): a00 = sum(x1*y0 - x0*y1), a10 = sum(dxy*(x1+x0))
    x0, y0, x1, y1 = (Rat(Poly.sym(s)) for s in ("x0", "y0", "x1", "y1"))
    dxy = x1 * y0 - x0 * y1
    ok = env["a00"].same(dxy) and env["a10"].same(dxy * (x1 + x0)) \
        and env["a20"].same(dxy * (x1 * x1 + x1 * x0 + x0 * x0))
    ctx.ob("R18.7", ok, "a00, a10, a20 are the Green's theorem sums of the "
           "area and the x-moments" if ok else "a00 / a10 / a20 differ from "
           "the Green's theorem polynomials", node=nodes["a00"],
           key=f"{INERT}::cont_moments_cv::green sums")
    # scale constants: m_pq = a_pq * c_pq * SIGN
    entries = {}
    md = None
    for c in walk(fn):
        if isinstance(c, ast.Call) and call_name(c) == "dict" and any(
                k.arg == "m00" for k in c.keywords):
            md = c
            entries.update({k.arg: k.value for k in c.keywords if k.arg})
        elif isinstance(c, ast.Dict) and any(const_str(k) == "m00"
                                             for k in c.keys if k):
            md = c
            entries.update({const_str(k): v for k, v in zip(c.keys, c.values)
                            if k is not None and const_str(k)})
    if md is None:
        raise AnalysisError("cont_moments_cv: moment dict lost")
    want = {"m00": ("a00", Fraction(1, 2)), "m10": ("a10", Fraction(1, 6)),
            "m01": ("a01", Fraction(1, 6)), "m20": ("a20", Fraction(1, 12)),
            "m11": ("a11", Fraction(1, 24)), "m02": ("a02", Fraction(1, 12)),
            "m30": ("a30", Fraction(1, 20)), "m21": ("a21", Fraction(1, 60)),
            "m12": ("a12", Fraction(1, 60)), "m03": ("a03", Fraction(1, 20))}
    fm = _moment_fold(repo, fn, stop=A_NAMES)
    sign = Rat(Poly.sym("SIGN"))
    got, scale_ok, sign_ok = {}, {}, {}
    for k, (a, cst) in want.items():
        if k not in entries:
            raise AnalysisError(f"cont_moments_cv: moment {k} lost")
        r = fm.rat(entries[k])
        plain = Rat(Poly.sym(a)) * Rat(Poly.const(cst))
        got[k] = r
        sign_ok[k] = r.same(plain * sign)
        scale_ok[k] = sign_ok[k] or r.same(plain) or r.same(-plain) \
            or r.same(-(plain * sign))

    def show(k):
        m_ = got[k].monomial()
        if m_ is None:
            return txt(entries[k])
        return " * ".join([str(m_[1])] + [f"{s_}^{e}" if e != 1 else s_
                                          for s_, e in sorted(m_[0].items())])
    for a, b in (("m10", "m01"), ("m20", "m02"), ("m30", "m03"),
                 ("m21", "m12"), ("m11", "m11"), ("m00", "m00")):
        ok = scale_ok[a] and scale_ok[b]
        ctx.ob("R18.7", ok, f"{a} and {b} scale their sums by 1/"
               f"{want[a][1].denominator}" if ok else
               f"{a} = {show(a)}, {b} = {show(b)}; expected "
               f"{want[a][0]} / {want[a][1].denominator} and "
               f"{want[b][0]} / {want[b][1].denominator}", node=md,
               key=f"{INERT}::cont_moments_cv::scale {a}/{b}")
    # sign flip for negative orientation covers every constant
    miss = sorted(k for k in want if scale_ok[k] and not sign_ok[k])
    ctx.ob("R18.7", not miss, "a clockwise contour flips the sign of every "
           "moment" if not miss else f"the orientation sign is not applied "
           f"to {miss}", node=md,
           key=f"{INERT}::cont_moments_cv::orientation sign of constants")
    # central moments
    mu = {}
    cxy = {}
    for s in walk(fn):
        if isinstance(s, ast.Assign) and isinstance(
                s.targets[0], ast.Subscript) and txt(
                s.targets[0].value) == "m":
            mu[const_str(s.targets[0].slice)] = s
        if isinstance(s, ast.Assign) and isinstance(
                s.targets[0], ast.Name) and s.targets[0].id in ("cx", "cy"):
            v = s.value
            if isinstance(v, ast.IfExp):
                # m10/m00 if <area> else 0 (or mirrored)
                alts = [x for x in (v.body, v.orelse)
                        if not isinstance(x, ast.Constant)]
                if len(alts) != 1:
                    raise AnalysisError("cont_moments_cv: conditional centre "
                                        "of gravity not recognised")
                v = alts[0]
            if isinstance(v, ast.BinOp):
                cxy[s.targets[0].id] = v
    if set(cxy) != {"cx", "cy"}:
        raise AnalysisError("cont_moments_cv: centre of gravity lost")
    # OpenCV's contourMoments: the area test uses FLT_EPSILON, the guard of
    # the centre of gravity DBL_EPSILON (both are parameters here)
    guards = []
    for s_ in walk(fn):
        if isinstance(s_, ast.Assign) and isinstance(
                s_.targets[0], ast.Name) and s_.targets[0].id in (
                "cx", "cy") and not isinstance(s_.value, ast.Constant):
            g = None
            if isinstance(s_.value, ast.IfExp):
                g = s_.value.test
            else:
                par, child = s_.parent, s_
                while par is not None and not isinstance(
                        par, ast.FunctionDef):
                    if isinstance(par, ast.If) and any(
                            child is x for x in par.body) and "m00" in txt(
                            par.test):
                        g = par.test
                        break
                    child, par = par, getattr(par, "parent", None)
            if g is not None:
                guards.append(ast.parse(expand_locals(fn, g, depth=3),
                                        mode="eval").body)
    if guards:
        eps = set().union(*[names_in(g) for g in guards]) & {
            "flt_epsilon", "dbl_epsilon"}
        ok = eps == {"dbl_epsilon"}
        ctx.ob("R18.7", ok,
               "the centre of gravity is guarded with the double-precision "
               "epsilon (as in OpenCV)" if ok else
               f"the guard of the centre of gravity `{txt(guards[0])}` uses "
               f"{sorted(eps) or 'no epsilon'}: contours with an area "
               f"between DBL_EPSILON and FLT_EPSILON get cx = cy = 0 and "
               f"wrong central moments (OpenCV: m00 > DBL_EPSILON)",
               node=fn, key=f"{INERT}::cont_moments_cv::centroid guard "
               f"epsilon")
    menv = {}

    def mres(e):
        if isinstance(e, ast.Subscript) and txt(e.value) == "m":
            k = const_str(e.slice)
            return menv.get(k, k)
        if isinstance(e, ast.Name) and e.id in ("cx", "cy"):
            return ratfun(cxy[e.id], mres)
        return None
    order = ["mu20", "mu11", "mu02", "mu30", "mu21", "mu12", "mu03"]
    for k in order:
        if k not in mu:
            raise AnalysisError(f"cont_moments_cv: {k} lost")
        menv[k] = ratfun(mu[k].value, mres)

    def flip(s):
        if s[:2] == "mu" and len(s) == 4:
            return "mu" + s[3] + s[2]
        if s[:1] == "m" and len(s) == 3:
            return "m" + s[2] + s[1]
        return s
    table = {}
    for k in list(want) + order:
        table[k] = flip(k)
    for a, b in (("mu20", "mu02"), ("mu11", "mu11"), ("mu30", "mu03"),
                 ("mu21", "mu12")):
        ok = _swap(menv[a], table).same(menv[b])
        ctx.ob("R18.7", ok, f"{b} is defined as the index-swapped {a}"
               if ok else f"{b} is not the index-swapped definition of {a}",
               node=mu[b], key=f"{INERT}::cont_moments_cv::central "
               f"moments {a}/{b}")
    m = {k: Rat(Poly.sym(k)) for k in want}
    ok = menv["mu20"].same(m["m20"] - m["m10"] * m["m10"] / m["m00"]) \
        and menv["mu11"].same(m["m11"] - m["m10"] * m["m01"] / m["m00"])
    ctx.ob("R18.7", ok, "mu20 = m20 - m10^2/m00 and mu11 = m11 - m10*m01/"
           "m00" if ok else "second central moments differ from their "
           "definition", node=mu["mu20"],
           key=f"{INERT}::cont_moments_cv::central moment definition")
    _prnc_float32(ctx, repo)
    # ratios
    for q in ("get_inert_ratio_raw", "get_inert_ratio_prnc"):
        f = repo.func(INERT, q)
        sq = [c for c in find_calls(f, name="np.sqrt") if "mu20" in txt(c)
              and "mu02" in txt(c)]
        ok = bool(sq) and isinstance(sq[0].args[0], ast.BinOp) and isinstance(
            sq[0].args[0].op, ast.Div) and "mu20" in txt(
            sq[0].args[0].left) and "mu02" in txt(sq[0].args[0].right)
        ctx.ob("R18.7", ok, "ratio is sqrt(mu20 / mu02)" if ok else
               "inertia ratio is not sqrt(mu20/mu02)", node=sq[0] if sq
               else f, label="ratio sqrt(mu20/mu02)")


# ----------------------------------------------------------------------
# R18.8 ownership: in-place updates act on fresh allocations only

FEATURE_FILES = ["dclab/features/contour.py", VOL, INERT, BRIGHT, BC, PERC,
                 CT]
FRESH_CALLS = {"np.copy", "np.zeros", "np.ones", "np.empty", "np.full",
               "np.zeros_like", "np.ones_like", "np.empty_like",
               "np.full_like", "np.arange", "np.linspace", "np.resize",
               "np.roll", "np.stack", "np.concatenate", "np.diff",
               "np.where", "np.unwrap", "np.sqrt", "np.cos", "np.sin",
               "np.arctan2", "np.abs", "np.round", "np.prod", "np.sum",
               "np.mean", "np.std", "np.percentile", "np.isin", "np.unique",
               "dict", "list", "deque", "sorted", "set", "range"}
VIEW_CALLS = {"np.asarray", "np.asanyarray", "np.atleast_1d",
              "np.atleast_2d", "np.ravel", "np.reshape", "np.squeeze",
              "np.transpose", "np.ascontiguousarray", "np.asfarray",
              "np.require"}
VIEW_METHODS = {"view", "reshape", "ravel", "squeeze", "transpose",
                "swapaxes", "T"}


def _falsy_copy(call):
    c = kwarg(call, "copy")
    return c is not None and not (isinstance(c, ast.Constant)
                                  and c.value is True)


def r188(ctx, repo):
    n_mut = 0
    for rel in FEATURE_FILES:
        for q, fn in repo.all_functions(rel):
            a = fn.args
            params = {x.arg for x in a.args + a.kwonlyargs
                      if x.arg not in ("self", "cls")}
            defs = {}
            for n in walk(fn):
                if isinstance(n, ast.Assign):
                    for t in n.targets:
                        if isinstance(t, ast.Name):
                            defs.setdefault(t.id, []).append(n.value)
                        elif isinstance(t, (ast.Tuple, ast.List)):
                            for e in t.elts:
                                if isinstance(e, ast.Name):
                                    defs.setdefault(e.id, []).append(
                                        ("unpack", n.value))
                elif isinstance(n, ast.For):
                    for b in _bound(n.target):
                        defs.setdefault(b, []).append(("iter", n.iter))

            def shares(e, seen=()):
                """may `e` share memory with an argument of the function?
                -> description of the path or None"""
                if isinstance(e, tuple):
                    kind, v = e
                    if kind == "iter":
                        return shares(v, seen)
                    return None          # results of other functions
                if isinstance(e, ast.Name):
                    if e.id in seen:
                        return None
                    if e.id in params and e.id not in defs:
                        return f"the argument `{e.id}`"
                    hits = [shares(v, seen + (e.id,))
                            for v in defs.get(e.id, [])]
                    if e.id in params:
                        hits.append(f"the argument `{e.id}`")
                    hits = [h for h in hits if h]
                    return hits[0] if hits else None
                if isinstance(e, ast.Subscript):
                    h = shares(e.value, seen)
                    return h and f"an element/view of {h}"
                if isinstance(e, (ast.List, ast.Tuple)):
                    hs = [shares(x, seen) for x in e.elts]
                    hs = [h for h in hs if h]
                    return hs[0] if hs else None
                if isinstance(e, ast.Attribute) and e.attr in VIEW_METHODS:
                    return shares(e.value, seen)
                if isinstance(e, ast.Call):
                    cn = call_name(e) or ""
                    if cn in ("np.array",):
                        if _falsy_copy(e) and e.args:
                            h = shares(e.args[0], seen)
                            return h and f"np.array(copy=False) of {h}"
                        return None
                    if cn in VIEW_CALLS and e.args:
                        h = shares(e.args[0], seen)
                        return h and f"{cn}() of {h} (no copy when the " \
                            f"type already matches)"
                    if isinstance(e.func, ast.Attribute):
                        if e.func.attr in VIEW_METHODS:
                            return shares(e.func.value, seen)
                        if e.func.attr == "astype" and _falsy_copy(e):
                            return shares(e.func.value, seen)
                    return None
                return None      # arithmetic, constants, comprehensions

            muts = []
            for n in walk(fn):
                if isinstance(n, ast.AugAssign):
                    muts.append((n, n.target))
                elif isinstance(n, ast.Assign):
                    for t in n.targets:
                        for e in (t.elts if isinstance(
                                t, (ast.Tuple, ast.List)) else [t]):
                            if isinstance(e, ast.Subscript):
                                muts.append((n, e))
                elif isinstance(n, ast.Call):
                    o = kwarg(n, "out")
                    if o is not None:
                        muts.append((n, o))
                    if isinstance(n.func, ast.Attribute) and n.func.attr in (
                            "sort", "fill", "resize", "itemset", "put",
                            "partition", "setfield", "byteswap") \
                            and not n.keywords and not (
                                isinstance(n.func.value, ast.Name)
                                and n.func.value.id in ("np", "numpy")):
                        muts.append((n, n.func.value))
            per_base = {}
            for node, target in muts:
                base = target
                while isinstance(base, ast.Subscript):
                    base = base.value
                if not isinstance(base, ast.Name):
                    continue
                if isinstance(target, ast.Name) and isinstance(
                        node, ast.AugAssign):
                    vals = defs.get(target.id, [])
                    if vals and all(isinstance(v, ast.Constant)
                                    for v in vals):
                        continue       # rebinding of a scalar
                n_mut += 1
                per_base.setdefault(base.id, []).append((node, base))
            for name, items in per_base.items():
                h = shares(items[0][1])
                node = items[0][0]
                ctx.ob("R18.8", h is None,
                       f"{len(items)} in-place update(s) of `{name}` act on "
                       f"an array that {q} allocated itself" if h is None
                       else
                       f"`{short(node, 50)}` modifies `{name}` in place, "
                       f"which is {h}: the caller's data are changed "
                       f"(features computed later from the same "
                       f"contour/image differ)", node=node,
                       key=f"{rel}::{q}::in-place update of {name}")
    if n_mut < 10:
        raise AnalysisError("in-place updates of the feature functions not "
                            "found")



# ----------------------------------------------------------------------
# R18.9 single-event inputs are wrapped; availability test = data source

CTC = "dclab/rtdc_dataset/feat_anc_core/af_fl_max_ctc.py"


def _wraps(value, name):
    """is `value` a one-event sequence built from `name`?"""
    if isinstance(value, (ast.List, ast.Tuple)) and len(value.elts) == 1 \
            and isinstance(value.elts[0], ast.Name) \
            and value.elts[0].id == name:
        return True
    if isinstance(value, ast.Call) and call_name(value) in (
            "np.array", "np.asarray", "np.atleast_1d", "np.atleast_2d",
            "np.atleast_3d", "np.expand_dims", "list") and value.args:
        a = value.args[0]
        if isinstance(a, ast.Name) and a.id == name and call_name(
                value) not in ("np.array", "np.asarray", "list"):
            return True
        return _wraps(a, name)
    if isinstance(value, ast.Subscript) and isinstance(
            value.value, ast.Name) and value.value.id == name and txt(
            value.slice).replace("(", "").replace(")", "") in (
            "np.newaxis", "None", "np.newaxis, ...", "None, ...",
            "np.newaxis, :", "None, :"):
        return True
    return False


def _wrapped_in(stmts, params):
    out = set()
    for st in stmts:
        for n in walk(st):
            if not isinstance(n, ast.Assign):
                continue
            for t in n.targets:
                if isinstance(t, ast.Name) and t.id in params and _wraps(
                        n.value, t.id):
                    out.add(t.id)
                elif isinstance(t, (ast.Tuple, ast.List)) and isinstance(
                        n.value, (ast.Tuple, ast.List)) and len(
                        t.elts) == len(n.value.elts):
                    for te, ve in zip(t.elts, n.value.elts):
                        if isinstance(te, ast.Name) and te.id in params \
                                and _wraps(ve, te.id):
                            out.add(te.id)
    return out


class NPScalar:
    """numpy scalar that is not a subclass of a python number (np.float32,
    np.int64, np.uint8, ...)"""
    _strict_attrs = True

    def __init__(self, name):
        self.name = name
        self.ndim = 0
        self.shape = ()

    def __repr__(self):
        return f"np.{self.name}(…)"


class NPFloat64(float):
    """np.float64 is a subclass of python float"""


def r189_scalar(ctx, repo):
    """get_volume decides between one event and a list of events by a scalar
    test on the centroid: every kind of scalar a dataset hands out (python
    numbers, np.float64, but also np.float32 / integer numpy scalars) must
    take the single-event branch, arrays and lists the other one"""
    fn = normalised(repo, VOL, "get_volume")
    a = fn.args
    params = {x.arg for x in a.args + a.kwonlyargs}
    br = [n for n in walk(fn) if isinstance(n, ast.If)
          and "cont" in _wrapped_in(n.body, params)]
    if not br:
        raise AnalysisError("get_volume: single-event branch not found")
    test = br[0].test
    if not names_in(test) & params:
        # named condition: `single = np.isscalar(pos_x)` ... `if single:`
        test = ast.parse(expand_locals(fn, test, depth=4), mode="eval").body
    tparams = sorted(names_in(test) & params)
    if not tparams:
        ctx.note("R18.9: the single-event test of get_volume does not read a "
                 "parameter directly; scalar-type table not evaluated")
        return
    it = L.Interp(repo)
    np_ = L.NPModel()
    base_isscalar = np_.isscalar
    np_.isscalar = lambda v: isinstance(v, NPScalar) or base_isscalar(v)
    np_.ndim = lambda v: 0 if isinstance(v, (NPScalar, int, float)) else 1
    np_.generic = L.ModelType("np.generic", lambda o: isinstance(
        o, (NPScalar, NPFloat64)))
    np_.number = np_.generic
    np_.floating = L.ModelType("np.floating", lambda o: isinstance(
        o, NPFloat64) or (isinstance(o, NPScalar) and o.name.startswith(
            "float")))
    np_.integer = L.ModelType("np.integer", lambda o: isinstance(
        o, NPScalar) and "int" in o.name)
    numbers_ = L.namespace(
        "numbers",
        Number=L.ModelType("numbers.Number", lambda o: isinstance(
            o, (int, float, NPScalar)) and not isinstance(o, bool)),
        Real=L.ModelType("numbers.Real", lambda o: isinstance(
            o, (int, float, NPScalar)) and not isinstance(o, bool)),
        Integral=L.ModelType("numbers.Integral", lambda o: isinstance(
            o, int) or (isinstance(o, NPScalar) and "int" in o.name)))
    env = it.env(VOL, {"np": np_, "numbers": numbers_})
    cases = [("python float", 1.5, True), ("python int", 2, True),
             ("np.float64", NPFloat64(1.5), True),
             ("np.float32", NPScalar("float32"), True),
             ("np.float16", NPScalar("float16"), True),
             ("np.int64", NPScalar("int64"), True),
             ("np.uint16", NPScalar("uint16"), True),
             ("1-d array", L.Arr([1.5, 2.5]), False),
             ("list", [1.5, 2.5], False)]
    bad = None
    try:
        for name, val, want in cases:
            loc_ = {p_: val for p_ in params}
            res = L.run(lambda: bool(it.truth(
                it.eval(test, L.Frame(env, loc_)), test)))
            if res != ("ok", want) and bad is None:
                bad = (name, res, want)
    except AnalysisError as e:
        ctx.note(f"R18.9: the single-event test of get_volume could not be "
                 f"evaluated on the scalar table ({e})")
        return
    ctx.ob("R18.9", bad is None,
           f"`{short(test, 50)}` takes the single-event branch for every "
           f"scalar type ({len(cases)} kinds of input)" if bad is None else
           f"single-event test `{short(test, 50)}` gives "
           f"{bad[1][1] if bad[1][0] == 'ok' else bad[1]} for a centroid "
           f"given as {bad[0]} (expected {bad[2]}): the single contour is "
           f"not wrapped, the result is nan / an error although "
           f"{tparams[0]} is a scalar", node=br[0],
           key=f"{VOL}::get_volume::single-event test accepts every scalar "
           f"type")


def r189(ctx, repo):
    n_fn = 0
    for rel in FEATURE_FILES:
        for q, f0 in repo.all_functions(rel):
            if "." in q:
                continue
            fn = normalised(repo, rel, q)
            a = fn.args
            params = {x.arg for x in a.args + a.kwonlyargs}
            branches = [n for n in walk(fn) if isinstance(n, ast.If)
                        and _wrapped_in(n.body, params)]
            if not branches:
                continue
            br = branches[0]
            wrapped = _wrapped_in(br.body, params)
            # unconditional promotion to 1-d also counts
            always = set()
            for st in fn.body:
                if isinstance(st, ast.Assign):
                    always |= {t.id for t in st.targets if isinstance(
                        t, ast.Name) and t.id in params and isinstance(
                        st.value, ast.Call) and call_name(st.value) in (
                        "np.atleast_1d",) and st.value.args and txt(
                        st.value.args[0]) == t.id}
            indexed = {}
            for lp in walk(fn):
                if isinstance(lp, ast.For) and isinstance(
                        lp.target, ast.Name):
                    v = lp.target.id
                    for n in walk(lp):
                        if isinstance(n, ast.Subscript) and isinstance(
                                n.value, ast.Name) and n.value.id in params \
                                and isinstance(n.slice, ast.Name) \
                                and n.slice.id == v:
                            indexed.setdefault(n.value.id, n)
            if not indexed:
                continue
            n_fn += 1
            miss = sorted(set(indexed) - wrapped - always)
            ctx.ob("R18.9", not miss,
                   f"every per-event input indexed by the event loop "
                   f"({', '.join(sorted(indexed))}) is wrapped for a single "
                   f"event" if not miss else
                   f"for a single event {sorted(wrapped)} are wrapped into "
                   f"one-element sequences but `{miss[0]}` is not, although "
                   f"the loop reads `{txt(indexed[miss[0]])}`: the first "
                   f"*row* of the single {miss[0]} is taken for the event "
                   f"(silently broadcast)", node=br,
                   key=f"{rel}::{q}::single-event inputs wrapped")
    if n_fn < 6:
        raise AnalysisError("single-event branches of the feature functions "
                            "not found")
    # crosstalk recipe: the availability test and the read use one source
    fn = repo.func(CTC, "compute_ctc")
    n_t = 0
    for n in walk(fn):
        if not isinstance(n, ast.If):
            continue
        t = n.test
        if not (isinstance(t, ast.Compare) and len(t.ops) == 1 and isinstance(
                t.ops[0], ast.In) and const_str(t.left)):
            continue
        feat = const_str(t.left)
        reads = [x for st in n.body for x in ast.walk(st)
                 if isinstance(x, ast.Subscript) and const_str(x.slice)
                 == feat]
        if not reads:
            continue
        n_t += 1
        src = t.comparators[0]
        def origin(e, depth=3):
            """local aliases expanded"""
            while depth and isinstance(e, ast.Name):
                defs = [st.value for st in walk(fn) if isinstance(
                    st, ast.Assign) and any(isinstance(tt, ast.Name)
                                            and tt.id == e.id
                                            for tt in st.targets)]
                if len(defs) != 1:
                    break
                e = defs[0]
                depth -= 1
            return e
        src = origin(src)
        ok = all(txt(origin(r.value)) == txt(src) for r in reads)
        ctx.ob("R18.9", ok,
               f"'{feat}' is read from the object whose membership was "
               f"tested" if ok else
               f"'{feat}' is tested with `in {txt(src)}` but read from "
               f"`{txt(reads[0].value)}`: a channel that is available there "
               f"(temporary, basin) but not in `{txt(src)}` enters the "
               f"compensation as 0", node=n,
               key=f"{CTC}::compute_ctc::availability of {feat} = source")
    if n_t < 3:
        raise AnalysisError("compute_ctc: channel availability tests lost")



# ----------------------------------------------------------------------
# R18.10 event-wise accessors of the tdms columns: an array that the accessor
# fills in place and returns is allocated in that call

TDMS_COLUMNS = ["dclab/rtdc_dataset/fmt_tdms/event_mask.py",
                "dclab/rtdc_dataset/fmt_tdms/event_image.py",
                "dclab/rtdc_dataset/fmt_tdms/event_contour.py",
                "dclab/rtdc_dataset/fmt_tdms/event_trace.py"]
MODULE_NAMES = {"np", "numpy", "ndi", "True", "False", "None"}


def _local_defs(fn):
    defs = {}
    for n in walk(fn):
        if isinstance(n, ast.Assign):
            for t in n.targets:
                if isinstance(t, ast.Name):
                    defs.setdefault(t.id, []).append(n.value)
                elif isinstance(t, (ast.Tuple, ast.List)):
                    for e in t.elts:
                        if isinstance(e, ast.Name):
                            defs.setdefault(e.id, []).append(
                                ("unpack", n.value))
        elif isinstance(n, (ast.AnnAssign, ast.NamedExpr)) and isinstance(
                n.target, ast.Name) and n.value is not None:
            defs.setdefault(n.target.id, []).append(n.value)
        elif isinstance(n, ast.For):
            for b in _bound(n.target):
                defs.setdefault(b, []).append(("iter", n.iter))
        elif isinstance(n, (ast.With,)):
            for it_ in n.items:
                if it_.optional_vars is not None:
                    for b in _bound(it_.optional_vars):
                        defs.setdefault(b, []).append(("unpack",
                                                       it_.context_expr))
        elif isinstance(n, ast.ExceptHandler) and n.name:
            defs.setdefault(n.name, []).append(("unpack", n))
    return defs


def _inplace_updates(fn):
    """(node, target expression) of every in-place update in `fn`"""
    muts = []
    for n in walk(fn):
        if isinstance(n, ast.AugAssign):
            muts.append((n, n.target))
        elif isinstance(n, ast.Assign):
            for t in n.targets:
                for e in (t.elts if isinstance(t, (ast.Tuple, ast.List))
                          else [t]):
                    if isinstance(e, ast.Subscript):
                        muts.append((n, e))
        elif isinstance(n, ast.Call):
            for kw in ("out", "output"):
                o = kwarg(n, kw)
                if o is not None and not isinstance(o, ast.Constant):
                    muts.append((n, o))
            if isinstance(n.func, ast.Attribute) and n.func.attr in (
                    "sort", "fill", "resize", "itemset", "put", "partition",
                    "setfield", "byteswap") and not (
                        isinstance(n.func.value, ast.Name)
                        and n.func.value.id in ("np", "numpy")):
                muts.append((n, n.func.value))
    return muts


def _obj_of(desc):
    return desc.split("`")[1] if desc and "`" in desc else None


def _accessor_analysis(repo, rel, fn, cls, argmap, depth=0):
    """-> (persistent objects the return values may share memory with,
    [(node, base text, persistence or None)] in-place updates) of `fn` and
    of the same-module helpers / same-class methods it delegates to;
    `argmap`: parameter -> persistence description of the caller's argument"""
    if depth > 3:
        raise AnalysisError(f"{rel}: accessor helpers nested deeper than 3")
    a = fn.args
    params = [x.arg for x in a.posonlyargs + a.args + a.kwonlyargs]
    defs = _local_defs(fn)
    modfuncs = {st.name: st for st in repo.tree(rel).body
                if isinstance(st, ast.FunctionDef)}
    methods = {st.name: st for st in (cls.body if cls is not None else [])
               if isinstance(st, ast.FunctionDef)}
    selfname = params[0] if cls is not None and params and not any(
        txt(d) == "staticmethod" for d in fn.decorator_list) else None
    sub = {}
    muts = []

    def helper_of(call):
        f = call.func
        if isinstance(f, ast.Name) and f.id in modfuncs and f.id not in defs:
            return modfuncs[f.id], None, 0
        if isinstance(f, ast.Attribute) and isinstance(f.value, ast.Name) \
                and f.value.id == selfname and f.attr in methods:
            return methods[f.attr], cls, 1
        return None

    def persists(e, seen=()):
        if isinstance(e, tuple):
            return persists(e[1], seen) if e[0] == "iter" else None
        if isinstance(e, ast.Name):
            if e.id in seen or e.id in MODULE_NAMES:
                return None
            if e.id not in defs:
                if e.id in params:
                    return argmap.get(e.id)
                return f"the module-level object `{e.id}`"
            hits = [persists(v, seen + (e.id,)) for v in defs[e.id]]
            if e.id in params:
                hits.append(argmap.get(e.id))
            hits = [h for h in hits if h]
            return hits[0] if hits else None
        if isinstance(e, ast.Attribute):
            if isinstance(e.value, ast.Name) and e.value.id == selfname \
                    and selfname is not None:
                return f"the instance attribute `self.{e.attr}`"
            return persists(e.value, seen)
        if isinstance(e, ast.Subscript):
            h = persists(e.value, seen)
            return h and (h if h.startswith("an element/view") else
                          f"an element/view of {h}")
        if isinstance(e, ast.IfExp):
            return persists(e.body, seen) or persists(e.orelse, seen)
        if isinstance(e, ast.BoolOp):
            hs = [h for h in (persists(v, seen) for v in e.values) if h]
            return hs[0] if hs else None
        if isinstance(e, ast.NamedExpr):
            return persists(e.value, seen)
        if isinstance(e, ast.Call):
            if id(e) in sub:
                r = sub[id(e)]
                return r[0] if r else None
            cn = call_name(e) or ""
            if cn == "np.array":
                if _falsy_copy(e) and e.args:
                    return persists(e.args[0], seen)
                return None
            if cn in VIEW_CALLS and e.args:
                return persists(e.args[0], seen)
            if cn == "getattr" and e.args:
                return persists(ast.Attribute(value=e.args[0], attr="?",
                                              ctx=ast.Load()), seen)
            if isinstance(e.func, ast.Attribute):
                if e.func.attr in VIEW_METHODS:
                    return persists(e.func.value, seen)
                if e.func.attr == "astype" and _falsy_copy(e):
                    return persists(e.func.value, seen)
                if e.func.attr in ("setdefault", "get"):
                    return persists(e.func.value, seen)
            return None      # result of an external call: new or unknown
        return None

    # delegation: helpers are analysed with the persistence of the arguments
    for c in walk(fn):
        if not isinstance(c, ast.Call):
            continue
        h = helper_of(c)
        if h is None:
            continue
        hfn, hcls, skip = h
        ha = hfn.args
        hparams = [x.arg for x in ha.posonlyargs + ha.args]
        if any(isinstance(x, ast.Starred) for x in c.args) or any(
                k.arg is None for k in c.keywords):
            raise AnalysisError(f"{rel}: `{txt(c)[:50]}` passes */** "
                                f"arguments to an accessor helper")
        amap = {}
        for pname, arg in zip(hparams[skip:], c.args):
            amap[pname] = persists(arg)
        for k in c.keywords:
            amap[k.arg] = persists(k.value)
        rets, hm = _accessor_analysis(repo, rel, hfn, hcls, amap, depth + 1)
        sub[id(c)] = rets
        muts += hm

    for node, target in _inplace_updates(fn):
        base = target
        while isinstance(base, ast.Subscript):
            base = base.value
        if isinstance(target, ast.Name) and isinstance(node, ast.AugAssign):
            vals = defs.get(target.id, [])
            if vals and all(isinstance(v, ast.Constant) for v in vals):
                continue       # rebinding of a scalar
        muts.append((node, txt(base), persists(base)))
    rets = [h for h in (persists(r.value) for r in walk(fn)
                        if isinstance(r, ast.Return) and r.value is not None)
            if h]
    return rets, muts


def r1810(ctx, repo):
    n_acc = 0
    for rel in TDMS_COLUMNS:
        for q, fn in repo.all_functions(rel):
            if fn.name != "__getitem__" or "." not in q:
                continue
            cls = fn.parent if isinstance(getattr(fn, "parent", None),
                                          ast.ClassDef) else None
            if cls is None:
                continue
            n_acc += 1
            rets, muts = _accessor_analysis(repo, rel, fn, cls, {})
            handed_out = {_obj_of(r) for r in rets}
            per_base = {}
            for node, name, h in muts:
                per_base.setdefault(name, []).append((node, h))
            for name, items in per_base.items():
                hs = [(n_, h) for n_, h in items if h is not None
                      and _obj_of(h) in handed_out]
                node, h = hs[0] if hs else items[0]
                ctx.ob("R18.10", not hs,
                       f"{len(items)} in-place update(s) of `{name}` in {q} "
                       f"(and its helpers) act on an array allocated in "
                       f"this call or on a buffer that is not handed out"
                       if not hs else
                       f"`{short(node, 50)}` fills `{name}` in place, which "
                       f"is {h}, and {q} returns it: every call hands out "
                       f"the same array and the next call overwrites the "
                       f"data returned before (masks / images of two events "
                       f"alive at the same time are identical)", node=node,
                       key=f"{rel}::{q}::in-place update of {name}")
    if n_acc < 4:
        raise AnalysisError("event-wise accessors (__getitem__) of the tdms "
                            "columns not found")


# ----------------------------------------------------------------------
# R18.11 version predicates of feat_defect.py on a table of PEP 440 versions

FDEFECT = "dclab/rtdc_dataset/fmt_hdf5/feat_defect.py"
_V_RE = re.compile(
    r"^\s*v?(?:(?P<epoch>[0-9]+)!)?(?P<release>[0-9]+(?:\.[0-9]+)*)"
    r"(?P<pre>[-_\.]?(?P<pre_l>alpha|a|beta|b|preview|pre|c|rc)[-_\.]?"
    r"(?P<pre_n>[0-9]+)?)?"
    r"(?P<post>(?:-(?P<post_n1>[0-9]+))|(?:[-_\.]?(?P<post_l>post|rev|r)"
    r"[-_\.]?(?P<post_n2>[0-9]+)?))?"
    r"(?P<dev>[-_\.]?(?P<dev_l>dev)[-_\.]?(?P<dev_n>[0-9]+)?)?"
    r"(?:\+(?P<local>[a-z0-9]+(?:[-_\.][a-z0-9]+)*))?\s*$", re.I)
_NEG, _POS = (0,), (2,)


def pep440_key(v):
    """ordering key of a PEP 440 version string (the analyser's model of
    packaging.version.Version._key)"""
    m = _V_RE.match(v)
    if m is None:
        raise AnalysisError(f"version model: cannot parse '{v}'")
    rel = [int(x) for x in m.group("release").split(".")]
    while len(rel) > 1 and rel[-1] == 0:
        rel.pop()
    pre = post = dev = None
    if m.group("pre"):
        letter = {"alpha": "a", "beta": "b", "c": "rc", "pre": "rc",
                  "preview": "rc"}.get(m.group("pre_l").lower(),
                                       m.group("pre_l").lower())
        pre = (letter, int(m.group("pre_n") or 0))
    if m.group("post"):
        post = int(m.group("post_n1") or m.group("post_n2") or 0)
    if m.group("dev"):
        dev = int(m.group("dev_n") or 0)
    if pre is None and post is None and dev is not None:
        kpre = _NEG
    elif pre is None:
        kpre = _POS
    else:
        kpre = (1, pre)
    kpost = _NEG if post is None else (1, post)
    kdev = _POS if dev is None else (1, dev)
    if m.group("local") is None:
        kloc = _NEG
    else:
        kloc = (1, tuple((1, int(p), "") if p.isdigit() else (0, 0, p.lower())
                         for p in re.split(r"[-_\.]", m.group("local"))))
    return (int(m.group("epoch") or 0), tuple(rel), kpre, kpost, kdev, kloc)


def _is_final(v):
    m = _V_RE.match(v)
    return bool(m) and not (m.group("pre") or m.group("post")
                            or m.group("dev") or m.group("local"))


_CMP = {ast.Lt: lambda a, b: a < b, ast.LtE: lambda a, b: a <= b,
        ast.Gt: lambda a, b: a > b, ast.GtE: lambda a, b: a >= b}


def r1811(ctx, repo):
    tree = repo.tree(FDEFECT)
    alias = set()
    for st in tree.body:
        if isinstance(st, ast.ImportFrom) and "packaging" in (st.module or ""):
            for a in st.names:
                if a.name in ("parse", "Version"):
                    alias.add(a.asname or a.name)
    if not alias:
        raise AnalysisError("feat_defect.py: the version parser "
                            "(external.packaging.parse) is not imported")

    def is_parse(e):
        return isinstance(e, ast.Call) and isinstance(e.func, ast.Name) \
            and e.func.id in alias and len(e.args) == 1 and not e.keywords

    n_cmp = 0
    for q, fn in repo.all_functions(FDEFECT):
        defs = _local_defs(fn)

        def resolve(e, depth=0):
            """-> the parse call behind an operand (through
            single-assignment locals)"""
            if isinstance(e, ast.Name) and depth < 4:
                vals = defs.get(e.id, [])
                if len(vals) == 1 and isinstance(vals[0], ast.AST):
                    return resolve(vals[0], depth + 1)
                if not vals:
                    g = repo.module_assign(FDEFECT, e.id, missing_ok=True)
                    if g is not None:
                        return resolve(g, depth + 1)
            return e

        def const_of(call):
            a = resolve(call.args[0])
            return a.value if isinstance(a, ast.Constant) and isinstance(
                a.value, str) else None

        calls = [c for c in walk(fn) if is_parse(c)]
        if not calls:
            continue
        compares = [c for c in walk(fn) if isinstance(c, ast.Compare)
                    and any(is_parse(resolve(o))
                            for o in [c.left] + c.comparators)]
        used = set()
        for c in compares:
            ops = [resolve(o) for o in [c.left] + c.comparators]
            if len(ops) != 2 or not all(is_parse(o) for o in ops) \
                    or type(c.ops[0]) not in _CMP:
                raise AnalysisError(
                    f"feat_defect.{q}: version comparison `{txt(c)}` is not "
                    f"of the form parse(x) <|<=|>|>= parse('X')")
            used.update(id(o) for o in ops)
            consts = [const_of(o) for o in ops]
            if (consts[0] is None) == (consts[1] is None):
                raise AnalysisError(
                    f"feat_defect.{q}: `{txt(c)}` does not compare a file's "
                    f"version with one constant bound")
            bound = consts[0] if consts[0] is not None else consts[1]
            if not _is_final(bound):
                raise AnalysisError(
                    f"feat_defect.{q}: the bound '{bound}' is not a final "
                    f"release")
            op = _CMP[type(c.ops[0])]
            kb = pep440_key(bound)

            def verdict(v):
                kv = pep440_key(v)
                return op(kb, kv) if consts[0] is not None else op(kv, kb)

            def bump(rel, d):
                rel = list(rel)
                if d > 0:
                    rel[-1] += 1
                    return rel
                for i in range(len(rel) - 1, -1, -1):
                    if rel[i] > 0:
                        rel[i] -= 1
                        return rel[:i + 1] + [0] * (len(rel) - i - 1)
                return None

            rel = [int(x) for x in _V_RE.match(bound).group(
                "release").split(".")]
            bad = None
            n_v = 0
            for base in (bump(rel, -1), rel):
                if base is None:
                    continue
                r_ = ".".join(map(str, base))
                nx = ".".join(map(str, bump(base, +1)))
                group = [r_, f"{r_}.post1", f"{r_}.post4",
                         f"{r_}+g1f2e3d4", f"{r_}.post4+g1f2e3d4.d20240101",
                         f"{nx}.dev3", f"{nx}.dev3+g1f2e3d4", f"{nx}a1",
                         f"{nx}b2", f"{nx}rc1"]
                lo, hi = pep440_key(r_), pep440_key(nx)
                for v in group:
                    if not lo <= pep440_key(v) < hi:
                        raise AnalysisError(f"version model: '{v}' is not "
                                            f"between {r_} and {nx}")
                n_v += len(group)
                want = verdict(r_)
                odd = [v for v in group if verdict(v) != want]
                if odd and bad is None:
                    bad = (r_, nx, want, odd)
            n_cmp += 1
            ctx.ob("R18.11", bad is None,
                   f"`{txt(c)}`: the verdict changes only at the release "
                   f"{bound}; post-release, local, development and "
                   f"pre-release builds between two releases get the verdict "
                   f"of the earlier release ({n_v} version strings)"
                   if bad is None else
                   f"`{txt(c)}` is {bad[2]} for the release {bad[0]} but "
                   f"{not bad[2]} for {', '.join(bad[3][:4])}, builds made "
                   f"from the code between {bad[0]} and {bad[1]} (what "
                   f"setuptools_scm stamps on every untagged installation): "
                   f"the stored feature of such files is judged differently "
                   f"from the release it was computed with", node=c,
                   label=f"version bound of {q} moves only at a release")
        loose = [c for c in calls if id(c) not in used]
        if loose:
            raise AnalysisError(
                f"feat_defect.{q}: `{txt(loose[0])}` is not an operand of a "
                f"recognised version comparison")
    if n_cmp < 3:
        raise AnalysisError("feat_defect.py: version comparisons not found")


def run(ctx):
    repo = ctx.repo
    ctx.rule("R18.1", "optional array-valued bg_off is tested with `is (not) "
             "None` in all siblings", minimum=3)
    ctx.rule("R18.2", "signed background subtraction, masked statistics, "
             "offset on location statistics only", minimum=14)
    ctx.rule("R18.3", "every integer / floating contour dtype is 64 bit when "
             "cont_moments_cv reads the coordinates (cast prologue evaluated "
             "on all dtypes)", minimum=3)
    ctx.rule("R18.4", "truncated-cone identity, point_scale**3, pixel "
             "size / centroid handling in get_volume", minimum=10)
    ctx.rule("R18.5", "crosstalk correction inverts the documented "
             "spill-over exactly", minimum=10)
    ctx.rule("R18.6", "r and z of each vol_revolve call follow the same "
             "orientation; the mirrored half is reversed", minimum=4)
    ctx.rule("R18.7", "axis-swap symmetry of contour moments", minimum=20)
    ctx.rule("R18.9", "single-event branch wraps every per-event input the "
             "event loop indexes; crosstalk channels are read from the "
             "object whose membership was tested", minimum=9)
    ctx.rule("R18.8", "in-place updates in the feature functions act on "
             "arrays the function allocated, never on (views of) its "
             "arguments", minimum=8)
    ctx.rule("R18.10", "event-wise accessors of the tdms columns return an "
             "array of their own: what they fill in place and return is "
             "allocated in that call", minimum=2)
    ctx.rule("R18.11", "version predicates of feat_defect.py evaluated on "
             "release / post / local / dev / pre-release strings around "
             "their bound: the verdict moves only at a final release",
             minimum=4)
    r181(ctx, repo)
    r182(ctx, repo)
    r183(ctx, repo)
    r184(ctx, repo)
    r186(ctx, repo)
    r186_eval(ctx, repo)
    r185(ctx, repo)
    r187(ctx, repo)
    r188(ctx, repo)
    r189(ctx, repo)
    r189_scalar(ctx, repo)
    r1810(ctx, repo)
    r1811(ctx, repo)


MUTANTS = [
    ("F18 returns: truthiness test of bg_off in get_bright_perc", PERC,
     ("    if bg_off is not None:\n        p10 -= bg_off",
      "    if bg_off:\n        p10 -= bg_off"), "R18.1"),
    ("bright_bc tests the offset by truth value", BC,
     ("        if bg_off is not None:\n            avg -= bg_off",
      "        if bg_off:\n            avg -= bg_off"), "R18.1"),
    ("bright_bc compares the offset with None by value", BC,
     ("        if bg_off is not None:\n            bg_off = np.atleast_1d",
      "        if bg_off != None:\n            bg_off = np.atleast_1d"),
     "R18.1"),
    ("bright_perc subtracts without the signed cast", PERC,
     ("        imgi = np.array(image[ii], dtype=int) - image_bg[ii]",
      "        imgi = image[ii] - image_bg[ii]"), "R18.2"),
    ("bright_bc casts to an unsigned type", BC,
     ("        imgi = np.array(image[ii], dtype=int) - image_bg[ii]",
      "        imgi = np.array(image[ii], dtype=np.uint8) - image_bg[ii]"),
     "R18.2"),
    ("bright_bc statistic over the whole image", BC,
     ("            std[ii] = np.std(imgi[mski])",
      "            std[ii] = np.std(imgi)"), "R18.2"),
    ("bright_bc offset also applied to the deviation", BC,
     ("    if ret_std:\n        results.append(std)",
      "    if ret_std:\n        if bg_off is not None:\n"
      "            std -= bg_off\n        results.append(std)"), "R18.2"),
    ("bright_perc offset forgotten for the 90th percentile", PERC,
     ("        p10 -= bg_off\n        p90 -= bg_off\n",
      "        p10 -= bg_off\n"), "R18.2"),
    ("bright_perc percentiles swapped", PERC,
     ("q=[10, 90])", "q=[90, 10])"), "R18.2"),
    ("bright uses the mask of another event", BRIGHT,
     ("        mski = mask[ii]\n", "        mski = mask[0]\n"), "R18.2"),
    ("moments: integer contours cast to 32 bit", INERT,
     ("        cont = cont.astype(np.int64)",
      "        cont = cont.astype(np.int32)"), "R18.3"),
    ("moments: integer cast dropped", INERT,
     ("    if np.issubdtype(cont.dtype, np.integer):\n"
      "        cont = cont.astype(np.int64)\n"
      "    elif np.issubdtype(cont.dtype, np.floating):",
      "    if np.issubdtype(cont.dtype, np.floating):"), "R18.3"),
    ("moments: coordinates read before the cast", INERT,
     [("    xi = cont[:, 0]\n    yi = cont[:, 1]\n", ""),
      ("    # Make sure we have 64bit integer or floating point values.\n",
       "    xi = cont[:, 0]\n    yi = cont[:, 1]\n"
       "    # Make sure we have 64bit integer or floating point values.\n")],
     "R18.3"),
    ("volume: square instead of cube scale", VOL,
     ("    vol = np.sum(v) * point_scale ** 3",
      "    vol = np.sum(v) * point_scale ** 2"), "R18.4"),
    ("volume: cone term coefficient", VOL,
     ("    a2 = 3 * rp*dr", "    a2 = 2 * rp*dr"), "R18.4"),
    ("volume: absolute height", VOL,
     ("    v = np.pi / 3 * dz * np.abs(a1 + a2 + a3)",
      "    v = np.pi / 3 * np.abs(dz * (a1 + a2 + a3))"), "R18.4"),
    ("volume: centroid not converted to pixels", VOL,
     ("            contour_y = cc[:, 1] - pos_y[ii] / pix",
      "            contour_y = cc[:, 1] - pos_y[ii]"), "R18.4"),
    ("volume: x centred with pos_y", VOL,
     ("            contour_x = cc[:, 0] - pos_x[ii] / pix",
      "            contour_x = cc[:, 0] - pos_y[ii] / pix"), "R18.4"),
    ("volume: halves summed instead of averaged", VOL,
     ("            v_avg[ii] = (vol_right + vol_left) / 2",
      "            v_avg[ii] = (vol_right + vol_left)"), "R18.4"),
    ("volume: left half without the pixel scale", VOL,
     lambda s: re.sub(r"(vol_revolve\(contour_left\[::-1\], "
                      r"contour_[xz]\[::-1\]), pix\)", r"\1)", s), "R18.4"),
    ("volume: only r of the left half reversed", VOL,
     lambda s: re.sub(r"(vol_revolve\(contour_left\[::-1\], "
                      r"contour_[xz])\[::-1\], pix\)", r"\1, pix)", s),
     "R18.6"),
    ("volume: lower half not reversed at all", VOL,
     lambda s: re.sub(r"vol_revolve\(contour_left\[::-1\], "
                      r"(contour_[xz])\[::-1\], pix\)",
                      r"vol_revolve(contour_left, \1, pix)", s), "R18.6"),
    ("crosstalk: matrix transposed", CT,
     ("    crosstalk = np.array([[ct11, ct12, ct13],\n"
      "                          [ct21, ct22, ct23],\n"
      "                          [ct31, ct32, ct33],\n"
      "                          ])",
      "    crosstalk = np.array([[ct11, ct21, ct31],\n"
      "                          [ct12, ct22, ct32],\n"
      "                          [ct13, ct23, ct33],\n"
      "                          ])"), "R18.5"),
    ("crosstalk: row instead of column", CT,
     ("    col = minv[:, fl_channel - 1].flatten()",
      "    col = minv[fl_channel - 1, :].flatten()"), "R18.5"),
    ("crosstalk: channel index off by one", CT,
     ("    col = minv[:, fl_channel - 1].flatten()",
      "    col = minv[:, fl_channel - 2].flatten()"), "R18.5"),
    ("crosstalk: coefficients crossed in the call", CT,
     ("    minv = get_compensation_matrix(ct21=ct21, ct31=ct31, ct12=ct12,",
      "    minv = get_compensation_matrix(ct21=ct12, ct31=ct31, ct12=ct21,"),
     "R18.5"),
    ("crosstalk: negative ct32 accepted", CT,
     ("    if ct32 < 0:\n", "    if ct31 < 0:\n"), "R18.5"),
    ("crosstalk: uncompensated matrix returned", CT,
     ("    return np.linalg.inv(crosstalk)", "    return crosstalk"),
     "R18.5"),
    ("moments: a02 uses the x successor", INERT,
     ("    a02 = np.sum(dxy * (yi_1 * yii_1 + yi2))",
      "    a02 = np.sum(dxy * (xi_1 * yii_1 + yi2))"), "R18.7"),
    ("moments: a12 coefficient", INERT,
     ("yi * yi_1 * xii_1 + yi2 * (xi_1 + 3 * xi)))",
      "yi * yi_1 * xii_1 + yi2 * (xi_1 + 2 * xi)))"), "R18.7"),
    ("moments: m02 scaled like a first moment", INERT,
     ("                 m02=a02 * db1_12,", "                 m02=a02 * db1_6,"),
     "R18.7"),
    ("moments: mu02 centred with the x centroid", INERT,
     ('        m["mu02"] = m["m02"] - m["m01"]*cy',
      '        m["mu02"] = m["m02"] - m["m01"]*cx'), "R18.7"),
    ("moments: sign flip misses a constant", INERT,
     ("            db1_60 *= -1\n", ""), "R18.7"),
    ("inertia ratio inverted", INERT,
     ('            inert_ratio_raw[ii] = np.sqrt(moments["mu20"]/'
      'moments["mu02"])',
      '            inert_ratio_raw[ii] = np.sqrt(moments["mu02"]/'
      'moments["mu20"])'), "R18.7"),
]

TWINS = [
    ("bright_perc: presence test inverted with early exit", PERC,
     ("    if bg_off is not None:\n        p10 -= bg_off\n"
      "        p90 -= bg_off\n",
      "    if bg_off is None:\n        pass\n    else:\n"
      "        p10 -= bg_off\n        p90 -= bg_off\n")),
    ("bright_bc: cast via astype", BC,
     ("        imgi = np.array(image[ii], dtype=int) - image_bg[ii]",
      "        imgi = image[ii].astype(np.int64) - image_bg[ii]")),
    ("volume: cube written as product", VOL,
     ("    vol = np.sum(v) * point_scale ** 3",
      "    vol = point_scale * point_scale * np.sum(v) * point_scale")),
    ("volume: cone terms merged", VOL,
     ("    v = np.pi / 3 * dz * np.abs(a1 + a2 + a3)",
      "    v = dz * np.abs(3 * rp**2 + 3 * rp * dr + dr * dr) * np.pi / 3")),
    ("crosstalk: matrix filled element-wise via rows", CT,
     ("    return np.linalg.inv(crosstalk)",
      "    spill = crosstalk\n    return np.linalg.inv(spill)")),
    ("crosstalk: column picked through the transpose", CT,
     ("    col = minv[:, fl_channel - 1].flatten()",
      "    col = minv.T[fl_channel - 1].flatten()")),
    ("moments: squares written as products", INERT,
     ("    xi2 = xi**2\n    yi2 = yi**2\n",
      "    xi2 = xi * xi\n    yi2 = yi * yi\n")),
    ("moments: a20 re-associated", INERT,
     ("    a20 = np.sum(dxy * (xi_1 * xii_1 + xi2))",
      "    a20 = np.sum((xi2 + xi_1 * xii_1) * dxy)")),
]

# mutant that re-introduces the repaired defect F18b (applies to the fixed tree)
MUTANTS = list(MUTANTS) + [
    ("original z order with re-oriented r (F18b returns)",
     "dclab/features/volume.py",
     ("vol_right = vol_revolve(contour_right, contour_z, pix)",
      "vol_right = vol_revolve(contour_right, contour_x, pix)"), "R18.6"),
]

# seeded changes /tmp/seed/out_C18/patch3 (R18.2) and patch2 (R18.3)
MUTANTS = list(MUTANTS) + [
    ("bright_bc truncates a float background (seeded)", BC,
     ("        imgi = np.array(image[ii], dtype=int) - image_bg[ii]",
      "        imgi = (np.array(image[ii], dtype=int)\n"
      "                - np.array(image_bg[ii], dtype=int))"), "R18.2"),
    ("bright_perc truncates a float background", PERC,
     ("        imgi = np.array(image[ii], dtype=int) - image_bg[ii]",
      "        imgi = np.array(image[ii], dtype=int) "
      "- image_bg[ii].astype(int)"), "R18.2"),
    ("bright_bc rounds the background", BC,
     ("        imgi = np.array(image[ii], dtype=int) - image_bg[ii]",
      "        imgi = np.array(image[ii], dtype=int) "
      "- np.rint(image_bg[ii])"), "R18.2"),
    ("moments: only float64 promoted (seeded)", INERT,
     ("    elif np.issubdtype(cont.dtype, np.floating):",
      "    elif np.issubdtype(cont.dtype, np.float64):"), "R18.3"),
]

TWINS = list(TWINS) + [
    ("bright_bc: background cast to float", BC,
     ("        imgi = np.array(image[ii], dtype=int) - image_bg[ii]",
      "        imgi = (np.array(image[ii], dtype=int)\n"
      "                - np.asarray(image_bg[ii], dtype=np.float64))")),
    ("moments: float promotion guarded by np.inexact", INERT,
     ("    elif np.issubdtype(cont.dtype, np.floating):",
      "    elif np.issubdtype(cont.dtype, np.inexact):")),
]

# behaviour-preserving refactorings /tmp/seed/rfout_C18/refactor2-4
_DB_OLD = (
    "        db1_2 = 0.5\n"
    "        db1_6 = 0.16666666666666666666666666666667\n"
    "        db1_12 = 0.083333333333333333333333333333333\n"
    "        db1_24 = 0.041666666666666666666666666666667\n"
    "        db1_20 = 0.05\n"
    "        db1_60 = 0.016666666666666666666666666666667\n"
    "\n"
    "        if a00 < 0:\n"
    "            db1_2 *= -1\n"
    "            db1_6 *= -1\n"
    "            db1_12 *= -1\n"
    "            db1_24 *= -1\n"
    "            db1_20 *= -1\n"
    "            db1_60 *= -1\n")
_DB_NEW = (
    "        # flip the sign of all factors for clockwise contours\n"
    "        sign = -1 if a00 < 0 else 1\n"
    "        db1_2 = _DB1_2 * sign\n"
    "        db1_6 = _DB1_6 * sign\n"
    "        db1_12 = _DB1_12 * sign\n"
    "        db1_24 = _DB1_24 * sign\n"
    "        db1_20 = _DB1_20 * sign\n"
    "        db1_60 = _DB1_60 * sign\n")
_DB_CONST = (
    "import scipy.spatial as ssp\n\n"
    "#: Normalization factors of OpenCV's `contourMoments` (1/2, 1/6, ...)\n"
    "_DB1_2 = 0.5\n"
    "_DB1_6 = 0.16666666666666666666666666666667\n"
    "_DB1_12 = 0.083333333333333333333333333333333\n"
    "_DB1_24 = 0.041666666666666666666666666666667\n"
    "_DB1_20 = 0.05\n"
    "_DB1_60 = 0.016666666666666666666666666666667\n")
_BG_HELPER = (
    "def _bg_corrected_image(image, image_bg, index):\n"
    "    \"\"\"Return background-corrected integer image of event "
    "`index`\"\"\"\n"
    "    # cast to integer before subtraction\n"
    "    return np.array(image[index], dtype=int) - image_bg[index]\n\n\n")
_BG_OLD = ("        # cast to integer before subtraction\n"
           "        imgi = np.array(image[ii], dtype=int) - image_bg[ii]\n")
_BG_NEW = "        imgi = _bg_corrected_image(image, image_bg, ii)\n"

TWINS = list(TWINS) + [
    ("moments: normalisation factors as module constants, sign variable",
     INERT,
     [(_DB_OLD, _DB_NEW), ("import scipy.spatial as ssp\n", _DB_CONST)]),
    ("moments: sign test mirrored", INERT,
     [(_DB_OLD, _DB_NEW.replace("sign = -1 if a00 < 0 else 1",
                                "sign = 1 if a00 > 0 else -1")),
      ("import scipy.spatial as ssp\n", _DB_CONST)]),
    ("moments: sign via np.sign", INERT,
     [(_DB_OLD, _DB_NEW.replace("sign = -1 if a00 < 0 else 1",
                                "sign = np.sign(a00)")),
      ("import scipy.spatial as ssp\n", _DB_CONST)]),
    ("volume: products, named intermediates, reordered assignments", VOL,
     [("    rp = r[:-1]\n\n"
       "    # array of radii differences: R - r\n"
       "    dr = np.diff(r)\n"
       "    # array of height differences: h\n"
       "    dz = np.diff(z)\n",
       "    # array of height differences: h\n"
       "    dz = np.diff(z)\n"
       "    # array of radii differences: R - r\n"
       "    dr = np.diff(r)\n\n"
       "    rp = r[:-1]\n"),
      ("    a1 = 3 * rp**2\n    a2 = 3 * rp*dr\n    a3 = dr**2\n",
       "    a1 = 3 * (rp * rp)\n    a2 = 3 * rp * dr\n    a3 = dr * dr\n"),
      ("    v = np.pi / 3 * dz * np.abs(a1 + a2 + a3)\n"
       "    vol = np.sum(v) * point_scale ** 3\n",
       "    cone_factor = np.pi / 3\n"
       "    area_terms = np.abs(a1 + a2 + a3)\n"
       "    v = cone_factor * dz * area_terms\n"
       "    scale_cubed = point_scale ** 3\n"
       "    vol = np.sum(v) * scale_cubed\n")]),
    ("volume: centroid converted to pixels in a named intermediate", VOL,
     [("            contour_x = cc[:, 0] - pos_x[ii] / pix\n"
       "            contour_y = cc[:, 1] - pos_y[ii] / pix\n",
       "            cx_px = pos_x[ii] / pix\n"
       "            cy_px = pos_y[ii] / pix\n"
       "            contour_x = cc[:, 0] - cx_px\n"
       "            contour_y = cc[:, 1] - cy_px\n"),
      ("            v_avg[ii] = (vol_right + vol_left) / 2\n",
       "            vol_both = vol_right + vol_left\n"
       "            v_avg[ii] = 0.5 * vol_both\n")]),
    ("bright_bc: background subtraction extracted into a helper", BC,
     [(_BG_OLD, _BG_NEW),
      ("def get_bright_bc(", _BG_HELPER + "def get_bright_bc(")]),
    ("bright_perc: helper extraction and early return", PERC,
     [(_BG_OLD, _BG_NEW),
      ("def get_bright_perc(", _BG_HELPER + "def get_bright_perc("),
      ("    if ret_list:\n        return p10, p90\n    else:\n"
       "        return p10[0], p90[0]\n",
       "    if not ret_list:\n        # Only return scalars\n"
       "        return p10[0], p90[0]\n\n    return p10, p90\n")]),
]

MUTANTS = list(MUTANTS) + [
    ("helper casts the background to int", BC,
     [(_BG_OLD, _BG_NEW),
      ("def get_bright_bc(", _BG_HELPER.replace(
          "- image_bg[index]", "- np.array(image_bg[index], dtype=int)")
       + "def get_bright_bc(")], "R18.2"),
    ("module constant for the second moments wrong", INERT,
     [(_DB_OLD, _DB_NEW),
      ("import scipy.spatial as ssp\n", _DB_CONST.replace(
          "_DB1_12 = 0.083333333333333333333333333333333",
          "_DB1_12 = 0.08"))], "R18.7"),
    ("sign variable with the wrong polarity", INERT,
     [(_DB_OLD, _DB_NEW.replace("sign = -1 if a00 < 0 else 1",
                                "sign = -1 if a00 > 0 else 1")),
      ("import scipy.spatial as ssp\n", _DB_CONST)], "R18.7"),
    ("sign variable not applied to one factor", INERT,
     [(_DB_OLD, _DB_NEW.replace("db1_20 = _DB1_20 * sign",
                                "db1_20 = _DB1_20")),
      ("import scipy.spatial as ssp\n", _DB_CONST)], "R18.7"),
    ("cube hidden in a wrong intermediate", VOL,
     ("    vol = np.sum(v) * point_scale ** 3\n",
      "    scale_cubed = point_scale ** 2\n"
      "    vol = np.sum(v) * scale_cubed\n"), "R18.4"),
]

# round-2 seeded changes /verif/seeded/C18_4 .. C18_6 and relatives
_PRNC_COPY = "        cc = np.array(cont[ii], dtype=np.float64, copy=True)\n"
_INV_RET = "    return np.linalg.inv(crosstalk)\n"

MUTANTS = list(MUTANTS) + [
    ("volume: four-point contours skipped (seeded)", VOL,
     ("        if cc.shape[0] >= 4:", "        if cc.shape[0] > 4:"),
     "R18.4"),
    ("volume: three-point contours evaluated", VOL,
     ("        if cc.shape[0] >= 4:", "        if cc.shape[0] >= 3:"),
     "R18.4"),
    ("crosstalk: negative determinant refused (seeded)", CT,
     (_INV_RET,
      "    if np.linalg.det(crosstalk) <= 0:\n"
      "        raise ValueError(\"The crosstalk matrix is singular!\")\n"
      + _INV_RET), "R18.5"),
    ("crosstalk: strong mutual spill refused", CT,
     (_INV_RET,
      "    if ct12 * ct21 >= 1:\n"
      "        raise ValueError(\"Spill too strong!\")\n" + _INV_RET),
     "R18.5"),
    ("prnc rotates the caller's contour: asarray (seeded)", INERT,
     (_PRNC_COPY, "        cc = np.asarray(cont[ii], dtype=np.float64)\n"),
     "R18.8"),
    ("prnc rotates the caller's contour: copy=False", INERT,
     (_PRNC_COPY,
      "        cc = np.array(cont[ii], dtype=np.float64, copy=False)\n"),
     "R18.8"),
    ("prnc rotates the caller's contour: no conversion", INERT,
     (_PRNC_COPY, "        cc = cont[ii]\n"), "R18.8"),
    ("bright_bc shifts the caller's offset array", BC,
     ("        if bg_off is not None:\n            avg -= bg_off\n",
      "        if bg_off is not None:\n            bg_off *= -1\n"
      "            avg += bg_off\n"), "R18.8"),
    ("volume: contour shifted in place", VOL,
     ("            contour_x = cc[:, 0] - pos_x[ii] / pix\n",
      "            cc[:, 0] -= pos_x[ii] / pix\n"
      "            contour_x = cc[:, 0]\n"), "R18."),
]

TWINS = list(TWINS) + [
    ("volume: short contours skipped with continue", VOL,
     lambda s: s.replace(
         "        if cc.shape[0] >= 4:\n",
         "        if len(cc) < 4:\n            continue\n        if True:\n")),
    ("volume: guard mirrored", VOL,
     ("        if cc.shape[0] >= 4:", "        if not cc.shape[0] < 4:")),
    ("crosstalk: exactly singular matrix refused", CT,
     (_INV_RET,
      "    if np.linalg.det(crosstalk) == 0:\n"
      "        raise ValueError(\"The crosstalk matrix is singular!\")\n"
      + _INV_RET)),
    ("prnc: copy by default of np.array", INERT,
     (_PRNC_COPY, "        cc = np.array(cont[ii], dtype=np.float64)\n")),
    ("prnc: copy via astype", INERT,
     (_PRNC_COPY,
      "        cc = np.asarray(cont[ii]).astype(np.float64)\n")),
]

# round-2 refactorings /verif/campaign/refactorings_round2/C18/refactor2-4
TWINS = list(TWINS) + [
    ("moments: centroid as conditional expressions", INERT,
     ("        if m[\"m00\"] > dbl_epsilon:\n"
      "            # Center of gravity\n"
      "            cx = m[\"m10\"]/m[\"m00\"]\n"
      "            cy = m[\"m01\"]/m[\"m00\"]\n"
      "        else:\n"
      "            cx = 0\n"
      "            cy = 0\n",
      "        has_area = m[\"m00\"] > dbl_epsilon\n"
      "        cx = m[\"m10\"]/m[\"m00\"] if has_area else 0\n"
      "        cy = m[\"m01\"]/m[\"m00\"] if has_area else 0\n")),
    ("inertia ratios: moments bound by a walrus test", INERT,
     lambda s: s.replace(
         "        moments = cont_moments_cv(cont[ii])\n"
         "        if moments is not None:\n",
         "        if (moments := cont_moments_cv(cont[ii])) is not None:\n"
     ).replace(
         "        moments = cont_moments_cv(cc)\n\n"
         "        if moments is not None:\n",
         "\n        if (moments := cont_moments_cv(cc)) is not None:\n")),
    ("bright: metrics dispatched through a table of numpy functions", BRIGHT,
     [("    # Results are stored in a separate array initialized with nans\n"
       "    if ret_avg:\n"
       "        avg = np.zeros(length, dtype=np.float64) * np.nan\n"
       "    if ret_std:\n"
       "        std = np.zeros(length, dtype=np.float64) * np.nan\n",
       "    metric_funcs = {}\n"
       "    if ret_avg:\n"
       "        metric_funcs[\"avg\"] = np.mean\n"
       "    if ret_std:\n"
       "        metric_funcs[\"sd\"] = np.std\n"
       "    data = {name: np.zeros(length, dtype=np.float64) * np.nan\n"
       "            for name in metric_funcs}\n"),
      ("        if ret_avg:\n"
       "            avg[ii] = np.mean(imgi[mski])\n"
       "        if ret_std:\n"
       "            std[ii] = np.std(imgi[mski])\n",
       "        for name, func in metric_funcs.items():\n"
       "            data[name][ii] = func(imgi[mski])\n"),
      ("    results = []\n"
       "    # Keep alphabetical order\n"
       "    if ret_avg:\n"
       "        results.append(avg)\n"
       "    if ret_std:\n"
       "        results.append(std)\n",
       "    results = list(data.values())\n")]),
    ("crosstalk: from-import of inv, constants, tuple unpacking", CT,
     [("import numpy as np\n",
       "import numpy as np\nfrom numpy.linalg import inv\n\n"
       "_FL_CHANNELS = (1, 2, 3)\n"),
      ("    ct11 = 1\n    ct22 = 1\n    ct33 = 1\n",
       "    ct11 = ct22 = ct33 = 1\n"),
      ("    return np.linalg.inv(crosstalk)", "    return inv(crosstalk)"),
      ("    if fl_channel not in [1, 2, 3]:",
       "    if fl_channel not in _FL_CHANNELS:"),
      ("    col = minv[:, fl_channel - 1].flatten()\n"
       "    flout = col[0] * fl1 + col[1] * fl2 + col[2] * fl3\n"
       "    return flout\n",
       "    coeff1, coeff2, coeff3 = minv[:, fl_channel - 1].flatten()\n"
       "    return coeff1 * fl1 + coeff2 * fl2 + coeff3 * fl3\n")]),
]

MUTANTS = list(MUTANTS) + [
    ("dispatch table: statistic over the unmasked image", BRIGHT,
     [("    # Results are stored in a separate array initialized with nans\n"
       "    if ret_avg:\n"
       "        avg = np.zeros(length, dtype=np.float64) * np.nan\n"
       "    if ret_std:\n"
       "        std = np.zeros(length, dtype=np.float64) * np.nan\n",
       "    metric_funcs = {}\n"
       "    if ret_avg:\n"
       "        metric_funcs[\"avg\"] = np.mean\n"
       "    if ret_std:\n"
       "        metric_funcs[\"sd\"] = np.std\n"
       "    data = {name: np.zeros(length, dtype=np.float64) * np.nan\n"
       "            for name in metric_funcs}\n"),
      ("        if ret_avg:\n"
       "            avg[ii] = np.mean(imgi[mski])\n"
       "        if ret_std:\n"
       "            std[ii] = np.std(imgi[mski])\n",
       "        for name, func in metric_funcs.items():\n"
       "            data[name][ii] = func(imgi)\n"),
      ("    results = []\n"
       "    # Keep alphabetical order\n"
       "    if ret_avg:\n"
       "        results.append(avg)\n"
       "    if ret_std:\n"
       "        results.append(std)\n",
       "    results = list(data.values())\n")], "R18.2"),
    ("centroid conditional: y centred with the x moment", INERT,
     ("        if m[\"m00\"] > dbl_epsilon:\n"
      "            # Center of gravity\n"
      "            cx = m[\"m10\"]/m[\"m00\"]\n"
      "            cy = m[\"m01\"]/m[\"m00\"]\n"
      "        else:\n"
      "            cx = 0\n"
      "            cy = 0\n",
      "        has_area = m[\"m00\"] > dbl_epsilon\n"
      "        cx = m[\"m10\"]/m[\"m00\"] if has_area else 0\n"
      "        cy = m[\"m10\"]/m[\"m00\"] if has_area else 0\n"), "R18.7"),
    ("imported inv replaced by the transpose", CT,
     ("    return np.linalg.inv(crosstalk)", "    return crosstalk.T"),
     "R18.5"),
]

# round-3 seeded changes /verif/seeded/C18_7 .. C18_9 and relatives
_BC_WRAP = ("        image_bg = [image_bg]\n"
            "        image = [image]\n"
            "        mask = [mask]\n")
_CCW_OLD = ("    # test orientation\n"
            "    angles = np.unwrap(np.arctan2(cy, cx))\n"
            "    grad = np.diff(angles)\n"
            "    if np.average(grad) < 0:\n")
_CENTRE_X = "            contour_x = cc[:, 0] - pos_x[ii] / pix\n"

MUTANTS = list(MUTANTS) + [
    ("bright_bc: single background not wrapped (seeded)", BC,
     (_BC_WRAP, "        image, mask = [image], [mask]\n"), "R18.9"),
    ("bright_perc: single mask not wrapped", PERC,
     ("        image_bg = [image_bg]\n        image = [image]\n"
      "        mask = [mask]\n",
      "        image_bg = [image_bg]\n        image = [image]\n"), "R18.9"),
    ("volume: single contour not wrapped", VOL,
     ("        cont = [cont]\n        ret_list = False",
      "        ret_list = False"), "R18."),
    ("crosstalk recipe: channels looked up in features_innate (seeded)", CTC,
     [('    if "fl1_max" in mm:', '    if "fl1_max" in mm.features_innate:'),
      ('    if "fl2_max" in mm:', '    if "fl2_max" in mm.features_innate:'),
      ('    if "fl3_max" in mm:', '    if "fl3_max" in mm.features_innate:')],
     "R18.9"),
    ("orientation by an open shoelace sum of the uncentred contour (seeded)",
     VOL,
     [(_CENTRE_X,
       "            contour_x = np.array(cc[:, 0], dtype=np.float64)\n"),
      (_CCW_OLD,
       "    area = np.sum(cx[:-1] * cy[1:] - cx[1:] * cy[:-1]) / 2\n"
       "    if area < 0:\n")], "R18.6"),
    ("orientation test on the uncentred contour", VOL,
     (_CENTRE_X,
      "            contour_x = np.array(cc[:, 0], dtype=np.float64)\n"),
     "R18.6"),
    ("orientation test inverted", VOL,
     ("    if np.average(grad) < 0:\n", "    if np.average(grad) > 0:\n"),
     "R18.6"),
]

TWINS = list(TWINS) + [
    ("bright_bc: single-event inputs wrapped in one statement", BC,
     (_BC_WRAP,
      "        image, mask, image_bg = [image], [mask], [image_bg]\n")),
    ("orientation by the closed shoelace sum (translation invariant), "
     "axial column uncentred", VOL,
     [(_CENTRE_X,
       "            contour_x = np.array(cc[:, 0], dtype=np.float64)\n"),
      (_CCW_OLD,
       "    area = np.sum(cx * np.roll(cy, -1) - np.roll(cx, -1) * cy) / 2\n"
       "    if area < 0:\n")]),
    ("crosstalk recipe: dataset bound to a local", CTC,
     [("def compute_ctc(mm, fl_channel):\n",
       "def compute_ctc(mm, fl_channel):\n    ds = mm\n"),
      ('    if "fl1_max" in mm:\n        fl1 = mm["fl1_max"]',
       '    if "fl1_max" in ds:\n        fl1 = ds["fl1_max"]')]),
]

# round-3 refactoring campaign/refactorings_round3/C18/refactor1
TWINS = list(TWINS) + [
    ("bright_bc: nan allocation helper, masked pixels as an intermediate",
     BC,
     lambda s: (s.replace(
         "        avg = np.zeros(length, dtype=np.float64) * np.nan\n",
         "        avg = _nan_array(length)\n").replace(
         "        std = np.zeros(length, dtype=np.float64) * np.nan\n",
         "        std = _nan_array(length)\n").replace(
         "        mski = mask[ii]\n", "        pixels = imgi[mask[ii]]\n"
     ).replace("np.mean(imgi[mski])", "np.mean(pixels)").replace(
         "np.std(imgi[mski])", "np.std(pixels)")
         + "\n\ndef _nan_array(length):\n"
         "    \"\"\"1D float64 array of nans\"\"\"\n"
         "    return np.zeros(length, dtype=np.float64) * np.nan\n")),
]

MUTANTS = list(MUTANTS) + [
    ("masked pixels intermediate taken from another event's mask", BC,
     lambda s: s.replace(
         "        mski = mask[ii]\n", "        pixels = imgi[mask[0]]\n"
     ).replace("np.mean(imgi[mski])", "np.mean(pixels)").replace(
         "np.std(imgi[mski])", "np.std(pixels)"), "R18.2"),
    ("masked pixels intermediate without the mask", BC,
     lambda s: s.replace(
         "        mski = mask[ii]\n", "        pixels = imgi\n"
     ).replace("np.mean(imgi[mski])", "np.mean(pixels)").replace(
         "np.std(imgi[mski])", "np.std(pixels)"), "R18.2"),
]

# round-4 refactoring campaign/refactorings_round4/C18/refactor3
_CAST_CHAIN = ("    if np.issubdtype(cont.dtype, np.integer):\n"
               "        cont = cont.astype(np.int64)\n"
               "    elif np.issubdtype(cont.dtype, np.floating):\n"
               "        cont = cont.astype(np.float64)\n")
_CAST_LOOP = ("    for abstract_dtype, dtype_64bit in _CONTOUR_DTYPE_CASTS:\n"
              "        if np.issubdtype(cont.dtype, abstract_dtype):\n"
              "            cont = cont.astype(dtype_64bit)\n"
              "            break\n")
_CAST_TABLE = ("import scipy.spatial as ssp\n\n"
               "_CONTOUR_DTYPE_CASTS = (\n"
               "    (np.integer, np.int64),\n"
               "    (np.floating, np.float64),\n"
               ")\n")

TWINS = list(TWINS) + [
    ("moments: 64-bit casts dispatched through a module-level table", INERT,
     [(_CAST_CHAIN, _CAST_LOOP),
      ("import scipy.spatial as ssp\n", _CAST_TABLE)]),
    ("moments: casts decided by the dtype kind", INERT,
     (_CAST_CHAIN,
      "    if cont.dtype.kind in \"iu\":\n"
      "        cont = cont.astype(np.int64)\n"
      "    elif cont.dtype.kind == \"f\":\n"
      "        cont = cont.astype(np.float64)\n")),
]

MUTANTS = list(MUTANTS) + [
    ("cast table: 32-bit target for integers", INERT,
     [(_CAST_CHAIN, _CAST_LOOP),
      ("import scipy.spatial as ssp\n", _CAST_TABLE.replace(
          "(np.integer, np.int64)", "(np.integer, np.int32)"))], "R18.3"),
    ("cast table: only signed integers promoted", INERT,
     [(_CAST_CHAIN, _CAST_LOOP),
      ("import scipy.spatial as ssp\n", _CAST_TABLE.replace(
          "(np.integer, np.int64)", "(np.signedinteger, np.int64)"))],
     "R18.3"),
    ("cast table: loop leaves after the first row", INERT,
     [(_CAST_CHAIN, _CAST_LOOP.replace(
         "            cont = cont.astype(dtype_64bit)\n            break\n",
         "            cont = cont.astype(dtype_64bit)\n        break\n")),
      ("import scipy.spatial as ssp\n", _CAST_TABLE)], "R18.3"),
]

# round-4 seeded changes /verif/seeded/C18_10, C18_12
_GM_SIG = "def get_compensation_matrix(ct21, ct31, ct12, ct32, ct13, ct23):"
_GM_FAST = ("    if two_channel:\n"
            "        det = ct11 * ct22 - ct12 * ct21\n"
            "        return np.array([[ct22, -ct12, 0],\n"
            "                         [-ct21, ct11, 0],\n"
            "                         [0, 0, det]]) / det\n\n"
            "    crosstalk = np.array([[ct11, ct12, ct13],")
_GM_CALL = ("                                   ct32=ct32, ct13=ct13, "
            "ct23=ct23)")
_PRNC_ALLOC = ("    inert_ratio_prnc = np.zeros(length, dtype=np.float32) "
               "* np.nan\n")

MUTANTS = list(MUTANTS) + [
    ("crosstalk: 2x2 shortcut under an incomplete decoupling test (seeded)",
     CT,
     [(_GM_SIG, _GM_SIG.replace("ct23):", "ct23,\n"
       "                            two_channel=False):")),
      ("    crosstalk = np.array([[ct11, ct12, ct13],", _GM_FAST),
      (_GM_CALL, _GM_CALL[:-1] + ",\n"
       "                                   two_channel=(ct13 == 0 and "
       "ct23 == 0))")], "R18.5"),
    ("principal inertia ratio stored in double precision (seeded)", INERT,
     (_PRNC_ALLOC, "    inert_ratio_prnc = np.full(length, np.nan)\n"),
     "R18.7"),
    ("principal inertia ratio allocated as float64", INERT,
     (_PRNC_ALLOC,
      "    inert_ratio_prnc = np.zeros(length, dtype=np.float64) * np.nan\n"
      ), "R18.7"),
]

TWINS = list(TWINS) + [
    ("crosstalk: 2x2 shortcut under the complete decoupling test", CT,
     [(_GM_SIG, _GM_SIG.replace("ct23):", "ct23,\n"
       "                            two_channel=False):")),
      ("    crosstalk = np.array([[ct11, ct12, ct13],", _GM_FAST),
      (_GM_CALL, _GM_CALL[:-1] + ",\n"
       "                                   two_channel=(ct13 == 0 and "
       "ct23 == 0\n"
       "                                                and ct31 == 0 and "
       "ct32 == 0))")]),
    ("principal inertia ratio: float32 array via np.full", INERT,
     (_PRNC_ALLOC,
      "    inert_ratio_prnc = np.full(length, np.nan, dtype=np.float32)\n")),
]

# seed /verif/seeded/C18_15
MUTANTS = list(MUTANTS) + [
    ("spill matrix built in single precision (seeded)", CT,
     ("                          [ct31, ct32, ct33],\n"
      "                          ])",
      "                          [ct31, ct32, ct33],\n"
      "                          ], dtype=np.float32)"), "R18.5"),
]

TWINS = list(TWINS) + [
    ("spill matrix built explicitly as float64", CT,
     ("                          [ct31, ct32, ct33],\n"
      "                          ])",
      "                          [ct31, ct32, ct33],\n"
      "                          ], dtype=np.float64)")),
]

# seeds /verif/seeded/C18_17
MUTANTS = list(MUTANTS) + [
    ("volume: scalar test misses numpy scalars (seeded)", VOL,
     ("    if np.isscalar(pos_x):", "    if isinstance(pos_x, (int, float)):"),
     "R18.9"),
]

TWINS = list(TWINS) + [
    ("volume: scalar test via np.ndim", VOL,
     ("    if np.isscalar(pos_x):", "    if np.ndim(pos_x) == 0:")),
    ("volume: scalar test via numbers.Number or np.generic", VOL,
     [("import numpy as np\n", "import numbers\n\nimport numpy as np\n"),
      ("    if np.isscalar(pos_x):",
       "    if isinstance(pos_x, (numbers.Number, np.generic)):")]),
]

# seed /verif/seeded/C18_16
MUTANTS = list(MUTANTS) + [
    ("moments: centroid guarded with the single-precision epsilon (seeded)",
     INERT,
     ('        if m["m00"] > dbl_epsilon:', '        if m["m00"] > flt_epsilon:'),
     "R18.7"),
]

# round-7 seeded changes (/verif/seeded/C18_19, C18_20)
TDMS_MASK = "dclab/rtdc_dataset/fmt_tdms/event_mask.py"
_MASK_ALLOC = "        mask = np.zeros(self._img_shape, dtype=bool)\n"
_VOL_CMP = 'parse_version(dclab_version) < parse_version("0.37.0")'

MUTANTS = list(MUTANTS) + [
    ("tdms mask allocated once per column and refilled (seeded)", TDMS_MASK,
     [("        self._img_shape_cache = None\n",
       "        self._img_shape_cache = None\n"
       "        self._mask_cache = None\n"),
      (_MASK_ALLOC,
       "        if self._mask_cache is None:\n"
       "            self._mask_cache = np.zeros(self._img_shape, dtype=bool)\n"
       "        mask = self._mask_cache\n"
       "        mask[:] = False\n")], "R18.10"),
    ("tdms mask filled into a module-level scratch array", TDMS_MASK,
     [("class MaskColumn(object):\n",
       "_SCRATCH = {}\n\n\nclass MaskColumn(object):\n"),
      (_MASK_ALLOC,
       "        mask = _SCRATCH.setdefault(\n"
       "            self._img_shape, np.zeros(self._img_shape, dtype=bool))\n"
       "        mask.fill(False)\n")], "R18.10"),
    ("tdms mask: view of a per-instance buffer returned", TDMS_MASK,
     [("        self._img_shape_cache = None\n",
       "        self._img_shape_cache = None\n"
       "        self._buf = np.zeros((1024, 1024), dtype=bool)\n"),
      (_MASK_ALLOC,
       "        sy, sx = self._img_shape\n"
       "        mask = self._buf[:sy, :sx]\n"
       "        mask[:] = False\n")], "R18.10"),
    ("volume defect bound aligned with the docstring: <= 0.36.1 (seeded)",
     FDEFECT,
     (_VOL_CMP, 'parse_version(dclab_version) <= parse_version("0.36.1")'),
     "R18.11"),
    ("inertia defect bound as `not > last bad release`", FDEFECT,
     ('parse_version(dclab_version) < parse_version("0.48.3")',
      'not parse_version(dclab_version) > parse_version("0.48.2")'),
     "R18.11"),
    ("Shape-In trusted after 2.0.4 instead of from 2.0.5 on", FDEFECT,
     ('parse_version(si_version) >= parse_version("2.0.5")',
      'parse_version(si_version) > parse_version("2.0.4")'), "R18.11"),
]

TWINS = list(TWINS) + [
    ("tdms mask allocated with np.full and kept for debugging on self",
     TDMS_MASK,
     (_MASK_ALLOC,
      "        mask = np.full(self._img_shape, False, dtype=bool)\n"
      "        self._last_idx = idx\n")),
    ("tdms mask filled through a local alias of the contour column",
     TDMS_MASK,
     ("        conti = self.contour[idx]\n"
      "        mask[conti[:, 1], conti[:, 0]] = True\n",
      "        contour = self.contour\n"
      "        conti = contour[idx]\n"
      "        ys, xs = conti[:, 1], conti[:, 0]\n"
      "        mask[ys, xs] = True\n")),
    ("volume defect bound through a named constant, operands swapped",
     FDEFECT,
     [(_VOL_CMP,
       "parse_version(VOLUME_FIXED_IN) > parse_version(dclab_version)"),
      ("def get_software_version_from_h5(h5):",
       "VOLUME_FIXED_IN = \"0.37.0\"\n\n\n"
       "def get_software_version_from_h5(h5):")]),
    ("time defect bound with pre-parsed local operands", FDEFECT,
     ('        if parse_version(dclab_version) < parse_version("0.47.6"):\n',
      '        written_with = parse_version(dclab_version)\n'
      '        fixed_in = parse_version("0.47.6")\n'
      '        if not written_with >= fixed_in:\n')),
]

# round-7 refactoring campaign/refactorings_round7/C18/refactor2: the mask is
# filled in a module-level helper
_MASK_BODY = (_MASK_ALLOC +
              "        conti = self.contour[idx]\n"
              "        mask[conti[:, 1], conti[:, 0]] = True\n"
              "        ndi.binary_fill_holes(mask, output=mask)\n"
              "        return mask\n")
_MASK_HELPER = ("def _filled_contour_mask(img_shape, contour, idx, out=None):\n"
                "    mask = np.zeros(img_shape, dtype=bool) if out is None "
                "else out\n"
                "    conti = contour[idx]\n"
                "    mask[conti[:, 1], conti[:, 0]] = True\n"
                "    ndi.binary_fill_holes(mask, output=mask)\n"
                "    return mask\n\n\n"
                "class MaskColumn(object):\n")

TWINS = list(TWINS) + [
    ("tdms mask filled by a module-level helper that allocates it", TDMS_MASK,
     [("class MaskColumn(object):\n", _MASK_HELPER),
      (_MASK_BODY,
       "        return _filled_contour_mask(self._img_shape, self.contour, "
       "idx)\n")]),
]

MUTANTS = list(MUTANTS) + [
    ("tdms mask filled by a helper into a per-instance buffer", TDMS_MASK,
     [("class MaskColumn(object):\n", _MASK_HELPER),
      ("        self._img_shape_cache = None\n",
       "        self._img_shape_cache = None\n"
       "        self._mask_buf = None\n"),
      (_MASK_BODY,
       "        if self._mask_buf is None:\n"
       "            self._mask_buf = np.zeros(self._img_shape, dtype=bool)\n"
       "        self._mask_buf[:] = False\n"
       "        return _filled_contour_mask(self._img_shape, self.contour, "
       "idx,\n                                    out=self._mask_buf)\n")],
     "R18.10"),
]
