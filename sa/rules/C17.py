"""C17 – cached computations are indistinguishable from fresh ones.

R17.1 key completeness (Cache.__call__): every positional argument, every
      keyword name and value and three identity fields of the wrapped
      function reach the hasher before hexdigest(); lookup and store use the
      same key.
R17.2 key injectivity (Cache._update_hash): the ndarray branch feeds dtype
      and shape besides the bytes; lists and scalars are length-delimited.
R17.3 eviction: insertions into _cache and _keys are paired, pops are
      paired, bound compares with MAX_SIZE, clear_cache resets both.
R17.4 escape: the object returned by a memoised function is shared between
      calls – it may reach the return value of the dataset interface only
      through an allocating operation.
R17.5 file cache: key = resolved path + (mtime_ns, size) + remaining
      arguments; non-existing paths by-pass the cache.
R17.6 paired deques in LazyContourList.
R17.7 purity: memoised functions read no module-level mutable object.
"""
from __future__ import annotations

import ast

from ..core import (AnalysisError, call_name, const_str, dotted, find_calls,
                    is_self_attr, kwarg, last_attr, names_in, short, txt,
                    walk)
from ..normalize import canon, expand_locals, inline_helpers

ASSUMPTIONS = [
    "NOT decided: value equality of cached and uncached results for "
    "arbitrary call sequences (follows only if the wrapped functions are "
    "deterministic in their arguments – supported by R17.7 and C16's "
    "seeding rule, not proven for scipy); md5 collision freedom.",
    "R17.4 covers results obtained through the dataset interface "
    "(RTDCBase methods and the nan/inf wrapper), not direct calls of "
    "dclab.downsampling / dclab.kde_methods by the user.",
]

CA = "dclab/cached.py"
KDE = "dclab/kde_methods.py"
DS = "dclab/downsampling.pyx"
UT = "dclab/util.py"
CO = "dclab/features/contour.py"
CORE = "dclab/rtdc_dataset/core.py"


def memoised(repo):
    out = []
    for rel in (KDE, DS):
        for q, f in repo.all_functions(rel):
            if any(txt(d) == "Cache" for d in f.decorator_list):
                out.append((rel, f))
    return out


def r174(ctx, repo):
    mem = memoised(repo)
    if len(mem) < 4:
        raise AnalysisError(f"only {len(mem)} memoised functions found")
    ctx.stat("memoised functions", [f"{r}::{f.name}" for r, f in mem])
    # (i) KDE functions are wrapped by the copying wrapper
    for rel, f in mem:
        if rel != KDE:
            continue
        decos = [txt(d) for d in f.decorator_list]
        ok = "ignore_nan_inf" in decos and decos.index(
            "ignore_nan_inf") < decos.index("Cache")
        ctx.ob("R17.4", ok, f"{f.name}: the shared cached array is only "
               f"reachable through the copying nan/inf wrapper" if ok else
               f"{f.name} hands the shared cached array to its caller",
               node=f, label="wrapped by copying wrapper")
    # (ii) the wrapper copies
    wrap = repo.func(KDE, "ignore_nan_inf")
    inner = [n for n in walk(wrap, nested=True)
             if isinstance(n, ast.FunctionDef) and n is not wrap]
    if not inner:
        raise AnalysisError("ignore_nan_inf: inner function lost")
    inner = inline_helpers(repo, KDE, inner[0])
    param = wrap.args.args[0].arg
    calls = [c for c in walk(inner) if isinstance(c, ast.Call)
             and txt(c.func) == param]
    if not calls:
        raise AnalysisError("ignore_nan_inf: call of the wrapped method lost")
    # every call of the wrapped (memoised) method must be copied; a call whose
    # result is returned directly (or as a view) hands out the shared object
    for extra in calls[1:] if len(calls) > 1 else []:
        pass
    direct = []
    for c_ in calls:
        st_ = c_
        while not isinstance(st_, ast.stmt):
            st_ = st_.parent
        if isinstance(st_, ast.Return):
            direct.append(c_)
    for c_ in direct:
        ctx.ob("R17.4", False,
               "the nan/inf wrapper returns the result of the memoised "
               "estimator directly on some path (the shared cached array, or "
               "a view of it): an in-place edit by the caller corrupts the "
               "cache entry", node=c_, label="wrapper copies (direct return)")
    calls = [c_ for c_ in calls if c_ not in direct]
    if not calls:
        return
    c = calls[0]
    st = c
    while not isinstance(st, ast.stmt):
        st = st.parent
    # the cached result may first be bound to a local; that local may only
    # be copied into a subscript of another array (never returned / aliased)
    if isinstance(st, ast.Assign) and st.value is c and len(
            st.targets) == 1 and isinstance(st.targets[0], ast.Name):
        tmp = st.targets[0].id
        uses = [n for n in walk(inner) if isinstance(n, ast.Name)
                and n.id == tmp and isinstance(n.ctx, ast.Load)]
        stores = []
        other = []
        for u in uses:
            ust = u
            while not isinstance(ust, ast.stmt):
                ust = ust.parent
            if isinstance(ust, ast.Assign) and ust.value is u and isinstance(
                    ust.targets[0], ast.Subscript):
                stores.append(ust)
            else:
                other.append(ust)
        if len(stores) == 1 and not other:
            st = stores[0]
            c = st.value
    ok = isinstance(st, ast.Assign) and isinstance(
        st.targets[0], ast.Subscript) and st.value is c
    tgt = txt(st.targets[0].value) if ok else None
    fresh = False
    if ok:
        def is_fresh(name, depth=0):
            defs = [n for n in walk(inner) if isinstance(n, ast.Assign)
                    and txt(n.targets[0]) == name]
            if not defs or depth > 4:
                return False
            for d in defs:
                if isinstance(d.value, ast.Call) and call_name(d.value) in (
                        "np.zeros_like", "np.zeros", "np.empty",
                        "np.empty_like", "np.full", "np.full_like",
                        "np.ones_like"):
                    continue
                if isinstance(d.value, ast.Name) and is_fresh(
                        d.value.id, depth + 1):
                    continue
                return False
            return True
        fresh = is_fresh(tgt)
    rets = [n for n in walk(inner) if isinstance(n, ast.Return)]
    ret_ok = bool(rets) and all(txt(r.value) == tgt for r in rets)
    ctx.ob("R17.4", bool(ok and fresh and ret_ok),
           "the wrapper copies the cached result into a freshly allocated "
           "array and returns that" if ok and fresh and ret_ok else
           "the nan/inf wrapper returns (part of) the shared cached array",
           node=st, label="wrapper copies")
    # invalid inputs are removed with the same mask on x and y
    evp = [a.arg for a in inner.args.args[:2]]
    ev = [n for n in walk(inner) if isinstance(n, ast.Assign) and isinstance(
        n.value, ast.Subscript) and txt(n.value.value) in evp]
    masks = {expand_locals(inner, n.value.slice) for n in ev}
    ok = len(masks) == 1 and len(ev) == 2
    ctx.ob("R17.4", ok, "x and y events are purged with the same mask" if ok
           else "x and y events are purged with different masks",
           node=inner, label="same purge mask", nontrivial=False)
    # (iii) downsample_grid through the dataset interface
    gds = inline_helpers(repo, CORE, repo.func(
        CORE, "RTDCBase.get_downsampled_scatter"))
    dcalls = [c for c in find_calls(gds, attr="downsample_grid")]
    if len(dcalls) != 1:
        raise AnalysisError("get_downsampled_scatter: downsample_grid call "
                            "lost")
    st = dcalls[0]
    while not isinstance(st, ast.stmt):
        st = st.parent
    shared = set()
    if isinstance(st, ast.Assign):
        shared = {n for n in names_in(st.targets[0]) if n != "_"}
    bad = []
    for r in [n for n in walk(gds) if isinstance(n, ast.Return)]:
        elts = r.value.elts if isinstance(r.value, ast.Tuple) else [r.value]
        for e in elts:
            if isinstance(e, ast.Name) and e.id in shared:
                bad.append(e)
            if isinstance(e, ast.Name):
                # a name assigned from the shared object directly
                for d in walk(gds):
                    if isinstance(d, ast.Assign) and txt(
                            d.targets[0]) == e.id and isinstance(
                            d.value, ast.Name) and d.value.id in shared:
                        bad.append(e)
    ctx.ob("R17.4", not bad, "get_downsampled_scatter returns only freshly "
           "allocated arrays (fancy-indexed data, a new mask)" if not bad
           else f"get_downsampled_scatter returns the shared cached object "
           f"`{txt(bad[0])}`", node=st, label="downsample result not shared")
    # the mask written into is a fresh array
    masks = [n for n in walk(gds) if isinstance(n, ast.Assign) and isinstance(
        n.targets[0], ast.Subscript) and isinstance(n.value, ast.Name)
        and n.value.id in shared]
    ok = True
    for m in masks:
        base = txt(m.targets[0].value)
        d = [n for n in walk(gds) if isinstance(n, ast.Assign) and txt(
            n.targets[0]) == base]
        ok &= bool(d) and all(isinstance(x.value, ast.Call) and call_name(
            x.value) in ("np.zeros", "np.zeros_like", "np.empty")
            for x in d)
    ctx.ob("R17.4", ok and bool(masks), "the dataset-level mask is a fresh "
           "array filled from the cached index" if ok and masks else
           "dataset-level mask aliases the cached index", node=gds,
           label="mask fresh")
    # who else calls memoised functions inside the package?
    names = {f.name for _, f in mem}
    sites = []
    for rel in repo.files("dclab/"):
        for c in [n for n in ast.walk(repo.tree(rel))
                  if isinstance(n, ast.Call)]:
            if last_attr(c) in names:
                sites.append((rel, c))
    ctx.stat("call sites of memoised functions", [
        f"{r}:{c.lineno} {short(c, 40)}" for r, c in sites])
    allowed = {CORE, KDE, DS, "dclab/kde_contours.py"}
    for rel, c in sites:
        ok = rel in allowed
        ctx.ob("R17.4", ok, f"call site in {rel} is covered by the escape "
               f"rule" if ok else f"new call site of a memoised function in "
               f"{rel}: result may escape uncopied", node=c,
               key=f"{rel}::{last_attr(c)} call site", nontrivial=False)


def r175(ctx, repo):
    """`file_monitoring_lru_cache` (loaded from its syntax tree) on a model
    file system: every call returns what a fresh call of the wrapped
    function returns for the file as it is now."""
    from ..lib_C17 import FileModel
    call = repo.func(UT, "file_monitoring_lru_cache.__call__")
    fails = {}

    def fail(key, msg):
        if any(f"'{k}'" in msg for k in ("P", "MPath", "Stat")) and (
                "AttributeError" in msg or "TypeError" in msg):
            raise AnalysisError("r175: the model lacks what the code uses: "
                                + msg[:300])
        fails.setdefault(key, msg)
    SEC = 10**9
    nev = 0
    for as_path in (False, True):
        m = FileModel(repo)
        m.fs.alias["/d/link.rtdc"] = "/d/a.rtdc"
        m.links.add("/d/link.rtdc")
        m.fs.alias["/d/sub/../a.rtdc"] = "/d/a.rtdc"
        m.write("/d/a.rtdc", b"abc", 5 * SEC)
        m.write("/d/b.rtdc", b"abc", 5 * SEC)
        m.write("/e/a.rtdc", b"xyz", 5 * SEC)
        steps = [
            ("call", "/d/a.rtdc", (), {}),
            ("call", "/d/a.rtdc", (), {}),
            ("call", "/d/b.rtdc", (), {}),
            ("call", "/e/a.rtdc", (), {}),
            ("call", "/d/link.rtdc", (), {}),
            ("call", "/d/sub/../a.rtdc", (), {}),
            ("chdir", "a.rtdc", "/d/a.rtdc", "working directory /d"),
            ("call", "a.rtdc", (), {}),
            ("chdir", "a.rtdc", "/e/a.rtdc", "working directory /e"),
            ("call", "a.rtdc", (), {}),
            ("call", "/d/a.rtdc", (), {"count": 2}),
            ("call", "/d/a.rtdc", (), {"count": 3}),
            ("call", "/d/a.rtdc", (7,), {}),
            ("call", "/d/a.rtdc", (7, 2), {}),
            ("call", "/d/a.rtdc", (8,), {}),
            ("write", "/d/a.rtdc", b"abd", 5 * SEC + 1,
             "rewritten with the same size, 1 ns later"),
            ("call", "/d/a.rtdc", (), {}),
            ("call", "/d/link.rtdc", (), {}),
            ("write", "/d/a.rtdc", b"abde", 5 * SEC + 1,
             "rewritten with another size, same time stamp"),
            ("call", "/d/a.rtdc", (), {}),
            ("write", "/d/a.rtdc", b"abdf", 5 * SEC + 500,
             "rewritten within the same second (float seconds equal)"),
            ("call", "/d/a.rtdc", (), {}),
            ("call", "/d/a.rtdc", (), {"count": 2}),
            ("remove", "/d/a.rtdc"),
            ("call", "/d/a.rtdc", (), {}),
            ("write", "/d/a.rtdc", b"new", 9 * SEC, "created again"),
            ("call", "/d/a.rtdc", (), {}),
            ("call", "/d/b.rtdc", (), {}),
        ]
        hist = []
        for st in steps:
            if st[0] == "write":
                m.write(st[1], st[2], st[3])
                hist.append(f"{st[1]} {st[4]}")
                continue
            if st[0] == "chdir":
                m.fs.alias[st[1]] = st[2]
                hist.append(st[3])
                continue
            if st[0] == "remove":
                m.remove(st[1])
                hist.append(f"{st[1]} removed")
                continue
            _, path, args, kw = st
            r = m.call(path, *args, as_path=as_path, **kw)
            nev += 1
            c = m.fs.canon(path)
            shown = f"f({path!r}" + "".join(f", {a!r}" for a in args) \
                + "".join(f", {k}={v!r}" for k, v in kw.items()) + ")"
            hist.append(shown)
            if c in m.fs.files:
                want = ("ok", ("digest", m.meta[c][0], tuple(args),
                               tuple(sorted(kw.items()))))
            else:
                want = None
            if want is None:
                if r[0] == "ok":
                    fail("returns fresh value", f"history [{'; '.join(hist)}]"
                         f": {shown} on a missing file -> {r!r} (a "
                         "remembered value), a fresh call raises")
            elif r != want:
                fail("returns fresh value", f"history [{'; '.join(hist)}]: "
                     f"{shown} -> {r!r}, a fresh call of the wrapped "
                     f"function returns {want[1]!r}")
    ctx.stat("R17.5 model calls", nev)
    ok = "returns fresh value" not in fails
    ctx.ob("R17.5", ok, f"{nev} model calls (same file through a link and a "
           "`..` detour, equal content under other names, positional and "
           "keyword extra arguments, file rewritten with equal size / equal "
           "time stamp / within the same second, removed and created again; "
           "str and Path): every call returns what a fresh call returns"
           if ok else fails["returns fresh value"], node=call,
           label="model: returns fresh value")
    hf = repo.func(UT, "hashfile")
    ok = any("file_monitoring_lru_cache" in txt(d) for d in hf.decorator_list)
    ctx.ob("R17.5", ok, "hashfile is memoised through the file-monitoring "
           "cache" if ok else "hashfile uses another cache", node=hf,
           label="hashfile decorated", nontrivial=False)


def r176(ctx, repo):
    """`LazyContourList` (loaded from its syntax tree) over model masks:
    every access sequence returns the contour of the requested event, the
    stores stay bounded and parallel."""
    import itertools
    from ..lib_C17 import LazyModel
    gi = repo.func(CO, "LazyContourList.__getitem__")
    fails = {}

    def fail(key, msg):
        if "'Mask'" in msg and ("AttributeError" in msg
                                or "TypeError" in msg):
            raise AnalysisError("r176: the model lacks what the code uses: "
                                + msg[:300])
        fails.setdefault(key, msg)
    nev = 0
    lens = (1, 2, 3, 4) if ctx.tier != "thorough" else (1, 2, 3, 4, 5)
    for me in (1, 2, 3, None, 0):
        seqs = itertools.chain.from_iterable(
            itertools.product((0, 1, 2), repeat=n) for n in lens)
        for seq in seqs:
            m = LazyModel(repo, 4, me)
            for k, idx in enumerate(seq):
                r = m.get(idx)
                nev += 1
                what = (f"max_events={me}, accesses {list(seq[:k + 1])}")
                if r != ("ok", ("contour", idx)):
                    fail("returns requested contour", f"{what}: [{idx}] -> "
                         f"{r!r}, expected the contour of event {idx}")
                st = m.stores()
                sizes = {k_: len(v) for k_, v in st.items()}
                if me and any(n > me for n in sizes.values()):
                    fail("bounded", f"{what}: {sizes} entries kept, "
                         f"max_events={me}")
                if len(set(sizes.values())) > 1:
                    fail("stores parallel", f"{what}: the stores have "
                         f"different lengths {sizes}")
    # negative integer indices count from the last *event* (not from the
    # number of contours cached so far), whatever was accessed before
    for me in (2, None):
        for seq in itertools.chain.from_iterable(
                itertools.product((-1, -2, 0, 3), repeat=n)
                for n in (1, 2, 3)):
            m = LazyModel(repo, 4, me)
            for k, idx in enumerate(seq):
                r = m.get(idx)
                nev += 1
                if r != ("ok", ("contour", idx % 4)):
                    fail("returns requested contour",
                         f"max_events={me}, 4 events, accesses "
                         f"{list(seq[:k + 1])}: [{idx}] -> {r!r}, expected "
                         f"the contour of event {idx % 4}")
    # slices, negative indices, errors
    m = LazyModel(repo, 4, 2)
    r = m.get(slice(1, 4))
    if r != ("ok", [("contour", 1), ("contour", 2), ("contour", 3)]):
        fail("returns requested contour", f"[1:4] -> {r!r}")
    r = m.get(slice(None, None, 2))
    if r != ("ok", [("contour", 0), ("contour", 2)]):
        fail("returns requested contour", f"[::2] -> {r!r}")
    def aligned(m_, what):
        """position p of the contour store holds the contour of the event
        at position p of the index store"""
        st_ = m_.stores()
        idxs = [v for v in st_.values() if v and all(
            isinstance(x, int) for x in v)]
        cons = [v for v in st_.values() if v and all(
            isinstance(x, tuple) for x in v)]
        for iv in idxs:
            for cv in cons:
                if len(iv) != len(cv) or any(
                        c != ("contour", i) for i, c in zip(iv, cv)):
                    fail("stores parallel", f"{what}: indices {list(iv)} "
                         f"against contours {list(cv)}: the positions have "
                         "drifted apart, a hit returns another event's "
                         "contour")
    for me in (2, 3, None):
        for order in ((1, 2, 1, 3, 2, 0, 3), (2, 2, 0, 2, 1), (0, 2, 3, 2)):
            m = LazyModel(repo, 4, me, failing=(2,))
            for k, i in enumerate(order):
                r = m.get(i)
                nev += 1
                what = (f"max_events={me}, event 2 has no valid contour, "
                        f"accesses {list(order[:k + 1])}")
                if i == 2:
                    if r[0] == "ok":
                        fail("errors propagate", f"{what}: [2] -> {r!r} "
                             "instead of the error of the contour "
                             "computation")
                elif r != ("ok", ("contour", i)):
                    fail("returns requested contour", f"{what}: [{i}] -> "
                         f"{r!r}, expected the contour of event {i}")
                aligned(m, what)
    m = LazyModel(repo, 4, "default")
    for i in (0, 1, 2, 3, 0):
        r = m.get(i)
        if r != ("ok", ("contour", i)):
            fail("returns requested contour", f"default bound: [{i}] -> "
                 f"{r!r}")
    ctx.stat("R17.6 model accesses", nev)
    obs = [("returns requested contour", "every access of every sequence "
            f"({nev} accesses, bounds 1, 2, 3, none) returns the contour of "
            "the requested event"),
           ("bounded", "never more than max_events contours kept"),
           ("stores parallel", "the stores have equal length after every "
            "access"),
           ("errors propagate", "a failing contour computation raises")]
    for key, good in obs:
        ok = key not in fails
        ctx.ob("R17.6", ok, good if ok else fails[key], node=gi,
               label="model: " + key)


def r177(ctx, repo):
    for rel, f in memoised(repo):
        tree = repo.tree(rel)
        mutable = set()
        for st in tree.body:
            if isinstance(st, ast.Assign) and isinstance(
                    st.value, (ast.List, ast.Dict, ast.Set, ast.ListComp,
                               ast.DictComp)):
                for t in st.targets:
                    if isinstance(t, ast.Name):
                        mutable.add(t.id)
        local = {a.arg for a in f.args.args} | {
            n.id for n in walk(f) if isinstance(n, ast.Name)
            and isinstance(n.ctx, ast.Store)}
        used = {n.id for n in walk(f) if isinstance(n, ast.Name)
                and isinstance(n.ctx, ast.Load)} - local
        bad = used & mutable
        has_global = any(isinstance(n, (ast.Global, ast.Nonlocal))
                         for n in walk(f))
        ctx.ob("R17.7", not bad and not has_global,
               f"{f.name} reads no module-level mutable object" if not bad
               and not has_global else
               f"{f.name} depends on module state {sorted(bad)}: the key "
               f"does not cover it", node=f, label="no module state")
        # time / environment
        t = txt(f)
        bad2 = [k for k in ("time.time", "os.environ", "datetime.")
                if k in t]
        ctx.ob("R17.7", not bad2, f"{f.name} reads no clock/environment"
               if not bad2 else f"{f.name} reads {bad2}", node=f,
               label="no ambient input", nontrivial=False)


H5EV = "dclab/rtdc_dataset/fmt_hdf5/events.py"
HIEV = "dclab/rtdc_dataset/fmt_hierarchy/events.py"


def r178(ctx, repo):
    """Lazily cached feature arrays that are handed out without a copy must
    be read-only (otherwise an in-place edit of what the caller received
    changes what every later access returns)."""
    n = 0
    from ..cfg import CFG
    for rel in (H5EV, HIEV, "dclab/rtdc_dataset/feat_basin.py"):
        tree = repo.tree(rel)
        for cls in [c for c in tree.body if isinstance(c, ast.ClassDef)]:
            # (a fill delegated to a private helper is followed)
            meths = []
            for f in cls.body:
                if isinstance(f, ast.FunctionDef):
                    g = inline_helpers(repo, rel, f)
                    from ..core import link as _link
                    _link(g)
                    g.parent = cls
                    meths.append(g)
            for m in meths:
                for r in [x for x in walk(m) if isinstance(x, ast.Return)]:
                    v = r.value
                    memo = None
                    copied = False
                    if isinstance(v, ast.Call) and call_name(v) in (
                            "np.array", "np.asarray", "np.asanyarray") \
                            and v.args and is_self_attr(v.args[0]) \
                            and v.args[0].attr.startswith("_"):
                        memo = v.args[0].attr
                        cp = kwarg(v, "copy")
                        if call_name(v) == "np.array" and (
                                cp is None or txt(cp) == "True"):
                            copied = True
                    if memo is None:
                        continue
                    # is it an array memo filled lazily in this class?
                    fills = [a for f2 in meths
                             if f2.name != "__init__"
                             for a in walk(f2) if isinstance(a, ast.Assign)
                             and any(is_self_attr(t, memo)
                                     for t in a.targets)]
                    if not fills:
                        continue
                    # a hand-out that is only reachable right after the memo
                    # was filled in the same call, while no other call ever
                    # reads the memo, does not alias anything
                    mcfg = CFG(m)
                    fill_ids = set()
                    for a in fills:
                        fill_ids |= set(mcfg.ids_of(a))
                    st_r = r
                    reach_wo_fill = any(
                        not mcfg.always_before(
                            rid, lambda n_: n_.id in fill_ids)
                        for rid in mcfg.ids_of(st_r))
                    other_reads = False
                    for f2 in meths:
                        if f2 is m:
                            continue
                        for x in walk(f2):
                            if is_self_attr(x, memo) and isinstance(
                                    x.ctx, ast.Load):
                                par = getattr(x, "parent", None)
                                if isinstance(par, ast.Compare) and any(
                                        isinstance(o, (ast.Is, ast.IsNot))
                                        for o in par.ops):
                                    continue
                                other_reads = True
                    if not reach_wo_fill and not other_reads:
                        continue
                    n += 1
                    if copied:
                        ctx.ob("R17.8", True, f"{cls.name}.{m.name} returns "
                               f"a copy of the memo self.{memo}", node=r,
                               key=f"{rel}::{cls.name}.{m.name}::memo "
                                   f"{memo} protected")
                        continue
                    prot = True
                    for a in fills:
                        blk = a.parent.body if hasattr(
                            a.parent, "body") and a in getattr(
                            a.parent, "body", []) else (
                            a.parent.orelse if a in getattr(
                                a.parent, "orelse", []) else [])
                        after = blk[blk.index(a) + 1:] if a in blk else []
                        okp = False
                        for st in after:
                            t_ = txt(st)
                            if f"self.{memo}.setflags(write=False)" in t_ \
                                    or f"self.{memo}.flags.writeable = False" \
                                    in t_:
                                okp = True
                        # the object was protected under a local name just
                        # before it was stored (no re-binding in between)
                        if not okp and isinstance(a.value, ast.Name) \
                                and a in blk:
                            nm_ = a.value.id
                            for st in reversed(blk[:blk.index(a)]):
                                t_ = txt(st)
                                if isinstance(st, ast.Assign) and any(
                                        isinstance(t2, ast.Name)
                                        and t2.id == nm_
                                        for t2 in st.targets):
                                    break
                                if f"{nm_}.setflags(write=False)" in t_ or \
                                        f"{nm_}.flags.writeable = False" \
                                        in t_:
                                    okp = True
                                    break
                        prot = prot and okp
                    ctx.ob("R17.8", prot,
                           f"{cls.name}.{m.name} hands out the memo "
                           f"self.{memo} without copying, and the memo is "
                           f"made read-only where it is filled" if prot else
                           f"{cls.name}.{m.name} hands out the writable memo "
                           f"self.{memo} without copying: an in-place edit "
                           f"by the caller changes what every later access "
                           f"returns", node=r,
                           key=f"{rel}::{cls.name}.{m.name}::memo {memo} "
                               f"protected")
    ctx.stat("R17.8 memo hand-out sites", n)


# ----------------------------------------------------------------------
# finite-model evaluation of the global memo (R17.1 – R17.3)

def _identity_memo_sites(tree):
    """[(function, compare node, return node)]: a function that compares
    one of its arguments *by identity* (``is``, ``id(..)``) with persistent
    state (an attribute of self / the class, a module-level object) and
    returns a value taken from persistent state: a memo keyed on the
    identity of the argument."""
    modlevel = set()
    for st in tree.body:
        if isinstance(st, (ast.Assign, ast.AnnAssign)):
            tg = st.targets if isinstance(st, ast.Assign) else [st.target]
            for t in tg:
                if isinstance(t, ast.Name):
                    modlevel.add(t.id)
    classes = {st.name for st in ast.walk(tree)
               if isinstance(st, ast.ClassDef)}
    out = []
    for f in ast.walk(tree):
        if not isinstance(f, (ast.FunctionDef, ast.AsyncFunctionDef)):
            continue
        a = f.args
        params = [x.arg for x in a.posonlyargs + a.args + a.kwonlyargs]
        if a.vararg:
            params.append(a.vararg.arg)
        if a.kwarg:
            params.append(a.kwarg.arg)
        selfname = params[0] if params and params[0] in ("self", "cls") \
            else None
        pset = set(params) - {selfname}
        binds = {}

        def bind(target, value):
            # element-wise through tuples, zip and enumerate
            if isinstance(target, (ast.Tuple, ast.List)):
                if isinstance(value, (ast.Tuple, ast.List)) and len(
                        value.elts) == len(target.elts):
                    for t, v in zip(target.elts, value.elts):
                        bind(t, v)
                    return
                if isinstance(value, ast.Call) and isinstance(
                        value.func, ast.Name) and not value.keywords:
                    if value.func.id == "zip" and len(value.args) == len(
                            target.elts):
                        for t, v in zip(target.elts, value.args):
                            bind(t, v)
                        return
                    if value.func.id == "enumerate" and value.args \
                            and len(target.elts) == 2:
                        bind(target.elts[1], value.args[0])
                        return
            if isinstance(target, (ast.Tuple, ast.List)):
                for t in target.elts:
                    bind(t, value)
            elif isinstance(target, ast.Starred):
                bind(target.value, value)
            elif isinstance(target, ast.Name):
                # (a store into x[i] / x.a does not make x a local)
                binds.setdefault(target.id, []).append(value)
        for n in ast.walk(f):
            if isinstance(n, ast.Assign):
                for t in n.targets:
                    bind(t, n.value)
            elif isinstance(n, (ast.comprehension, ast.For, ast.AsyncFor)):
                bind(n.target, n.iter)
            elif isinstance(n, ast.NamedExpr):
                binds.setdefault(n.target.id, []).append(n.value)
        stored = set(binds)

        def roots(e, depth=4, seen=()):
            r = set()
            for n in ast.walk(e):
                if isinstance(n, ast.Name) and isinstance(n.ctx, ast.Load):
                    if n.id == selfname:
                        r.add("state")
                    elif n.id in pset and n.id not in stored:
                        r.add("param")
                    elif n.id in stored:
                        if n.id in pset:
                            r.add("param")
                        if depth and n.id not in seen:
                            for v in binds[n.id]:
                                r |= roots(v, depth - 1, seen + (n.id,))
                    elif n.id in modlevel or n.id in classes:
                        r.add("state")
            return r

        tests = []
        for n in ast.walk(f):
            if isinstance(n, ast.Compare):
                sides = [n.left] + list(n.comparators)
                ident = any(isinstance(o, (ast.Is, ast.IsNot))
                            for o in n.ops) or any(
                    isinstance(c, ast.Call) and isinstance(c.func, ast.Name)
                    and c.func.id == "id" for sd in sides
                    for c in ast.walk(sd))
                if not ident or any(isinstance(sd, ast.Constant)
                                    for sd in sides):
                    continue
                if any(isinstance(sd, ast.Name) and sd.id == selfname
                       for sd in sides):
                    continue
                rs = [roots(sd) for sd in sides]
                if any("param" in x for x in rs) and any(
                        "state" in x and "param" not in x for x in rs):
                    tests.append(n)
        if not tests:
            continue
        rets = [n for n in ast.walk(f) if isinstance(n, ast.Return)
                and n.value is not None and "state" in roots(n.value)]
        for t in tests:
            for r in rets[:1]:
                out.append((f, t, r))
    return out


def r179(ctx, repo):
    """no memo keyed on the identity of an argument, anywhere in the
    package: arrays are mutable, the same object can hold other content at
    the next call (in-place edits between two calls)"""
    # positive control: the idiom must be recognised on every run
    ctrl = ast.parse(
        "_last = {'x': None, 'r': None}\n"
        "def f(x):\n"
        "    if _last['x'] is x:\n"
        "        return _last['r']\n"
        "    _last.update(x=x, r=g(x))\n"
        "    return _last['r']\n"
        "class C:\n"
        "    def m(self, *args):\n"
        "        if all(a is b for a, b in zip(args, self._last[0])):\n"
        "            return self._last[1]\n"
        "        return h(args)\n"
        "    def ok(self, other):\n"
        "        if other is self:\n"
        "            return self._v\n"
        "        return other.value is None\n")
    if len(_identity_memo_sites(ctrl)) != 2:
        raise AnalysisError("R17.9 positive control: identity-keyed memo "
                            "idioms are not recognised")
    nfun = 0
    bad = []
    for rel in repo.files("dclab/", suffixes=(".py", ".pyx")):
        try:
            tree = repo.tree(rel)
        except AnalysisError:
            raise
        nfun += sum(isinstance(n, (ast.FunctionDef, ast.AsyncFunctionDef))
                    for n in ast.walk(tree))
        for f, t, r in _identity_memo_sites(tree):
            bad.append((rel, f, t, r))
    if nfun < 600:
        raise AnalysisError(f"R17.9 scanned only {nfun} functions")
    for rel, f, t, r in bad:
        ctx.ob("R17.9", False,
               f"`{short(t, 60)}` in {f.name} compares an argument by "
               f"identity with stored state and `{short(r, 40)}` returns "
               "the stored value: a memo keyed on the identity of a mutable "
               "argument serves the result for the old content after an "
               "in-place modification", node=t,
               label=f"no identity-keyed memo in {f.name}")
    ctx.ob("R17.9", not bad, f"{nfun} functions of the package: none "
           "returns stored state under an identity test of an argument"
           if not bad else f"{len(bad)} identity-keyed memo(s)",
           node=repo.tree(CA), key="dclab::package::no identity-keyed memo")
    ctx.stat("R17.9 functions scanned", nfun)


def r17_eval(ctx, repo):
    """`Cache` (loaded from its syntax tree) evaluated on model functions,
    model arrays and a concatenating model of md5: which calls share an
    entry, what a hit returns, what a miss computes, how many entries are
    kept and whether the two stores stay in step."""
    from ..lib_C17 import Model, Fn, MArr
    cnode = repo.cls(CA, "Cache")
    fn = {f.name: f for f in cnode.body if isinstance(f, ast.FunctionDef)}
    for need in ("__call__", "clear_cache"):
        if need not in fn:
            raise AnalysisError(f"Cache.{need} vanished")
    call_node = fn["__call__"]
    upd_node = fn.get("_update_hash", call_node)
    fails = {}

    def fail(key, msg):
        fails.setdefault(key, msg)
    raw = b"\x01\x00\x02\x00\x03\x00\x04\x00"
    A1 = MArr(raw, "<u2", (4,))
    arrays = {
        "uint16 (4,)": A1,
        "uint8 (8,) same bytes": MArr(raw, "<u1", (8,)),
        "uint16 (2, 2) same bytes": MArr(raw, "<u2", (2, 2)),
        "big-endian uint16 (4,) same bytes": MArr(raw, ">u2", (4,)),
        "int16 (4,) same bytes": MArr(raw, "<i2", (4,)),
        "uint16 (4,) other bytes": MArr(raw[:-2] + b"\x09\x00", "<u2", (4,)),
    }
    big = bytes(range(1, 200)) * 20
    B1 = MArr(big, "<u1", (len(big),))
    B2 = MArr(big[:2000] + b"\xff" + big[2001:], "<u1", (len(big),))
    # far beyond any sampling threshold (2**16 elements and more)
    nbig = 3 * 2**16 + 5
    bigb = bytes((i * 7 + 3) % 251 for i in range(nbig))
    BIG1 = MArr(bigb, "<u1", (nbig,))
    BIG2 = MArr(bytes(b if i % 2 == 0 else (b + 1) % 256
                      for i, b in enumerate(bigb)), "<u1", (nbig,))
    BIG3 = MArr(bigb[:-1] + bytes([(bigb[-1] + 1) % 256]), "<u1", (nbig,))
    # argument lists that denote different computations
    distinct = [
        ("('ab', 'c')", ("ab", "c"), {}),
        ("('a', 'bc')", ("a", "bc"), {}),
        ("('abc',)", ("abc",), {}),
        ("('a', 'b', 'c')", ("a", "b", "c"), {}),
        ("(['a', 'b'], 'c')", (["a", "b"], "c"), {}),
        ("(['a'], 'b', 'c')", (["a"], "b", "c"), {}),
        ("(['a', 'b', 'c'],)", (["a", "b", "c"],), {}),
        ("(1,)", (1,), {}),
        ("('1',)", ("1",), {}),
        ("(1.0,)", (1.0,), {}),
        ("(True,)", (True,), {}),
        ("(None,)", (None,), {}),
        ("(None, 'x')", (None, "x"), {}),
        ("('x', None)", ("x", None), {}),
        ("('x',)", ("x",), {}),
        ("('x', a=None)", ("x",), {"a": None}),
        ("('x', b=None)", ("x",), {"b": None}),
        ("('x', False)", ("x", False), {}),
        ("('x', 0)", ("x", 0), {}),
        ("()", (), {}),
        ("(a=1)", (), {"a": 1}),
        ("(b=1)", (), {"b": 1}),
        ("(a=1, b=2)", (), {"a": 1, "b": 2}),
        ("(a=2, b=1)", (), {"a": 2, "b": 1}),
        ("('a', 1)", ("a", 1), {}),
        ("(a='1')", (), {"a": "1"}),
        ("(large array)", (B1,), {}),
        ("(large array, one byte in the middle changed)", (B2,), {}),
        ("(a=large array)", (), {"a": B1}),
        ("(very large array)", (BIG1,), {}),
        ("(very large array, every odd byte changed)", (BIG2,), {}),
        ("(very large array, only the last byte changed)", (BIG3,), {}),
        ("(a=large array, one byte changed)", (), {"a": B2}),
    ] + [(f"({k})", (v,), {}) for k, v in arrays.items()] + [
        (f"([{k}],)", ([v],), {}) for k, v in list(arrays.items())[:2]] + [
        (f"(a={k})", (), {"a": v}) for k, v in list(arrays.items())[:2]]
    m = Model(repo, max_size=1000)
    f = Fn("kde_histogram", "doc of f", "dclab/kde_methods.py")
    w = m.wrap(f)
    results = []
    for label, args, kw in distinct:
        n0 = len(f.calls)
        r = m.call(w, *args, **kw)
        if r[0] != "ok":
            fail("callable", f"Cache call with {label} -> {r!r}")
            continue
        results.append((label, r[1], args, kw))
        if len(f.calls) == n0 + 1:
            cargs, ckw = f.calls[-1]
            if tuple(cargs) != tuple(args) or dict(ckw) != dict(kw):
                fail("miss computes", f"f{label}: the wrapped function was "
                     f"called with {cargs!r}, {ckw!r}")
        elif len(f.calls) > n0 + 1:
            fail("miss computes", f"f{label}: the wrapped function was "
                 f"called {len(f.calls) - n0} times")
    seen = {}
    for label, val, args, kw in results:
        if val in seen:
            fail("key injective", f"f{label} returns the cached result of "
                 f"f{seen[val]}: different arguments share an entry")
        seen.setdefault(val, label)
    # hits: an identical call returns the stored object, without computing
    ncalls = len(f.calls)
    for label, val, args, kw in results:
        r = m.call(w, *args, **kw)
        if r != ("ok", val):
            fail("hit returns stored", f"second f{label} -> {r!r}, first "
                 f"returned {val!r}")
    if len(f.calls) != ncalls:
        fail("hit returns stored", "an identical second call computes again "
             f"({len(f.calls) - ncalls} recomputations)")
    # equal meaning -> same entry
    r1 = m.call(w, "x", a=1, b=2)
    r2 = m.call(w, "x", b=2, a=1)
    if r1 != r2:
        fail("kw order canonical", "f('x', a=1, b=2) and f('x', b=2, a=1) "
             "get different entries")
    r1 = m.call(w, A1)
    r2 = m.call(w, A1.copy())
    if r1 != r2:
        fail("equal arrays share", "an equal copy of an array argument is "
             "computed again")
    nc = MArr(raw, "<u2", (4,), contiguous=False)
    r3 = m.call(w, nc)
    if r3[0] != "ok":
        fail("array layout independent", "a non-contiguous array argument "
             f"-> {r3!r}")
    # the argument objects of the previous call, edited in place: the
    # content decides, not the identity
    m2 = Model(repo, max_size=1000)
    f3 = Fn("downsample_grid", "doc", "dclab/downsampling.py")
    w3 = m2.wrap(f3)
    E1 = MArr(raw, "<u2", (4,))
    E2 = MArr(raw, "<u2", (4,))
    for label, args, kw in (("f(E1, E2, 5)", (E1, E2, 5), {}),
                            ("f(E1, b=E2)", (E1,), {"b": E2})):
        E2.edit_in_place(raw)
        r1 = m2.call(w3, *args, **kw)
        n0 = len(f3.calls)
        E2.edit_in_place(raw[:-2] + b"\x7f\x00")
        r2 = m2.call(w3, *args, **kw)
        if r1[0] != "ok" or r2[0] != "ok":
            fail("callable", f"{label} -> {r1!r}, {r2!r}")
        elif r1 == r2 or len(f3.calls) != n0 + 1:
            fail("in-place edit recomputes", f"{label} with the same array "
                 "objects after one of them was modified in place returns "
                 "the result computed for the old content")
    # a named signature with two options: different subsets of the options
    # are different computations under every binding of the arguments
    m3 = Model(repo, max_size=1000)
    f4 = Fn("downsample_grid", "doc", "dclab/downsampling.py",
            params=("a", "b", "samples", "remove_invalid", "ret_idx"),
            defaults=(False, False))
    w4 = m3.wrap(f4)
    outs4 = {}
    for label, args, kw in (
            ("f(A, B, 5)", (A1, A1, 5), {}),
            ("f(A, B, 5, ret_idx=True)", (A1, A1, 5), {"ret_idx": True}),
            ("f(A, B, 5, remove_invalid=True)", (A1, A1, 5),
             {"remove_invalid": True}),
            ("f(A, B, 5, False, True)", (A1, A1, 5, False, True), {}),
            ("f(A, B, 5, True, True)", (A1, A1, 5, True, True), {}),
            ("f(A, B, 5, True, False)", (A1, A1, 5, True, False), {}),
            ("f(A, B, samples=6)", (A1, A1), {"samples": 6})):
        r = m3.call(w4, *args, **kw)
        if r[0] != "ok":
            fail("callable", f"{label} -> {r!r}")
            continue
        # the spellings of one binding may share an entry
        bound = dict(zip(("a", "b", "samples", "remove_invalid", "ret_idx"),
                         (None, None, None, False, False)))
        bound.update(zip(("a", "b", "samples", "remove_invalid", "ret_idx"),
                         [id(x) if isinstance(x, MArr) else x for x in args]))
        bound.update({k: v for k, v in kw.items()})
        bkey = tuple(sorted((k, repr(v)) for k, v in bound.items()))
        for (ol, ob), ov in outs4.items():
            if ov == r[1] and ob != bkey:
                fail("key injective", f"{label} returns the cached result "
                     f"of {ol}: different options share an entry")
        outs4[(label, bkey)] = r[1]
    # function identity
    m = Model(repo, max_size=1000)
    variants = [("kde_histogram", "doc", "dclab/kde_methods.py"),
                ("kde_gauss", "doc", "dclab/kde_methods.py"),
                ("kde_histogram", "doc", "dclab/other.py"),
                ("kde_histogram", "another doc", "dclab/kde_methods.py")]
    outs = {}
    for v in variants:
        fv = Fn(*v)
        r = m.call(m.wrap(fv), "x", 1)
        if r[0] != "ok":
            fail("callable", f"Cache call of {v} -> {r!r}")
            continue
        if not fv.calls:
            fail("function identity", f"{v[0]} ({v[2]}, doc {v[1]!r}) is "
                 f"served the result of "
                 f"{[k for k, x in outs.items() if x == r[1]]}: two "
                 f"memoised functions share entries")
        outs[v] = r[1]
    # bound and consistency of the two stores
    for ms in (1, 3):
        m = Model(repo, max_size=ms)
        f2 = Fn("g", "doc", "dclab/downsampling.py")
        w2 = m.wrap(f2)
        for i in range(ms + 4):
            r = m.call(w2, i)
            if r[0] != "ok":
                fail("callable", f"MAX_SIZE={ms}: call #{i} -> {r!r}")
                break
            cache, keys = m.stores()
            if len(cache) > ms:
                fail("bound", f"MAX_SIZE={ms}: {len(cache)} entries after "
                     f"{i + 1} distinct calls")
            if set(keys) != set(cache) or len(keys) != len(set(keys)):
                fail("stores in step", f"MAX_SIZE={ms}: after {i + 1} "
                     f"distinct calls the key list has {len(keys)} entries "
                     f"({len(set(keys))} distinct), the cache {len(cache)}: "
                     f"the two stores drift apart")
            # the newest entry is served
            r2 = m.call(w2, i)
            if r2 != r:
                fail("newest entry kept", f"MAX_SIZE={ms}: the entry just "
                     f"stored for call #{i} is not served")
        n0 = len(f2.calls)
        m.call(w2, 0)
        if len(f2.calls) == n0:
            fail("oldest entry evicted", f"MAX_SIZE={ms}: the first of "
                 f"{ms + 4} entries is still served (eviction removes "
                 f"another one)")
        r = m.clear()
        if r[0] != "ok":
            fail("clear", f"clear_cache() -> {r!r}")
        else:
            cache, keys = m.stores()
            if cache or keys:
                fail("clear", "clear_cache leaves entries behind")
            n0 = len(f2.calls)
            m.call(w2, ms + 3)
            if len(f2.calls) == n0:
                fail("clear", "an entry survives clear_cache")
    obs = [
        ("R17.1", "callable", call_node, "every model call evaluates"),
        ("R17.1", "key injective", upd_node, f"{len(distinct)} argument "
         "lists that denote different computations get different entries "
         "(types, delimiters, keyword names, dtype, byte order, shape, "
         "content of large arrays)"),
        ("R17.1", "kw order canonical", call_node, "keyword order does not "
         "influence the entry"),
        ("R17.1", "function identity", call_node, "memoised functions that "
         "differ in name, file or doc never share entries"),
        ("R17.1", "hit returns stored", call_node, "an identical call "
         "returns the stored result without computing"),
        ("R17.1", "miss computes", call_node, "a miss calls the function "
         "with exactly the given arguments"),
        ("R17.1", "in-place edit recomputes", call_node, "the same "
         "argument objects with edited content are computed again (the "
         "content decides, not the identity)"),
        ("R17.2", "equal arrays share", upd_node, "equal arrays share an "
         "entry"),
        ("R17.2", "array layout independent", upd_node, "non-contiguous "
         "arrays can be hashed"),
        ("R17.3", "bound", call_node, "never more than MAX_SIZE entries"),
        ("R17.3", "stores in step", call_node, "key list and cache hold "
         "the same keys after every call"),
        ("R17.3", "newest entry kept", call_node, "the entry just stored is "
         "served"),
        ("R17.3", "oldest entry evicted", call_node, "eviction removes the "
         "oldest entry"),
        ("R17.3", "clear", fn["clear_cache"], "clear_cache empties both "
         "stores"),
    ]
    for rule, key, node, good in obs:
        ok = key not in fails
        ctx.ob(rule, ok, good if ok else fails[key], node=node, label=key)
    unknown = set(fails) - {k for _, k, _, _ in obs}
    if unknown:
        raise AnalysisError(f"r17_eval: unregistered verdicts {unknown}")
    ctx.stat("R17 model calls: distinct argument lists", len(distinct))


def r1710(ctx, repo):
    """A cache that an object fills lazily (contours, event-wise child
    features, basin proxies, …) must be that object's own: an attribute
    bound at class level to a list / dict / set / deque / array and mutated
    in place through ``self`` without being re-bound per instance in
    ``__init__`` is one object for all instances – what one dataset cached
    is served for another.  Registries addressed through the class name are
    intended sharing and are not judged.  One obligation per class of the
    anchored modules."""
    from ..lib_common import shared_class_state
    rels = ["dclab/cached.py", "dclab/kde_methods.py", "dclab/util.py",
            "dclab/features/contour.py",
            "dclab/rtdc_dataset/fmt_hierarchy/events.py",
            "dclab/rtdc_dataset/feat_basin.py"]
    n = 0
    for rel in rels:
        for c in [x for x in ast.walk(repo.tree(rel))
                  if isinstance(x, ast.ClassDef)]:
            n += 1
            found = shared_class_state(c)
            attrs = sorted({a for a, _, _ in found})
            ctx.ob("R17.10", not found,
                   f"{c.name}: no class-level mutable object is mutated "
                   "through an instance" if not found else
                   f"{c.name}: `{attrs[0]}` is bound at class level to a "
                   f"mutable object and changed in place through self "
                   f"(`{short(found[0][2], 50)}`), __init__ never gives the "
                   "instance its own: every instance shares it – what one "
                   "object cached is served by another",
                   node=found[0][2] if found else c,
                   key=f"{rel}::{c.name}::cache state per instance")
    ctx.stat("R17.10 classes", n)


def run(ctx):
    repo = ctx.repo
    ctx.rule("R17.8", "lazily cached feature arrays handed out uncopied are "
             "read-only", minimum=2)
    r178(ctx, repo)
    ctx.rule("R17.1", "Cache key covers args, kw names+values, function "
             "identity; one key for lookup/hit/store", minimum=6)
    ctx.rule("R17.2", "array key covers dtype, shape, bytes; arguments "
             "delimited", minimum=2)
    ctx.rule("R17.3", "eviction keeps key list and cache in step", minimum=4)
    ctx.rule("R17.4", "shared cached objects reach the dataset interface "
             "only through allocation", minimum=7)
    ctx.rule("R17.5", "file cache: every call returns what a fresh call "
             "returns (model file system)", minimum=2)
    ctx.rule("R17.6", "LazyContourList deques bounded and filled together",
             minimum=4)
    ctx.rule("R17.7", "memoised functions read no module state", minimum=4)
    r17_eval(ctx, repo)
    r174(ctx, repo)
    r175(ctx, repo)
    r176(ctx, repo)
    r177(ctx, repo)
    ctx.rule("R17.9", "no memo keyed on the identity of an argument",
             minimum=1)
    r179(ctx, repo)
    ctx.rule("R17.10", "lazily filled caches of objects belong to one "
             "instance: no class-level mutable object is mutated through "
             "self", minimum=12)
    r1710(ctx, repo)


MUTANTS = [
    ("contour cache indices shared through a class-level list",
     "dclab/features/contour.py",
     [("class LazyContourList(object):\n",
       "class LazyContourList(object):\n    indices = []\n"),
      ("        self.indices = deque(maxlen=max_events or None)\n", "")],
     "R17.10"),
    ("identity-keyed memo in get_bad_vals (seeded C17_12)", KDE,
     ("    return np.isnan(x) | np.isinf(x) | np.isnan(y) | np.isinf(y)\n",
      "    if _last_bad[0] is x and _last_bad[1] is y:\n"
      "        return _last_bad[2]\n"
      "    _last_bad[:] = [x, y, np.isnan(x) | np.isinf(x) | np.isnan(y)"
      " | np.isinf(y)]\n"
      "    return _last_bad[2]\n\n\n_last_bad = [None, None, None]\n"),
     "R17.9"),
    ("dtype enters the key by name only (seeded C17_9)", CA,
     ("{arg.dtype.str}", "{arg.dtype.name}"), "R17."),
    ("kw values not hashed", CA,
     ("            self._update_hash(kwargs[k])\n", ""), "R17."),
    ("kw names not hashed", CA,
     ("            self._update_hash(k)\n", ""), "R17."),
    ("function name not hashed", CA,
     ("        self._update_hash(self.func.__name__)\n", ""), "R17."),
    ("filename not hashed", CA,
     ("        self._update_hash(self.func.__code__.co_filename)\n", ""),
     "R17."),
    ("args not hashed", CA,
     ("        for arg in args:\n            self._update_hash(arg)\n",
      "        for arg in args[:1]:\n            self._update_hash(arg)\n"),
     "R17."),
    ("dtype dropped from key (F17 returns)", CA,
     ('header = f"ndarray:{arg.dtype.str}:{arg.shape}:"',
      'header = f"ndarray:{arg.shape}:"'), "R17."),
    ("shape dropped from key (F17 returns)", CA,
     ('header = f"ndarray:{arg.dtype.str}:{arg.shape}:"',
      'header = f"ndarray:{arg.dtype.str}:"'), "R17."),
    ("scalar delimiter dropped", CA,
     ('            header = f"{type(arg).__name__}:{len(data)}:"\n'
      '            self.ahash.update(header.encode(\'utf-8\'))\n', ""),
     "R17."),
    ("bytes dropped from key", CA,
     ("            self.ahash.update(np.ascontiguousarray(arg).view("
      "np.uint8))\n", ""), "R17."),
    ("key list not appended", CA,
     ("            Cache._keys.append(ref)\n", ""), "R17."),
    ("evicts newest", CA,
     ("delref = Cache._keys.pop(0)", "delref = Cache._keys.pop()"), "R17."),
    ("evicted key stays in cache", CA,
     ("                Cache._cache.pop(delref)\n", ""), "R17."),
    ("clear_cache keeps keys", CA,
     ("        Cache._keys = []\n", ""), "R17."),
    ("wrapper returns cached array", KDE,
     ("        density[~bad_out] = kde_method(ev_x, ev_y,\n"
      "                                       xo, yo,\n"
      "                                       *args, **kwargs)\n",
      "        density = kde_method(ev_x, ev_y,\n"
      "                             xo, yo,\n"
      "                             *args, **kwargs)\n"), "R17.4"),
    ("kde_gauss exposed without wrapper", KDE,
     ("@ignore_nan_inf\n@Cache\ndef kde_gauss", "@Cache\ndef kde_gauss"),
     "R17.4"),
    ("downsampled scatter returns cached mask", CORE,
     ("            mask[mids] = idx\n            return x[idx], y[idx], mask",
      "            return x[idx], y[idx], idx"), "R17.4"),
    ("file cache key loses mtime", UT,
     ("(path_stat.st_mtime_ns, path_stat.st_size)",
      "(path_stat.st_size,)"), "R17.5"),
    ("file cache key loses size", UT,
     ("(path_stat.st_mtime_ns, path_stat.st_size)",
      "(path_stat.st_mtime_ns,)"), "R17.5"),
    ("file cache key in float seconds", UT,
     ("(path_stat.st_mtime_ns, path_stat.st_size)",
      "(path_stat.st_mtime, path_stat.st_size)"), "R17.5"),
    ("file cache: extra arguments collide with the path (F17d returns)", UT,
     ("                    full_path,\n"
      "                    (path_stat.st_mtime_ns, path_stat.st_size),\n",
      "                    path=full_path,\n"
      "                    path_stats=(path_stat.st_mtime_ns, "
      "path_stat.st_size),\n"), "R17.5"),
    ("file cache path unresolved", UT,
     ("full_path = pathlib.Path(path).resolve()",
      "full_path = pathlib.Path(path)"), "R17.5"),
    ("deque bounds differ", CO,
     ("        self.indices = deque(maxlen=max_events or None)",
      "        self.indices = deque(maxlen=None)"), "R17.6"),
    ("index appended only on miss", CO,
     ("            self.contours.append(cont)\n"
      "            self.indices.append(idx)\n",
      "            self.contours.append(cont)\n"), "R17.6"),
    ("hit path deletes from one deque only (seeded C18_1)", CO,
     ("                cont = self.contours[idx_q]\n",
      "                cont = self.contours[idx_q]\n"
      "                del self.indices[idx_q]\n"), "R17.6"),
    ("wrapper: local holding the cached result is returned", KDE,
     ("        density[~bad_out] = kde_method(ev_x, ev_y,\n"
      "                                       xo, yo,\n"
      "                                       *args, **kwargs)\n"
      "        density[bad_out] = np.nan\n        return density\n",
      "        valid_density = kde_method(ev_x, ev_y,\n"
      "                                   xo, yo,\n"
      "                                   *args, **kwargs)\n"
      "        if not np.any(bad_out):\n            return valid_density\n"
      "        density[~bad_out] = valid_density\n"
      "        density[bad_out] = np.nan\n        return density\n"),
     "R17.4"),
    ("wrapper fast path returns the cached array (seeded C12_6)", KDE,
     ("        # Filter events\n",
      "        if not (np.any(bad_in) or np.any(bad_out)):\n"
      "            return kde_method(events_x, events_y, xout, yout,\n"
      "                              *args, **kwargs)\n"
      "        # Filter events\n"), "R17.4"),
    ("basin proxy reuses its writable cache (seeded C17_5)",
     "dclab/rtdc_dataset/feat_basin.py",
     ("        if self._cache is None and self.is_scalar:\n"
      "            self._cache = self.feat_obj[:][self.basinmap]\n",
      "        if self.is_scalar:\n"
      "            if self._cache is None:\n"
      "                self._cache = self.feat_obj[:][self.basinmap]\n"),
     "R17.8"),
    ("scalar memo writable again (F17b returns)", H5EV,
     ("            self._array.setflags(write=False)\n", ""), "R17.8"),
    ("child scalar memo writable again (F17b returns)", HIEV,
     ("            self._array.setflags(write=False)\n", ""), "R17.8"),
    ("memoised function reads module table", KDE,
     ("    if bins is None:\n        bins = (max(5, bin_num_doane(events_x)),",
      "    if bins is None and methods:\n"
      "        bins = (max(5, bin_num_doane(events_x)),"), "R17.7"),
]

TWINS = [
    ("contour cache: class-level None defaults, deques per instance",
     "dclab/features/contour.py",
     ("class LazyContourList(object):\n",
      "class LazyContourList(object):\n    contours = None\n"
      "    indices = None\n")),
    ("scalar memo protected through the flags attribute", H5EV,
     ("            self._array.setflags(write=False)\n",
      "            self._array.flags.writeable = False\n")),
    ("wrapper: cached result through a local (refactor C17/5)", KDE,
     ("        density[~bad_out] = kde_method(ev_x, ev_y,\n"
      "                                       xo, yo,\n"
      "                                       *args, **kwargs)\n",
      "        valid_density = kde_method(ev_x, ev_y,\n"
      "                                   xo, yo,\n"
      "                                   *args, **kwargs)\n"
      "        density[~bad_out] = valid_density\n")),
    ("wrapper: purge mask bound once (refactor C12/5)", KDE,
     ("        ev_x = events_x[~bad_in]\n        ev_y = events_y[~bad_in]\n",
      "        valid_in = ~bad_in\n        ev_x = events_x[valid_in]\n"
      "        ev_y = events_y[valid_in]\n")),
    ("array bytes through locals (refactor C17/2)", CA,
     ("            self.ahash.update(np.ascontiguousarray(arg).view("
      "np.uint8))\n",
      "            contiguous = np.ascontiguousarray(arg)\n"
      "            raw_bytes = contiguous.view(np.uint8)\n"
      "            self.ahash.update(raw_bytes)\n")),
    ("key construction extracted (refactor C17/3)", CA,
     [("        ref = self.ahash.hexdigest()\n\n        if ref in",
       "        return self.ahash.hexdigest()\n\n"
       "    def __call__(self, *args, **kwargs):\n"
       "        ref = self._compute_key(args, kwargs)\n\n        if ref in"),
      ("    def __call__(self, *args, **kwargs):\n"
       "        self.ahash = hashlib.md5()",
       "    def _compute_key(self, args, kwargs):\n"
       "        self.ahash = hashlib.md5()")]),
    ("dataset mask built in a helper (refactor C16/4)", CORE,
     [("            mask = np.zeros(len(self), dtype=bool)\n"
       "            mids = np.where(self.filter.all)[0]\n"
       "            mask[mids] = idx\n",
       "            mask = self._mask_to_dataset(idx)\n"),
      ("    def get_kde_contour(self,",
       "    def _mask_to_dataset(self, idx):\n"
       "        mask = np.zeros(len(self), dtype=bool)\n"
       "        mids = np.where(self.filter.all)[0]\n"
       "        mask[mids] = idx\n"
       "        return mask\n\n"
       "    def get_kde_contour(self,")]),
    ("hit path moves the entry in both deques", CO,
     ("                cont = self.contours[idx_q]\n",
      "                cont = self.contours[idx_q]\n"
      "                del self.contours[idx_q]\n"
      "                del self.indices[idx_q]\n")),
    ("kw loop over sorted items", CA,
     ("        kwds = list(kwargs.keys())\n        kwds.sort()\n"
      "        for k in kwds:\n"
      "            self._update_hash(k)\n"
      "            self._update_hash(kwargs[k])\n",
      "        for k, v in sorted(kwargs.items()):\n"
      "            self._update_hash(k)\n"
      "            self._update_hash(v)\n")),
    ("header built in two steps", CA,
     ('            header = f"ndarray:{arg.dtype.str}:{arg.shape}:"\n',
      '            dt = arg.dtype.str\n'
      '            header = f"ndarray:{dt}:{arg.shape}:"\n'
      '            header += str(arg.dtype)\n')),
    ("wrapper: density allocated with np.empty", KDE,
     ("            density = np.zeros_like(events_x, dtype=np.float64)",
      "            density = np.empty(events_x.shape, dtype=np.float64)")),
    ("tobytes instead of view", CA,
     ("            self.ahash.update(np.ascontiguousarray(arg).view("
      "np.uint8))\n",
      "            self.ahash.update(arg.tobytes())\n")),
]
