"""C20 – reported feature minima, maxima and means match the data.

R20.1 consistent incremental summaries (``RTDCWriter.write_ndarray``):
      every value stored under ``attrs[min|max|mean]`` is either (i) the
      NaN-ignoring reducer applied to the whole dataset after the new block
      was stored, or (ii) a combination of the stored partial result with the
      reducer of the new block – min/max combined by a NaN-ignoring reducer
      on both operands; a mean combined as (m_a n_a + m_b n_b)/(n_a + n_b)
      from nanmeans must take n_a, n_b from NaN-ignoring counts of the
      respective parts and exclude all-NaN parts.  The stored partial
      result of (ii) is the attribute the file holds for this dataset
      (``D.attrs``), never a value the writer instance remembers
      (``self.<attr>[...]``): such memory outlives a dataset that is deleted
      and re-created under the same name and misses other writers.
R20.2 the name -> reducer tables of writer, copier, H5ScalarEvent and
      ChildScalar are the same three pairs (NaN-ignoring reducers).
R20.3 lookup: the readers return the cached value or compute it from their
      own data with the given reducer and cache it under the same name;
      H5ScalarEvent seeds its cache from its own dataset's attributes,
      ChildScalar starts empty and is discarded when the hierarchy is
      refreshed; summaries are stored by the writer and the copier only.
R20.4 no forwarding of summaries across a re-indexing wrapper
      (BasinProxyFeature, Child*).
"""
from __future__ import annotations

import ast

from ..absval import Poly, Rat, ratfun
from ..cfg import CFG, guarded_by
from ..core import (AnalysisError, ancestors, call_name, const_str, dotted,
                    find_calls, is_self_attr, last_attr, names_in, short,
                    txt, walk)

ASSUMPTIONS = [
    "NOT decided: numerical equality (floating-point summation order); "
    "correctness of summaries already stored in third-party input files "
    "that are copied as they are (h5ds_copy copies attributes verbatim "
    "together with the data).",
    "numpy semantics assumed: nanmin/nanmax/nanmean ignore NaN and return "
    "NaN for an all-NaN input; fmin/fmax ignore a NaN operand; min/max/"
    "minimum/maximum/mean do not.",
    "R20.3 'summaries are stored by the writer and the copier only' looks "
    "for stores into `<x>.attrs[<min|max|mean>]` with a literal (or "
    "literal-loop) key in dclab/**/*.py.",
]

WR = "dclab/rtdc_dataset/writer.py"
CP = "dclab/rtdc_dataset/copier.py"
EV = "dclab/rtdc_dataset/fmt_hdf5/events.py"
HE = "dclab/rtdc_dataset/fmt_hierarchy/events.py"
HB = "dclab/rtdc_dataset/fmt_hierarchy/base.py"
FB = "dclab/rtdc_dataset/feat_basin.py"
JN = "dclab/cli/task_join.py"
EX = "dclab/rtdc_dataset/export.py"

NAMES = ("min", "max", "mean")

#: F20b (reported 2026-10-05, not repaired yet): in the append branch of
#: write_ndarray min/max of the new block are computed from the input array
#: although the stored values may have been cast (integer features).  Set to
#: True once /verif/out/fix_F20b.diff is applied – the obligation "block
#: summary from stored values" then guards the repair (see
#: MUTANTS_AFTER_FIX_F20B).
ARM_F20B = True
NAN_REDUCER = {"min": "nanmin", "max": "nanmax", "mean": "nanmean"}
NAN_BINARY = {"min": "fmin", "max": "fmax"}
SAME_KIND = {
    "min": {"nanmin", "fmin", "min", "amin", "minimum"},
    "max": {"nanmax", "fmax", "max", "amax", "maximum"},
    "mean": {"nanmean", "mean", "average"},
}


def S(name):
    return Rat(Poly.sym(name))


def _np(name):
    """'nanmin' for np.nanmin / numpy.nanmin / nanmin; builtins as is"""
    if name is None:
        return None
    parts = name.split(".")
    if len(parts) == 2 and parts[0] in ("np", "numpy"):
        return parts[1]
    if len(parts) == 1:
        return "builtin:" + parts[0] if parts[0] in ("min", "max", "sum") \
            else parts[0]
    return name


# ----------------------------------------------------------------------
# one-level expansion of calls to private helpers (same class / module)
# (same code as in rules/C01.py – rule modules are self-contained)

def _clone(node):
    """copy of an AST subtree without the parent links"""
    if isinstance(node, list):
        return [_clone(x) for x in node]
    if not isinstance(node, ast.AST):
        return node
    new = node.__class__()
    for f in node._fields:
        if hasattr(node, f):
            setattr(new, f, _clone(getattr(node, f)))
    for a in node._attributes:
        if hasattr(node, a):
            setattr(new, a, getattr(node, a))
    return new


def _relink(node, parent):
    node.parent = parent
    for ch in ast.iter_child_nodes(node):
        _relink(ch, node)


def _private_callee(repo, rel, func, call):
    """FunctionDef of `self._x(...)`, `cls._x(...)`, `<Class>._x(...)` or a
    module-level `_x(...)` – private helpers only (extracted code)"""
    f = call.func
    cls = func.parent if isinstance(getattr(func, "parent", None),
                                    ast.ClassDef) else None
    name = None
    scope = None
    if isinstance(f, ast.Attribute) and isinstance(f.value, ast.Name) \
            and cls is not None and f.value.id in ("self", "cls", cls.name):
        name, scope = f.attr, cls
    elif isinstance(f, ast.Name):
        name, scope = f.id, repo.tree(rel)
    if name is None or not name.startswith("_") or name.startswith("__"):
        return None
    cands = [d for d in scope.body if isinstance(d, ast.FunctionDef)
             and d.name == name]
    if len(cands) != 1 or cands[0] is func:
        return None
    return cands[0]


def expand_private_calls(repo, rel, func, keep=()):
    """A copy of `func` in which every statement `self._helper(...)` /
    `x = self._helper(...)` is replaced by the helper's body (parameters
    bound to the arguments, helper locals renamed on collision).  The copy
    hangs under the same class, so construct keys name the caller.  Helpers
    that return from the middle are left as calls."""
    sites = []
    for st in walk(func):
        if isinstance(st, ast.Expr) and isinstance(st.value, ast.Call):
            callee = _private_callee(repo, rel, func, st.value)
        elif isinstance(st, ast.Assign) and len(st.targets) == 1 \
                and isinstance(st.value, ast.Call):
            callee = _private_callee(repo, rel, func, st.value)
        elif isinstance(st, ast.Return) and isinstance(st.value, ast.Call):
            callee = _private_callee(repo, rel, func, st.value)
        else:
            continue
        if callee is not None and callee.name not in keep:
            sites.append((st, callee))
    if not sites:
        return func
    new = _clone(func)
    # locate the cloned statements by position (walk order is the same)
    olds = [n for n in walk(func)]
    news = [n for n in walk(new)]
    if len(olds) != len(news):
        raise AnalysisError(f"{func.name}: clone mismatch")
    where = {id(o): n for o, n in zip(olds, news)}
    caller_names = {n.id for n in ast.walk(func) if isinstance(n, ast.Name)}
    caller_names |= {a.arg for a in func.args.args}
    done = 0
    for st, callee in sites:
        body = _inline_body(st, callee, caller_names, func)
        if body is None:
            continue
        tgt = where[id(st)]
        _replace_stmt(new, tgt, body)
        done += 1
    if not done:
        return func
    _relink(new, func.parent)
    new.expanded_from = [c.name for _, c in sites]
    return new


def _replace_stmt(root, old, body):
    for n in ast.walk(root):
        for f in ("body", "orelse", "finalbody"):
            lst = getattr(n, f, None)
            if isinstance(lst, list):
                for i, x in enumerate(lst):
                    if x is old:
                        lst[i:i + 1] = body
                        return
    raise AnalysisError("inline: statement not found")


def _inline_body(st, callee, caller_names, func):
    call = st.value
    a = callee.args
    if a.vararg or a.kwarg or a.posonlyargs or any(
            isinstance(x, ast.Starred) for x in call.args) or any(
            k.arg is None for k in call.keywords):
        return None
    params = [x.arg for x in a.args]
    static = any(txt(d) == "staticmethod" for d in callee.decorator_list)
    is_method = isinstance(callee.parent, ast.ClassDef)
    bound = {}
    pos = list(call.args)
    if is_method and not static:
        if not params:
            return None
        first = params.pop(0)
        bound[first] = ast.Name(id="self", ctx=ast.Load()) if isinstance(
            call.func, ast.Attribute) else None
        if isinstance(call.func, ast.Attribute) and isinstance(
                call.func.value, ast.Name) and call.func.value.id not in (
                "self", "cls"):
            # Class.method(obj, ...) form
            if not pos:
                return None
            bound[first] = pos.pop(0)
    if len(pos) > len(params):
        return None
    for p_, v in zip(params, pos):
        bound[p_] = v
    for k in call.keywords:
        if k.arg not in params or k.arg in bound:
            return None
        bound[k.arg] = k.value
    defaults = dict(zip(reversed([x.arg for x in a.args]),
                        reversed(a.defaults)))
    for x in a.kwonlyargs:
        params.append(x.arg)
    for x, dv in zip(a.kwonlyargs, a.kw_defaults):
        if dv is not None:
            defaults[x.arg] = dv
    for p_ in params:
        if p_ not in bound:
            if p_ not in defaults:
                return None
            bound[p_] = defaults[p_]
    body = [b for b in callee.body if not (
        isinstance(b, ast.Expr) and isinstance(b.value, ast.Constant)
        and isinstance(b.value.value, str))]
    # returns: only a single trailing one
    rets = [n for b in body for n in walk(b) if isinstance(n, ast.Return)]
    tail = None
    if rets:
        if len(rets) != 1 or rets[0] is not body[-1]:
            return None
        tail = rets[0].value
        body = body[:-1]
    elif isinstance(st, (ast.Assign, ast.Return)):
        return None
    # renaming: parameters bound to an equally named plain name stay;
    # everything else the helper binds gets a suffix when it collides
    ren = {}
    pre = []
    for p_, v in bound.items():
        if isinstance(v, ast.Name) and v.id == p_:
            continue
        ren[p_] = p_ + "__h" if p_ in caller_names else p_
        asg = ast.Assign(targets=[ast.Name(id=ren[p_], ctx=ast.Store())],
                         value=_clone(v), lineno=st.lineno,
                         col_offset=st.col_offset)
        pre.append(asg)
    local = set()
    for b in body:
        for n in walk(b):
            if isinstance(n, ast.Name) and isinstance(n.ctx, ast.Store):
                local.add(n.id)
    for nm in local:
        if nm not in bound and nm in caller_names:
            ren[nm] = nm + "__h"
    out = pre + [_clone(b) for b in body]
    if tail is not None and isinstance(st, ast.Assign):
        out.append(ast.Assign(targets=[_clone(st.targets[0])],
                              value=_clone(tail), lineno=st.lineno,
                              col_offset=st.col_offset))
    elif tail is not None and isinstance(st, ast.Return):
        out.append(ast.Return(value=_clone(tail), lineno=st.lineno,
                              col_offset=st.col_offset))
    elif tail is not None and not isinstance(tail, (ast.Constant, ast.Name)):
        out.append(ast.Expr(value=_clone(tail), lineno=st.lineno,
                            col_offset=st.col_offset))
    for b in out[len(pre):]:
        for n in ast.walk(b):
            if isinstance(n, ast.Name) and n.id in ren:
                n.id = ren[n.id]
    for b in out:
        ast.fix_missing_locations(b)
    if not out:
        out = [ast.Pass(lineno=st.lineno, col_offset=st.col_offset)]
    return out


def wfunc(repo, rel, qual):
    """function with calls to private helpers expanded (one level)"""
    return expand_private_calls(repo, rel, repo.func(rel, qual))


from ..lib_C01 import (class_methods, expand_private_calls,  # noqa: E402,F401,F811
                       module_function, module_value)


# ----------------------------------------------------------------------
# enumeration of the summary stores of a function

def literal_loop_envs(loop, resolver=None):
    """[{name: node}] for `for a, b in [(x, y), ...]` (or a single name);
    a plain name as iterable is resolved by `resolver(name) -> node|None`
    (single-assignment local / module-level constant)"""
    it = loop.iter
    hops = 0
    view = None
    if isinstance(it, ast.Call) and not it.args and not it.keywords \
            and isinstance(it.func, ast.Attribute) \
            and it.func.attr in ("items", "keys", "values"):
        view, it = it.func.attr, it.func.value
    while isinstance(it, ast.Name) and resolver is not None and hops < 4:
        it = resolver(it.id)
        hops += 1
    if isinstance(it, ast.Dict) and all(k is not None for k in it.keys):
        # a literal mapping: iterate keys, values or (key, value) pairs
        if view == "items":
            elts = [ast.Tuple(elts=[k, v], ctx=ast.Load())
                    for k, v in zip(it.keys, it.values)]
        elif view == "values":
            elts = list(it.values)
        else:
            elts = list(it.keys)
        it = ast.List(elts=elts, ctx=ast.Load())
    elif view is not None:
        return None
    if isinstance(it, (ast.ListComp, ast.GeneratorExp)) \
            and len(it.generators) == 1 \
            and isinstance(it.elt, ast.Name) \
            and isinstance(it.generators[0].target, ast.Name) \
            and it.elt.id == it.generators[0].target.id:
        # a selection from a literal: fold the superset
        it = it.generators[0].iter
        while isinstance(it, ast.Name) and resolver is not None \
                and hops < 6:
            it = resolver(it.id)
            hops += 1
    if not isinstance(it, (ast.List, ast.Tuple)):
        return None
    tg = loop.target
    envs = []
    for e in it.elts:
        if isinstance(tg, ast.Name):
            envs.append({tg.id: e})
        elif isinstance(tg, ast.Tuple) and isinstance(
                e, (ast.Tuple, ast.List)) and len(e.elts) == len(tg.elts) \
                and all(isinstance(t, ast.Name) for t in tg.elts):
            envs.append({t.id: v for t, v in zip(tg.elts, e.elts)})
        else:
            return None
    return envs


def name_resolver(repo, rel, func):
    """name -> value node: local with one assignment in `func`, else a
    module-level constant of `rel`"""
    def res(name):
        defs = [n for n in walk(func) if isinstance(n, ast.Assign)
                and any(isinstance(t, ast.Name) and t.id == name
                        for t in n.targets)]
        if len(defs) == 1:
            return defs[0].value
        if defs:
            return None
        return module_value(repo, rel, name)
    return res


def summary_stores(func, resolver=None, unresolved=None):
    """[(uname, store stmt, env)] for `<x>.attrs[K] = V` with K resolving
    to min/max/mean (directly or through a loop over a literal list).
    Stores whose key comes from a loop that cannot be folded are appended
    to `unresolved` (verbatim `dst.attrs[k] = src.attrs[k]` copies are not
    summary logic and are skipped)."""
    out = []
    for n in walk(func):
        if not (isinstance(n, ast.Assign) and len(n.targets) == 1):
            continue
        t = n.targets[0]
        if not (isinstance(t, ast.Subscript) and isinstance(
                t.value, ast.Attribute) and t.value.attr == "attrs"):
            continue
        k = t.slice
        if const_str(k) in NAMES:
            out.append((const_str(k), n, {}))
        elif isinstance(k, ast.Name):
            verbatim = isinstance(n.value, ast.Subscript) and isinstance(
                n.value.value, ast.Attribute) \
                and n.value.value.attr == "attrs" \
                and txt(n.value.slice) == k.id
            for a in ancestors(n):
                if a is func:
                    break
                if isinstance(a, ast.For) and k.id in names_in(a.target):
                    envs = literal_loop_envs(a, resolver)
                    if envs is None:
                        if unresolved is not None and not verbatim:
                            unresolved.append(n)
                        break
                    for env in envs:
                        if const_str(env.get(k.id)) in NAMES:
                            out.append((const_str(env[k.id]), n, env))
                    break
    return out


# ----------------------------------------------------------------------
# provenance of a stored summary value

class Prov:
    def __init__(self, func, D, O, data, uname, env):
        self.func = func
        self.D, self.O, self.data = D, O, data
        self.uname = uname
        self.env = env
        self.defs = {}
        for n in walk(func):
            if isinstance(n, ast.Assign):
                for t in n.targets:
                    if isinstance(t, ast.Name):
                        self.defs.setdefault(t.id, []).append(n)
            elif isinstance(n, ast.NamedExpr) and isinstance(
                    n.target, ast.Name):
                # `(x := e)` binds like `x = e`
                self.defs.setdefault(n.target.id, []).append(n)

    def reducer(self, call):
        f = call.func
        if isinstance(f, ast.Name) and f.id in self.env:
            return _np(dotted(self.env[f.id]))
        return _np(dotted(f))

    def key_is_uname(self, k):
        if isinstance(k, ast.Name) and k.id in self.env:
            k = self.env[k.id]
        return const_str(k) == self.uname

    def is_stored(self, e):
        """D.attrs.get(K[, None]) / D.attrs[K]"""
        if isinstance(e, ast.Call) and last_attr(e) == "get" and isinstance(
                e.func, ast.Attribute) and txt(e.func.value) == \
                f"{self.D}.attrs" and e.args and self.key_is_uname(e.args[0]):
            return True
        return isinstance(e, ast.Subscript) and txt(e.value) == \
            f"{self.D}.attrs" and self.key_is_uname(e.slice)

    def is_whole(self, e):
        if isinstance(e, ast.Name) and e.id == self.D:
            return True
        return isinstance(e, ast.Subscript) and isinstance(
            e.value, ast.Name) and e.value.id == self.D and (
            txt(e.slice) in (":", "...", "()", "Ellipsis"))

    def is_old_part(self, e):
        """D[:O] / D[0:O]"""
        return isinstance(e, ast.Subscript) and isinstance(
            e.value, ast.Name) and e.value.id == self.D and isinstance(
            e.slice, ast.Slice) and e.slice.step is None and (
            e.slice.lower is None or txt(e.slice.lower) == "0") \
            and isinstance(e.slice.upper, ast.Name) \
            and e.slice.upper.id == self.O

    def is_stored_block(self, e):
        """D[O:] – the block that was just stored, as it is in the file"""
        return isinstance(e, ast.Subscript) and isinstance(
            e.value, ast.Name) and e.value.id == self.D and isinstance(
            e.slice, ast.Slice) and e.slice.step is None \
            and e.slice.upper is None \
            and isinstance(e.slice.lower, ast.Name) \
            and e.slice.lower.id == self.O

    def is_block(self, e):
        return (isinstance(e, ast.Name) and e.id == self.data) \
            or self.is_stored_block(e)

    def expand(self, e):
        """all definitions a name may stand for (flow-insensitive)"""
        if isinstance(e, ast.Name) and e.id not in (self.D, self.data) \
                and e.id not in self.env and e.id in self.defs:
            return [d.value for d in self.defs[e.id]]
        return [e]

    # -- forms ------------------------------------------------------------
    def forms(self, e, depth=0):
        """[(kind, info, node)] kinds: whole, block, stored, combine, wmean,
        other"""
        if depth > 6:
            raise AnalysisError("summary provenance: definition chain too "
                                "deep")
        out = []
        for v in self.expand(e):
            if v is not e:
                out += self.forms(v, depth + 1)
                continue
            if isinstance(v, ast.NamedExpr):
                out += self.forms(v.value, depth + 1)
                continue
            if isinstance(v, ast.IfExp):
                # either branch may be the stored value
                out += self.forms(v.body, depth + 1)
                out += self.forms(v.orelse, depth + 1)
                continue
            if self.is_stored(v):
                out.append(("stored", None, v))
            elif isinstance(v, ast.Call) and len(v.args) >= 1 \
                    and self.reducer(v) is not None and (
                    self.is_whole(v.args[0]) or self.is_block(v.args[0])) \
                    and len(v.args) == 1:
                kind = "whole" if self.is_whole(v.args[0]) else "block"
                out.append((kind, self.reducer(v), v))
            elif isinstance(v, ast.Call) and len(v.args) == 1 \
                    and not v.keywords and self.reducer(v) is not None \
                    and self.data in names_in(v.args[0]) \
                    and self.D not in {n.value.id for n in ast.walk(
                        v.args[0]) if isinstance(n, ast.Subscript)
                        and isinstance(n.value, ast.Name)}:
                # a reduction over something computed from the input array
                # (a cast, a copy): the new block, but not as it is stored
                out.append(("block", self.reducer(v), v))
            elif isinstance(v, ast.Call) and self.reducer(v) is not None \
                    and len(v.args) == 1 and isinstance(
                    v.args[0], (ast.List, ast.Tuple)) \
                    and len(v.args[0].elts) == 2:
                ops = [self.forms(x, depth + 1) for x in v.args[0].elts]
                out.append(("combine", (self.reducer(v), ops), v))
            elif isinstance(v, ast.Call) and self.reducer(v) is not None \
                    and len(v.args) == 2 and not v.keywords \
                    and self.reducer(v).split(":")[-1] in (
                        "fmin", "fmax", "min", "max", "minimum", "maximum"):
                ops = [self.forms(x, depth + 1) for x in v.args]
                out.append(("combine", (self.reducer(v), ops), v))
            elif isinstance(v, ast.BinOp) and isinstance(v.op, ast.Div):
                out.append(("wmean", None, v))
            elif isinstance(v, ast.Constant) and v.value is None:
                continue
            elif self.memory_root(v) is not None:
                out.append(("memory", self.memory_root(v), v))
            else:
                out.append(("other", None, v))
        return out

    def memory_root(self, e, depth=0):
        """`self.<attr>` when the value is looked up in a container the
        writer instance keeps (`self._x[k]`, `self._x.get(k)`, through a
        local alias): writer-side memory, not what the file holds"""
        while depth < 8:
            depth += 1
            if isinstance(e, ast.Subscript):
                e = e.value
            elif isinstance(e, ast.Call) and isinstance(
                    e.func, ast.Attribute) and e.func.attr in (
                    "get", "pop", "setdefault", "__getitem__"):
                e = e.func.value
            elif isinstance(e, ast.Name) and e.id in self.defs and len(
                    self.defs[e.id]) == 1 and e.id not in (
                    self.D, self.data, self.O):
                e = self.defs[e.id][0].value
            else:
                break
        if isinstance(e, ast.Attribute) and isinstance(e.value, ast.Name) \
                and e.value.id == "self" and e.attr != "h5file":
            return e.attr
        return None

    # -- counts -----------------------------------------------------------
    def part_of(self, e):
        if self.is_block(e):
            return "b"
        if self.is_old_part(e):
            return "a"
        if self.is_whole(e):
            return "all"
        return None

    def count(self, e, depth=0):
        """('nn'|'nan'|'size', part) for counting expressions, ('mask', pol,
        part) for masks, else None"""
        if depth > 6:
            return None
        if isinstance(e, ast.Name) and e.id in self.defs and len(
                self.defs[e.id]) == 1 and e.id not in (self.D, self.data,
                                                       self.O):
            return self.count(self.defs[e.id][0].value, depth + 1)
        if isinstance(e, ast.Name) and e.id == self.O:
            return ("size", "a")
        if isinstance(e, ast.Attribute) and e.attr == "size":
            p = self.part_of(e.value)
            return ("size", p) if p else None
        if isinstance(e, ast.Call) and call_name(e) == "len" and e.args:
            p = self.part_of(e.args[0])
            return ("size", p) if p else None
        if isinstance(e, ast.Subscript) and isinstance(
                e.value, ast.Attribute) and e.value.attr == "shape" \
                and txt(e.slice) == "0":
            p = self.part_of(e.value.value)
            return ("size", p) if p else None
        if isinstance(e, ast.Call):
            nm = _np(call_name(e)) or ""
            if nm == "isnan" and len(e.args) == 1:
                p = self.part_of(e.args[0])
                return ("mask", "nan", p) if p else None
            if nm in ("logical_not", "invert") and len(e.args) == 1:
                m = self.count(e.args[0], depth + 1)
                if m and m[0] == "mask":
                    return ("mask", "nn" if m[1] == "nan" else "nan", m[2])
            if nm in ("count_nonzero", "sum", "builtin:sum") \
                    and len(e.args) == 1:
                m = self.count(e.args[0], depth + 1)
                if m and m[0] == "mask":
                    return (m[1], m[2])
            if last_attr(e) == "sum" and isinstance(
                    e.func, ast.Attribute) and not e.args:
                m = self.count(e.func.value, depth + 1)
                if m and m[0] == "mask":
                    return (m[1], m[2])
        if isinstance(e, ast.UnaryOp) and isinstance(e.op, ast.Invert):
            m = self.count(e.operand, depth + 1)
            if m and m[0] == "mask":
                return ("mask", "nn" if m[1] == "nan" else "nan", m[2])
        if isinstance(e, ast.BinOp) and isinstance(e.op, ast.Sub):
            a, b = self.count(e.left, depth + 1), self.count(
                e.right, depth + 1)
            if a and b and a[0] == "size" and b[0] == "nan" and a[1] == b[1]:
                return ("nn", a[1])
        return None


def _stored_operand(ctx, pv, cfg, uname, node, ops, lab):
    """The 'stored' operand of a combination is the stored attribute itself:
    (i) `attrs.get(name)` has no default other than None – a default would
    silently stand in for a missing attribute (block-only summary for files
    written without summaries); (ii) the combination is evaluated only where
    the attribute was found (`is not None` / membership test)."""
    snodes = [f[2] for o in ops for f in o if f[0] == "stored"]
    for sn in snodes:
        dflt = None
        if isinstance(sn, ast.Call):
            dflt = sn.args[1] if len(sn.args) > 1 else next(
                (k.value for k in sn.keywords if k.arg == "default"), None)
        ok = dflt is None or (isinstance(dflt, ast.Constant)
                              and dflt.value is None)
        ctx.ob("R20.1", ok, f"the stored {uname} enters the combination as "
               f"it is (no substitute)" if ok else
               f"`{short(sn, 50)}`: when no {uname} is stored the default "
               f"`{short(dflt, 20)}` takes its place – the summary of a "
               f"dataset without stored attributes covers the new block "
               f"only", node=sn, label=f"{uname}: stored operand has no "
                                       f"substitute")
    # names / expressions that denote the stored value
    subjects = {txt(sn) for sn in snodes}
    def binds_stored(v):
        """`<stored>` or `<stored> if <test> else None` (either order)"""
        if v in snodes:
            return True
        if isinstance(v, ast.IfExp):
            arms = [v.body, v.orelse]
            return any(a in snodes for a in arms) and all(
                a in snodes or (isinstance(a, ast.Constant)
                                and a.value is None) for a in arms)
        return False
    for nm, defs in pv.defs.items():
        if any(binds_stored(d.value) for d in defs):
            subjects.add(nm)
    keytxts = set()
    for sn in snodes:
        if isinstance(sn, ast.Call) and sn.args:
            keytxts.add(txt(sn.args[0]))
        elif isinstance(sn, ast.Subscript):
            keytxts.add(txt(sn.slice))

    def found_fact(e, truth):
        if isinstance(e, ast.NamedExpr):
            return False
        if isinstance(e, ast.Compare) and len(e.ops) == 1:
            left = e.left.target if isinstance(
                e.left, ast.NamedExpr) else e.left
            if txt(left) in subjects and txt(e.comparators[0]) == "None":
                return (isinstance(e.ops[0], ast.IsNot) and truth) or (
                    isinstance(e.ops[0], ast.Is) and not truth)
            if txt(e.left) in keytxts and txt(
                    e.comparators[0]) == f"{pv.D}.attrs":
                return (isinstance(e.ops[0], ast.In) and truth) or (
                    isinstance(e.ops[0], ast.NotIn) and not truth)
        return False
    # expression level (conditional expression around the combination)
    guarded = False
    child = node
    for a in ancestors(node):
        if isinstance(a, ast.stmt):
            break
        if isinstance(a, ast.IfExp):
            in_body = any(child is x for x in ast.walk(a.body))
            from ..cfg import branch_facts as _bf
            if any(found_fact(e, t) for e, t in _bf(a.test, in_body)):
                guarded = True
        child = a
    if not guarded:
        # statement level; the value may be computed in an earlier statement
        stmts = [_stmt_of(node)]
        for nm, defs in pv.defs.items():
            stmts += [d for d in defs if d.value is node
                      and isinstance(d, ast.stmt)]
        guarded = all(guarded_by(cfg, i, found_fact)
                      for st in stmts for i in cfg.ids_of(st))
    ctx.ob("R20.1", guarded, f"stored and new {uname} are combined only "
           f"where a stored value was found" if guarded else
           f"the combination `{short(node, 50)}` is not guarded by a test "
           f"that the {uname} attribute exists: for a dataset without "
           f"stored summaries it fails or summarises the new block only",
           node=node, label=f"{uname}: combination only with a stored "
                            f"value")


def r201(ctx, repo):
    wn = wfunc(repo, WR, "RTDCWriter.write_ndarray")
    unres = []
    stores = summary_stores(wn, name_resolver(repo, WR, wn), unres)
    if unres:
        raise AnalysisError(f"write_ndarray: attribute names of "
                            f"`{short(unres[0], 40)}` cannot be folded")
    if not stores:
        raise AnalysisError("write_ndarray: no summary attributes stored")
    got = {u for u, _, _ in stores}
    if got != set(NAMES):
        raise AnalysisError(f"write_ndarray stores summaries {sorted(got)}")
    D = txt(stores[0][1].targets[0].value.value)
    if not all(txt(s.targets[0].value.value) == D for _, s, _ in stores):
        raise AnalysisError("write_ndarray: summaries on several datasets")
    params = [a.arg for a in wn.args.args]
    if "data" not in params:
        raise AnalysisError("write_ndarray: parameter `data` lost")
    cfg = CFG(wn)
    # the store of the new block (scalar branch): `D[O:] = data`; O is the
    # offset variable (where it comes from is decided by C01 / R1.1)
    blk = [n for n in walk(wn) if isinstance(n, ast.Assign)
           and isinstance(n.targets[0], ast.Subscript)
           and isinstance(n.targets[0].value, ast.Name)
           and n.targets[0].value.id == D
           and isinstance(n.value, ast.Name) and n.value.id == "data"]
    if len(blk) != 1:
        raise AnalysisError("write_ndarray: scalar block store lost")
    sl = blk[0].targets[0].slice
    if not (isinstance(sl, ast.Slice) and isinstance(sl.lower, ast.Name)
            and sl.upper is None and sl.step is None):
        raise AnalysisError("write_ndarray: offset variable not identified")
    O = sl.lower.id
    blk_ids = set(cfg.ids_of(blk[0]))
    table = {}
    for uname, st, env in stores:
        pv = Prov(wn, D, O, "data", uname, env)
        forms = pv.forms(st.value)
        if not forms:
            raise AnalysisError(f"write_ndarray: value of attrs[{uname}] "
                                f"has no definition")
        for k, (kind, info, node) in enumerate(forms):
            lab = f"{uname}: {kind} [{k}]"
            if kind == "whole":
                table.setdefault(uname, set()).add(info)
                ok = info.split(":")[-1] == NAN_REDUCER[uname]
                ctx.ob("R20.1", ok,
                       f"{uname} = {info}(whole dataset)" if ok else
                       f"{uname} is recomputed with `{info}`, not the "
                       f"NaN-ignoring {NAN_REDUCER[uname]}", node=node,
                       label=lab)
                ids = cfg.ids_of(_stmt_of(node))
                ok = all(cfg.always_before(i, lambda n: n.id in blk_ids)
                         for i in ids)
                ctx.ob("R20.1", ok, f"{uname}: the new block is stored "
                       f"before the dataset is reduced" if ok else
                       f"{uname} is computed from the dataset before the "
                       f"new block is stored", node=node,
                       label=lab + " after block store")
            elif kind == "combine":
                outer, ops = info
                # the previous summary is what the FILE holds for this
                # dataset: a value remembered by the writer instance (by
                # dataset name) outlives a dataset that is deleted and
                # re-created (replace mode) and misses what another writer
                # stored in between
                mem = [f for o in ops for f in o if f[0] == "memory"]
                ctx.ob("R20.1", not mem, f"the previous {uname} entering the "
                       f"combination is the attribute stored in the file"
                       if not mem else
                       f"the previous {uname} is taken from "
                       f"`{short(mem[0][2], 50)}` (self.{mem[0][1]}, memory "
                       f"of the writer instance), not from the attribute the "
                       f"file holds: the remembered value survives the "
                       f"deletion / replacement of the dataset and ignores "
                       f"what another writer stored – the new {uname} covers "
                       f"data that are not in the file",
                       node=mem[0][2] if mem else node,
                       label=f"{uname}: previous value read from the file")
                ops = [[f for f in o if f[0] != "memory"] for o in ops]
                kinds = [sorted({f[0] for f in o}) for o in ops]
                flat = sorted(x for ks in kinds for x in ks)
                if flat != ["block", "stored"] and not (
                        mem and flat == ["block"]):
                    raise AnalysisError(
                        f"write_ndarray: {uname} combines {kinds} – shape "
                        f"not recognised")
                inner = [f[1] for o in ops for f in o if f[0] == "block"][0]
                table.setdefault(uname, set()).add(inner)
                if "stored" in flat:
                    _stored_operand(ctx, pv, cfg, uname, node, ops, lab)
                if uname == "mean":
                    ctx.ob("R20.1", False, "partial means cannot be combined "
                           "by a reducer without their counts", node=node,
                           label=lab)
                    continue
                if ARM_F20B:
                    blk_nodes = [f[2] for o in ops for f in o
                                 if f[0] == "block"]
                    from_input = [b for b in blk_nodes
                                  if not pv.is_stored_block(b.args[0])]
                    ctx.ob("R20.1", not from_input,
                           f"{uname} of the new block is taken from the "
                           f"stored block" if not from_input else
                           f"{uname} of the new block is computed from "
                           f"`{short(from_input[0].args[0], 40)}` (the "
                           f"input), not from what is stored: "
                           f"write_ndarray casts the input to the dataset's "
                           f"dtype (uint32/uint64 features), the summary "
                           f"then describes values that are not in the file",
                           node=node, label=f"{uname}: block summary from "
                                            f"stored values")
                ok = inner.split(":")[-1] == NAN_REDUCER[uname]
                ctx.ob("R20.1", ok, f"{uname} of the new block uses {inner}"
                       if ok else f"{uname} of the new block uses `{inner}`"
                       f", not {NAN_REDUCER[uname]}: a NaN in the block "
                       f"poisons the stored {uname}", node=node,
                       label=lab + " block reducer")
                o = outer.split(":")[-1]
                ok = o in (NAN_REDUCER[uname], NAN_BINARY[uname]) \
                    and not outer.startswith("builtin:")
                ctx.ob("R20.1", ok, f"stored and new {uname} are combined "
                       f"with the NaN-ignoring {outer}" if ok else
                       f"stored and new {uname} are combined with `{outer}`"
                       f": an all-NaN block (partial result NaN) poisons or "
                       f"is order-dependent", node=node,
                       label=lab + " outer reducer")
            elif kind == "wmean":
                if uname != "mean":
                    raise AnalysisError(f"write_ndarray: {uname} computed by "
                                        f"a quotient")
                _weighted_mean(ctx, pv, node, lab, table)
            elif kind == "block":
                ctx.ob("R20.1", False, f"{uname} of the new block alone is "
                       f"stored as {uname} of the whole dataset", node=node,
                       label=lab)
            elif kind == "stored":
                ctx.ob("R20.1", False, f"the stored {uname} is kept although "
                       f"a new block was appended", node=node, label=lab)
            elif kind == "memory":
                ctx.ob("R20.1", False, f"{uname} is taken from "
                       f"`{short(node, 50)}` (memory of the writer instance)"
                       f", not computed from the data in the file",
                       node=node, label=lab)
            else:
                raise AnalysisError(
                    f"write_ndarray: value `{short(node, 50)}` stored as "
                    f"{uname} not recognised")
    return table, wn


def _stmt_of(node):
    n = node
    while not isinstance(n, ast.stmt):
        n = n.parent
    return n


def _func_of(node):
    n = node
    while not isinstance(n, ast.FunctionDef):
        n = n.parent
    return n


def _weighted_mean(ctx, pv, node, lab, table):
    leaves = {}

    def resolve(e):
        if isinstance(e, (ast.BinOp, ast.UnaryOp)) or (
                isinstance(e, ast.Constant)
                and isinstance(e.value, (int, float))):
            return None
        v = e
        hops = 0
        if pv.count(e) is not None:
            sym = "w:" + txt(e)
            leaves[sym] = (e, e)
            return sym
        while isinstance(v, ast.Name) and v.id in pv.defs and len(
                pv.defs[v.id]) == 1 and v.id not in (pv.D, pv.data, pv.O) \
                and hops < 6:
            nxt = pv.defs[v.id][0].value
            if isinstance(nxt, ast.BinOp):
                return ratfun(nxt, resolve)
            v = nxt
            hops += 1
        if pv.is_stored(v):
            sym = "m_a"
        elif isinstance(v, ast.Call) and len(v.args) == 1 \
                and pv.is_block(v.args[0]) and pv.reducer(v):
            sym = "m_b"
            leaves["m_b"] = (pv.reducer(v), v)
        elif isinstance(v, ast.Call) and len(v.args) == 1 \
                and pv.is_old_part(v.args[0]) and pv.reducer(v):
            sym = "m_a"
            leaves["m_a_red"] = (pv.reducer(v), v)
        else:
            sym = "w:" + txt(e)
            leaves[sym] = (e, v)
        return sym
    r = ratfun(node, resolve)
    ws = sorted(k for k in leaves if k.startswith("w:"))
    if "m_b" not in leaves or len(ws) != 2:
        raise AnalysisError(f"write_ndarray: mean formula "
                            f"`{short(node, 60)}` not recognised")
    red = leaves["m_b"][0]
    table.setdefault("mean", set()).add(red)
    ma, mb = S("m_a"), S("m_b")
    form = None
    for wa, wb in ((ws[0], ws[1]), (ws[1], ws[0])):
        want = (ma * S(wa) + mb * S(wb)) / (S(wa) + S(wb))
        if r.same(want):
            form = (wa, wb)
    ok = form is not None
    ctx.ob("R20.1", ok, "mean = (m_a n_a + m_b n_b) / (n_a + n_b)" if ok
           else f"`{short(node, 60)}` is not the weighted mean of the two "
           f"partial means", node=node, label=lab + " formula")
    if not ok:
        return
    ok = red.split(":")[-1] == "nanmean"
    ctx.ob("R20.1", ok, f"mean of the new block uses {red}" if ok else
           f"mean of the new block uses `{red}`, not nanmean", node=node,
           label=lab + " block reducer")
    want_part = {"a": form[0], "b": form[1]}
    bad = []
    for part, w in want_part.items():
        c = pv.count(leaves[w][0])
        if c is None:
            raise AnalysisError(f"write_ndarray: weight `{w[2:]}` of the "
                                f"mean not recognised")
        if c != ("nn", part):
            what = {"size": "the raw size", "nan": "the NaN count",
                    "nn": "the non-NaN count"}[c[0]]
            bad.append(f"n_{part} = `{w[2:]}` is {what} of part "
                       f"'{c[1]}'")
    ctx.ob("R20.1", not bad,
           "the weights are the non-NaN counts of the stored part and of "
           "the new block" if not bad else
           "partial means are NaN-ignoring (nanmean) but "
           + "; ".join(bad) + " – with NaN values the stored mean is wrong "
           "(NaN for an all-NaN part)", node=node,
           label="mean: combination weights")
    if bad:
        return
    # all-NaN parts excluded: the formula is guarded by tests on both counts
    tested = set()
    for a in ancestors(node):
        if a is pv.func:
            break
        if isinstance(a, ast.If) and any(
                node is x for s in a.body for x in walk(s)):
            tested |= names_in(a.test)
    need = {w[2:] for w in form}
    ok = need <= tested
    ctx.ob("R20.1", ok, "the weighted formula is used only when both parts "
           "hold non-NaN values" if ok else
           "an all-NaN part (partial mean NaN, count 0) is not excluded: "
           "NaN * 0 poisons the stored mean", node=node,
           label="mean: all-NaN part excluded")


# ----------------------------------------------------------------------
# R20.2

def normalise_reader_class(repo, rel, cls):
    """copy of a feature-wrapper class brought to the shape the rules are
    written against (nothing is decided here):
    * methods inherited from base classes / mixins of the same file are
      part of the class (MRO);
    * a private cache object (`self._ufunc_attrs = _Cache(attrs)` with
      `lookup(k)` = `dict.get(k)` and `store(k, v)` = `dict[k] = v`) reads
      as the dictionary it wraps;
    * a record parameter of `_fetch_ufunc_attr` (`spec.name`, `spec.func`
      of a module-level namedtuple constant) is split into its fields."""
    meths = class_methods(repo, rel, cls)
    new = _clone(cls)
    own = {f.name for f in new.body if isinstance(f, ast.FunctionDef)}
    for name, f in meths.items():
        if name not in own:
            new.body.append(_clone(f))
    tree = repo.tree(rel)
    # --- cache object
    api = {}
    for f in [x for x in new.body if isinstance(x, ast.FunctionDef)
              and x.name == "__init__"]:
        for n in walk(f):
            if isinstance(n, ast.Assign) and len(n.targets) == 1 \
                    and is_self_attr(n.targets[0]) \
                    and isinstance(n.value, ast.Call) \
                    and isinstance(n.value.func, ast.Name) \
                    and n.value.func.id.startswith("_") \
                    and len(n.value.args) == 1 and not n.value.keywords:
                ccls = [c for c in tree.body if isinstance(c, ast.ClassDef)
                        and c.name == n.value.func.id]
                if len(ccls) != 1:
                    continue
                kind = _cache_class_api(ccls[0])
                if kind is None:
                    continue
                api[n.targets[0].attr] = kind
                n.value = ast.copy_location(ast.Call(
                    func=ast.Name(id="dict", ctx=ast.Load()),
                    args=n.value.args, keywords=[]), n.value)
    if api:
        class T(ast.NodeTransformer):
            def visit_Expr(self, node):
                c = node.value
                if isinstance(c, ast.Call) and isinstance(
                        c.func, ast.Attribute) and is_self_attr(
                        c.func.value) and c.func.value.attr in api \
                        and api[c.func.value.attr].get(
                            c.func.attr) == "set" and len(c.args) == 2:
                    return ast.copy_location(ast.Assign(
                        targets=[ast.Subscript(
                            value=c.func.value, slice=c.args[0],
                            ctx=ast.Store())], value=c.args[1]), node)
                self.generic_visit(node)
                return node

            def visit_Call(self, c):
                self.generic_visit(c)
                if isinstance(c.func, ast.Attribute) and is_self_attr(
                        c.func.value) and c.func.value.attr in api \
                        and api[c.func.value.attr].get(
                            c.func.attr) == "get" and len(c.args) == 1:
                    c.func.attr = "get"
                return c
        T().visit(new)
    # --- record parameter of _fetch_ufunc_attr
    ff = [f for f in new.body if isinstance(f, ast.FunctionDef)
          and f.name == "_fetch_ufunc_attr"]
    if ff and len(ff[0].args.args) == 2:
        f = ff[0]
        rec = f.args.args[1].arg
        uses = [n for n in walk(f) if isinstance(n, ast.Name)
                and n.id == rec]
        attr_uses = [n for n in walk(f) if isinstance(n, ast.Attribute)
                     and isinstance(n.value, ast.Name) and n.value.id == rec]
        if len(uses) == len(attr_uses) and attr_uses:
            fields = None
            # field order from the namedtuple of the constants passed in
            calls = [c for m in new.body if isinstance(m, ast.FunctionDef)
                     for c in find_calls(m, attr="_fetch_ufunc_attr")
                     if len(c.args) == 1 and not c.keywords]
            recs = []
            for c in calls:
                v = c.args[0]
                if isinstance(v, ast.Name):
                    v = module_value(repo, rel, v.id)
                if not (isinstance(v, ast.Call) and isinstance(
                        v.func, ast.Name)):
                    recs = None
                    break
                nt = module_value(repo, rel, v.func.id)
                flds = _namedtuple_fields(nt)
                if flds is None:
                    recs = None
                    break
                fields = fields or flds
                vals = dict(zip(flds, v.args))
                vals.update({k.arg: k.value for k in v.keywords})
                if set(vals) != set(flds):
                    recs = None
                    break
                recs.append((c, [vals[x] for x in flds]))
            used = {n.attr for n in attr_uses}
            if recs and fields and len(fields) == 2 and used <= set(fields):
                names = {fields[0]: "uname", fields[1]: "ufunc"}
                f.args.args = [f.args.args[0]] + [
                    ast.arg(arg=names[x], annotation=None) for x in fields]

                class R(ast.NodeTransformer):
                    def visit_Attribute(self, n):
                        self.generic_visit(n)
                        if isinstance(n.value, ast.Name) \
                                and n.value.id == rec:
                            return ast.copy_location(ast.Name(
                                id=names[n.attr], ctx=ast.Load()), n)
                        return n
                R().visit(f)
                for c, vals in recs:
                    c.args = [_clone(x) for x in vals]
    ast.fix_missing_locations(new)
    _relink(new, cls.parent)
    return new


def _namedtuple_fields(v):
    """field names of `collections.namedtuple("N", [...])` /
    `namedtuple("N", "a b")`"""
    if not (isinstance(v, ast.Call) and (call_name(v) or "").split(
            ".")[-1] == "namedtuple" and len(v.args) == 2):
        return None
    f = v.args[1]
    if isinstance(f, (ast.List, ast.Tuple)) and all(
            const_str(e) for e in f.elts):
        return [const_str(e) for e in f.elts]
    if const_str(f):
        return const_str(f).replace(",", " ").split()
    return None


def _cache_class_api(ccls):
    """{method: 'get'|'set'} of a private cache class that only wraps one
    dictionary: __init__ binds `self.<d> = dict(arg)`, getters return
    `self.<d>.get(k[, None])`, setters do `self.<d>[k] = v`; None when the
    class does anything else"""
    meths = [f for f in ccls.body if isinstance(f, ast.FunctionDef)]
    init = [f for f in meths if f.name == "__init__"]
    if len(init) != 1:
        return None
    body = [b for b in init[0].body if not (isinstance(b, ast.Expr)
            and isinstance(b.value, ast.Constant))]
    if not (len(body) == 1 and isinstance(body[0], ast.Assign)
            and is_self_attr(body[0].targets[0])
            and isinstance(body[0].value, ast.Call)
            and call_name(body[0].value) == "dict"
            and len(init[0].args.args) == 2
            and txt(body[0].value.args[0]) == init[0].args.args[1].arg):
        return None
    d = body[0].targets[0].attr
    api = {}
    for f in meths:
        if f.name == "__init__":
            continue
        b = [x for x in f.body if not (isinstance(x, ast.Expr)
             and isinstance(x.value, ast.Constant))]
        ps = [a.arg for a in f.args.args]
        if len(b) != 1:
            return None
        st = b[0]
        if isinstance(st, ast.Return) and isinstance(st.value, ast.Call) \
                and last_attr(st.value) == "get" and is_self_attr(
                st.value.func.value, d) and len(ps) == 2 \
                and txt(st.value.args[0]) == ps[1] and (
                len(st.value.args) == 1
                or txt(st.value.args[1]) == "None"):
            api[f.name] = "get"
        elif isinstance(st, ast.Assign) and isinstance(
                st.targets[0], ast.Subscript) and is_self_attr(
                st.targets[0].value, d) and len(ps) == 3 \
                and txt(st.targets[0].slice) == ps[1] \
                and txt(st.value) == ps[2]:
            api[f.name] = "set"
        else:
            return None
    return api


def reader_table(cls, repo=None, rel=None):
    """{method name: (uname, reducer, call)} from `_fetch_ufunc_attr("x",
    f)`.  Calls that go through a private helper of the class are followed
    (one level); names are resolved through single-assignment locals and
    module-level constants, `TABLE[key]` through a module-level / local
    dict literal."""
    def resolve(e, f, depth=0):
        if depth > 5 or e is None:
            return e
        if isinstance(e, ast.Name):
            defs = [n for n in walk(f) if isinstance(n, ast.Assign)
                    and any(isinstance(t, ast.Name) and t.id == e.id
                            for t in n.targets)]
            params = {a.arg for a in f.args.args}
            if len(defs) == 1:
                return resolve(defs[0].value, f, depth + 1)
            if not defs and e.id not in params and repo is not None:
                m = module_value(repo, rel, e.id)
                if m is not None:
                    return resolve(m, f, depth + 1)
            return e
        if isinstance(e, ast.Subscript):
            table = resolve(e.value, f, depth + 1)
            key = const_str(resolve(e.slice, f, depth + 1))
            if isinstance(table, ast.Dict) and key is not None:
                for k, v in zip(table.keys, table.values):
                    if const_str(k) == key:
                        return resolve(v, f, depth + 1)
                raise AnalysisError(f"{cls.name}: no entry '{key}' in "
                                    f"`{short(e.value, 30)}`")
            return e
        return e
    out = {}
    for f0 in cls.body:
        if not isinstance(f0, ast.FunctionDef) or f0.name not in NAMES:
            continue
        f = expand_private_calls(repo, rel, f0, keep=("_fetch_ufunc_attr",)) \
            if repo is not None else f0
        for c in find_calls(f, attr="_fetch_ufunc_attr"):
            if len(c.args) != 2:
                continue
            key = const_str(resolve(c.args[0], f))
            red = _np(dotted(resolve(c.args[1], f)))
            if key is None or red is None:
                raise AnalysisError(
                    f"{cls.name}.{f0.name}: arguments of "
                    f"`{short(c, 50)}` cannot be resolved")
            out[f0.name] = (key, red, c)
    return out


def r202(ctx, repo, wtable, wn):
    for u in NAMES:
        reds = wtable.get(u, set())
        ok = reds == {NAN_REDUCER[u]}
        ctx.ob("R20.2", ok, f"writer: {u} -> {sorted(reds)}" if ok else
               f"writer computes {u} with {sorted(reds)}", node=wn,
               key=f"{WR}::RTDCWriter.write_ndarray::table {u}")
    cp = wfunc(repo, CP, "rtdc_copy")
    unres = []
    cstores = summary_stores(cp, name_resolver(repo, CP, cp), unres)
    if unres:
        raise AnalysisError(f"rtdc_copy: attribute names of "
                            f"`{short(unres[0], 40)}` cannot be folded")
    ctab = {}
    for u, st, env in cstores:
        v = st.value
        if isinstance(v, ast.IfExp):
            # every branch must be the reduction; a constant stands in for
            # "nothing valid" – the NaN-ignoring reducers answer NaN there
            branches = [v.body, v.orelse]
            consts = [b for b in branches if isinstance(b, ast.Constant)
                      or (isinstance(b, ast.UnaryOp)
                          and isinstance(b.operand, ast.Constant))]
            calls = [b for b in branches if isinstance(b, ast.Call)]
            if len(calls) + len(consts) != 2 or not calls:
                raise AnalysisError("rtdc_copy: summary completion form "
                                    "lost")
            sub = [c for c in consts if not (
                isinstance(c, ast.Attribute))]
            ctx.ob("R20.2", not sub,
                   f"copier completes {u} by the reduction on every path"
                   if not sub else
                   f"copier completes {u} with the constant "
                   f"`{short(sub[0], 10)}` when `{short(v.test, 30)}` fails: "
                   f"the summary of a feature without valid values is "
                   f"{NAN_REDUCER[u]}(..) = NaN, not a substitute",
                   node=st, key=f"{CP}::rtdc_copy::no substitute for {u}")
            v = calls[0]
        f = v.func if isinstance(v, ast.Call) else None
        src = None
        if isinstance(f, ast.Call) and call_name(f) == "getattr" \
                and len(f.args) == 2 and not v.args:
            # getattr(obj, <name>)(): the method <name> of obj
            obj = f.args[0]
            res = name_resolver(repo, CP, cp)
            od = res(obj.id) if isinstance(obj, ast.Name) else obj
            if not isinstance(od, ast.Call) or not od.args:
                raise AnalysisError("rtdc_copy: summary completion form "
                                    "lost")
            red = f"{call_name(od)}(..).{u}"
            src = od.args[0]
        elif isinstance(v, ast.Call) and len(v.args) == 1:
            red = _np(dotted(env[f.id])) if isinstance(f, ast.Name) \
                and f.id in env else _np(dotted(f))
            src = v.args[0]
        else:
            raise AnalysisError("rtdc_copy: summary completion form lost")
        if red is None:
            raise AnalysisError(f"rtdc_copy: reducer of "
                                f"`{short(v, 40)}` not recognised")
        st.c20_source = src
        ctab[u] = (red, st, v)
    for u in NAMES:
        if u not in ctab:
            ctx.ob("R20.2", False, f"the copier does not complete a missing "
                   f"{u}", node=cp, key=f"{CP}::rtdc_copy::table {u}")
            continue
        red, st, v = ctab[u]
        ok = {red} == wtable.get(u, set()) or red == NAN_REDUCER[u]
        ctx.ob("R20.2", ok, f"copier: {u} -> {red}" if ok else
               f"copier completes {u} with `{red}`, writer uses "
               f"{sorted(wtable.get(u, set()))}", node=st,
               key=f"{CP}::rtdc_copy::table {u}")
    for rel, cname in ((EV, "H5ScalarEvent"), (HE, "ChildScalar")):
        tab = reader_table(normalise_reader_class(
            repo, rel, repo.cls(rel, cname)), repo, rel)
        for u in NAMES:
            if u not in tab:
                m = [f for f in normalise_reader_class(
                        repo, rel, repo.cls(rel, cname)).body
                     if isinstance(f, ast.FunctionDef) and f.name == u]
                if not m:
                    raise AnalysisError(f"{cname}.{u} lost")
                ctx.ob("R20.2", False, f"{cname}.{u}() does not go through "
                       f"_fetch_ufunc_attr('{u}', {NAN_REDUCER[u]})",
                       node=m[0], key=f"{rel}::{cname}.{u}::attribute name")
                continue
            key, red, call = tab[u]
            ok = key == u
            ctx.ob("R20.2", ok, f"{cname}.{u}() looks up '{key}'" if ok
                   else f"{cname}.{u}() looks up the stored '{key}'",
                   node=call, key=f"{rel}::{cname}.{u}::attribute name")
            ok = red == NAN_REDUCER[u]
            ctx.ob("R20.2", ok, f"{cname}.{u}() falls back to {red}" if ok
                   else f"{cname}.{u}() falls back to `{red}`, the writer "
                   f"stores {NAN_REDUCER[u]}", node=call,
                   key=f"{rel}::{cname}.{u}::reducer")
    return cstores


# ----------------------------------------------------------------------
# R20.3

def _plain_statements(f, cls):
    """copy of `f` with `if (x := e) …:` written as `x = e; if x …:` and
    chained assignments `a = b[k] = e` as `a = e; b[k] = a`"""
    def first_walrus(e):
        if isinstance(e, ast.NamedExpr):
            return e
        if isinstance(e, ast.Compare):
            return first_walrus(e.left)
        if isinstance(e, ast.BoolOp):
            return first_walrus(e.values[0])
        if isinstance(e, ast.UnaryOp):
            return first_walrus(e.operand)
        return None
    needs = any(isinstance(n, ast.NamedExpr) or (
        isinstance(n, ast.Assign) and len(n.targets) > 1) for n in walk(f))
    if not needs:
        return f
    new = _clone(f)

    def repl(root, ne):
        for n in ast.walk(root):
            for fld, val in ast.iter_fields(n):
                if val is ne:
                    setattr(n, fld, ast.copy_location(ast.Name(
                        id=ne.target.id, ctx=ast.Load()), ne))
                elif isinstance(val, list):
                    for i, x in enumerate(val):
                        if x is ne:
                            val[i] = ast.copy_location(ast.Name(
                                id=ne.target.id, ctx=ast.Load()), ne)

    def process(stmts):
        out = []
        for st in stmts:
            for fld in ("body", "orelse", "finalbody"):
                if isinstance(getattr(st, fld, None), list) and not \
                        isinstance(st, (ast.FunctionDef, ast.ClassDef)):
                    setattr(st, fld, process(getattr(st, fld)))
            if isinstance(st, (ast.If, ast.While)) and isinstance(st, ast.If):
                ne = first_walrus(st.test)
                while ne is not None and isinstance(ne.target, ast.Name):
                    out.append(ast.copy_location(ast.Assign(
                        targets=[ast.Name(id=ne.target.id, ctx=ast.Store())],
                        value=ne.value), st))
                    if st.test is ne:
                        st.test = ast.copy_location(ast.Name(
                            id=ne.target.id, ctx=ast.Load()), ne)
                    else:
                        repl(st.test, ne)
                    ne = first_walrus(st.test)
            if isinstance(st, ast.Assign) and len(st.targets) > 1:
                names = [t for t in st.targets if isinstance(t, ast.Name)]
                if names:
                    lead = names[0]
                    out.append(ast.copy_location(ast.Assign(
                        targets=[lead], value=st.value), st))
                    for t in st.targets:
                        if t is not lead:
                            out.append(ast.copy_location(ast.Assign(
                                targets=[t], value=ast.Name(
                                    id=lead.id, ctx=ast.Load())), st))
                    continue
            out.append(st)
        return out
    new.body = process(new.body)
    ast.fix_missing_locations(new)
    _relink(new, cls)
    return new


def _is_cache_lookup(e):
    """self._ufunc_attrs.get(K[, None]) or a load of self._ufunc_attrs[K]"""
    if isinstance(e, ast.Call) and last_attr(e) == "get" and isinstance(
            e.func, ast.Attribute) and is_self_attr(
            e.func.value, "_ufunc_attrs") and e.args and (
            len(e.args) == 1 or txt(e.args[1]) == "None"):
        return e.args[0]
    if isinstance(e, ast.Subscript) and isinstance(e.ctx, ast.Load) \
            and is_self_attr(e.value, "_ufunc_attrs"):
        return e.slice
    return None


def _cache_lookup_keys(f):
    return [txt(_is_cache_lookup(n)) for n in walk(f)
            if _is_cache_lookup(n) is not None]


def _localise_cache(f, uname, cls):
    """Bring a `_fetch_ufunc_attr` that reads the cache entry in place
    (`if cache.get(k) is None: cache[k] = …; return cache[k]`) to the form
    with a local: the entry is modelled by one variable that is read at the
    top, re-bound by every store and read wherever the entry is read."""
    has_local = any(isinstance(n, ast.Assign) and len(n.targets) == 1
                    and isinstance(n.targets[0], ast.Name)
                    and _is_cache_lookup(n.value) is not None
                    for n in walk(f))
    if has_local:
        return f
    new = _clone(f)
    var = "cached__entry"

    class T(ast.NodeTransformer):
        def visit_FunctionDef(self, node):
            if node is not new:
                return node
            self.generic_visit(node)
            return node

        def visit_Call(self, node):
            self.generic_visit(node)
            if _is_cache_lookup(node) is not None:
                return ast.copy_location(ast.Name(id=var, ctx=ast.Load()),
                                         node)
            return node

        def visit_Subscript(self, node):
            self.generic_visit(node)
            if _is_cache_lookup(node) is not None:
                return ast.copy_location(ast.Name(id=var, ctx=ast.Load()),
                                         node)
            return node

        def visit_Assign(self, node):
            t = node.targets[0]
            if len(node.targets) == 1 and isinstance(t, ast.Subscript) \
                    and is_self_attr(t.value, "_ufunc_attrs"):
                node.value = self.visit(node.value)
                first = ast.copy_location(ast.Assign(
                    targets=[ast.Name(id=var, ctx=ast.Store())],
                    value=node.value), node)
                node.value = ast.Name(id=var, ctx=ast.Load())
                return [first, node]
            self.generic_visit(node)
            return node
    T().visit(new)
    head = ast.parse(f"{var} = self._ufunc_attrs.get({uname})").body[0]
    ast.copy_location(head, f.body[0])
    k = 1 if (new.body and isinstance(new.body[0], ast.Expr) and isinstance(
        new.body[0].value, ast.Constant)) else 0
    new.body.insert(k, head)
    ast.fix_missing_locations(new)
    _relink(new, cls)
    return new


def check_fetch(ctx, rel, cls, cname, repo=None):
    """cached = cache.get(name); computed only when cached is None, from the
    object's own data; stored under the same name; every exit returns the
    cached value or, after computing, the computed one.  if-form and
    early-return form are both decided on the CFG."""
    f = [x for x in cls.body if isinstance(x, ast.FunctionDef)
         and x.name == "_fetch_ufunc_attr"]
    if not f:
        raise AnalysisError(f"{cname}._fetch_ufunc_attr lost")
    f = f[0]
    params = [a.arg for a in f.args.args]
    if len(params) != 3:
        raise AnalysisError(f"{cname}._fetch_ufunc_attr signature changed")
    _, uname, ufunc = params
    if repo is not None:
        # a body that was moved into a private helper is followed; the
        # helper's parameters that alias `self.<attr>` read as the attribute
        f = _deref_aliases(expand_private_calls(repo, rel, f))
    f = _plain_statements(f, cls)
    keys = _cache_lookup_keys(f)
    f = _localise_cache(f, uname, cls)
    cfg = CFG(f)
    assigns = [n for n in walk(f) if isinstance(n, ast.Assign)
               and len(n.targets) == 1
               and isinstance(n.targets[0], ast.Name)]
    cached = [d for d in assigns if isinstance(d.value, ast.Call)
              and last_attr(d.value) == "get"
              and isinstance(d.value.func, ast.Attribute)
              and is_self_attr(d.value.func.value, "_ufunc_attrs")
              and d.value.args]
    if len(cached) != 1 or not keys:
        raise AnalysisError(f"{cname}._fetch_ufunc_attr: cache lookup form")
    C = cached[0].targets[0].id
    ok = all(k == uname for k in keys)
    ctx.ob("R20.3", ok, f"{cname}: the cached value is looked up under the "
           f"requested name" if ok else f"{cname}: the cache is not read "
           f"under `{uname}`", node=f, label="cache lookup by name")
    rets = [n for n in walk(f) if isinstance(n, ast.Return)]
    if not rets:
        raise AnalysisError(f"{cname}._fetch_ufunc_attr: no return")
    out_names = {r.value.id for r in rets if isinstance(r.value, ast.Name)}
    out_names |= {txt(n.value) for n in walk(f) if isinstance(n, ast.Assign)
                  and isinstance(n.targets[0], ast.Subscript)
                  and is_self_attr(n.targets[0].value, "_ufunc_attrs")}
    comps = [d for d in assigns if d is not cached[0]
             and isinstance(d.value, ast.Call)
             and d.targets[0].id in out_names]
    if not comps:
        raise AnalysisError(f"{cname}._fetch_ufunc_attr: fallback form")

    def none_fact(e, truth):
        if isinstance(e, ast.Compare) and len(e.ops) == 1 and isinstance(
                e.left, ast.Name) and e.left.id == C and txt(
                e.comparators[0]) == "None":
            return (isinstance(e.ops[0], ast.Is) and truth) or (
                isinstance(e.ops[0], ast.IsNot) and not truth)
        return False
    for k, comp in enumerate(comps):
        sfx = "" if len(comps) == 1 else f" [{k}]"
        ok = txt(comp.value.func) == ufunc and len(comp.value.args) == 1 \
            and not comp.value.keywords and txt(comp.value.args[0]) in (
                "self.__array__()", "self[:]", "np.asarray(self)")
        ctx.ob("R20.3", ok, f"{cname}: a missing value is computed with the "
               f"given reducer over the object's own data" if ok else
               f"{cname}: fallback `{short(comp.value, 40)}` is not "
               f"`{ufunc}(own data)`", node=comp,
               label="fallback computes from own data" + sfx)
        ok = all(guarded_by(cfg, i, none_fact) for i in cfg.ids_of(comp))
        ctx.ob("R20.3", ok, f"{cname}: computed only when nothing is cached"
               if ok else f"{cname}: the fallback is not guarded by "
               f"`{C} is None`", node=comp,
               label="fallback only when missing" + sfx, nontrivial=False)
    rebound = [n for n in walk(f) if isinstance(
        n, (ast.Assign, ast.AugAssign, ast.AnnAssign, ast.NamedExpr))
        and any(isinstance(x, ast.Name) and x.id in (uname, ufunc)
                and isinstance(x.ctx, ast.Store)
                for t_ in (n.targets if isinstance(n, ast.Assign)
                           else [n.target]) for x in ast.walk(t_))]
    ctx.ob("R20.3", not rebound,
           f"{cname}: name and reducer handed in by min/max/mean are used "
           f"unchanged on every path" if not rebound else
           f"{cname}: `{short(rebound[0], 40)}` replaces the "
           f"{'reducer' if ufunc in names_in(rebound[0].targets[0] if isinstance(rebound[0], ast.Assign) else rebound[0].target) else 'name'}"
           f" handed in by min/max/mean on some path: the summary is then "
           f"not the NaN-ignoring reduction (e.g. NaN for data with NaN)",
           node=rebound[0] if rebound else f,
           label="given reducer used on every path")
    xs = {c.targets[0].id for c in comps}
    if len(xs) != 1:
        raise AnalysisError(f"{cname}._fetch_ufunc_attr: several result "
                            f"names {sorted(xs)}")
    X = xs.pop()
    c_ids = [i for c in comps for i in cfg.ids_of(c)]
    st = [n for n in walk(f) if isinstance(n, ast.Assign)
          and isinstance(n.targets[0], ast.Subscript)
          and is_self_attr(n.targets[0].value, "_ufunc_attrs")]
    s_ids = set()
    for n in st:
        s_ids |= set(cfg.ids_of(n))
    ok = len(st) == 1 and txt(st[0].targets[0].slice) == uname \
        and txt(st[0].value) == X and all(
            cfg.must_pass(lambda n: n.id in s_ids, src=i,
                          avoid_edge=lambda a, lab, b: lab == "x")
            for i in c_ids)
    ctx.ob("R20.3", ok, f"{cname}: the computed value is cached under the "
           f"same name" if ok else f"{cname}: the computed value is not "
           f"cached under `{uname}` on every path", node=st[0] if st else f,
           label="cache store by name")
    # what is returned
    after = cfg.reach(c_ids)
    bad = []
    for r in rets:
        name = r.value.id if isinstance(r.value, ast.Name) else None
        post = bool(set(cfg.ids_of(r)) & after)
        pre = any(i not in after for i in cfg.ids_of(r)) or (
            post and set(cfg.ids_of(r)) & cfg.reach(
                [cfg.entry], avoid_node=lambda n: n.id in c_ids))
        if post and name != X:
            bad.append(r)
        if pre and name not in (C, X):
            bad.append(r)
        if pre and name == X and X != C:
            bad.append(r)
    ctx.ob("R20.3", not bad, f"{cname}: returns the cached value, or the "
           f"computed one after computing" if not bad else
           f"{cname}: `{short(bad[0], 30)}` does not return the value "
           f"that was looked up / computed", node=bad[0] if bad else rets[0],
           label="returns cached or computed value")


def _self_deps(func):
    """closure: local name -> set of `self.<x>` names (attributes and called
    methods) its value is computed from; returns (deps, of)"""
    deps = {}

    def of(expr):
        out = set()
        for n in ast.walk(expr):
            if is_self_attr(n):
                out.add(n.attr)
            elif isinstance(n, ast.Name) and n.id in deps:
                out |= deps[n.id]
        return out
    for _ in range(10):
        changed = False
        for n in walk(func):
            if isinstance(n, ast.Assign):
                d = of(n.value)
                for t in n.targets:
                    if isinstance(t, ast.Name) and not d <= deps.get(
                            t.id, set()):
                        deps[t.id] = deps.get(t.id, set()) | d
                        changed = True
        if not changed:
            break
    return deps, of


def _is_empty_value(v):
    return (isinstance(v, ast.Constant) and v.value is None) or (
        isinstance(v, (ast.Dict, ast.List, ast.Set)) and not (
            getattr(v, "keys", None) or getattr(v, "elts", None))) or (
        isinstance(v, ast.Call) and call_name(v) in ("dict", "list", "set")
        and not v.args and not v.keywords)


def _memo_attrs(cls, funcs=None):
    """memo attributes: set in __init__, (re)filled lazily elsewhere
    (`funcs`: the methods after helper expansion / alias resolution)"""
    body = list(funcs) if funcs is not None else cls.body
    init = [f for f in body if isinstance(f, ast.FunctionDef)
            and f.name == "__init__"]
    if not init:
        return set()
    in_init = {t.attr for n in walk(init[0]) if isinstance(n, ast.Assign)
               for t in n.targets if is_self_attr(t)}
    filled = set()
    for f in body:
        if isinstance(f, ast.FunctionDef) and f.name != "__init__":
            for n in walk(f):
                if isinstance(n, ast.Assign):
                    for t in n.targets:
                        if is_self_attr(t) and not _is_empty_value(n.value):
                            filled.add(t.attr)
                        elif isinstance(t, ast.Subscript) and is_self_attr(
                                t.value):
                            filled.add(t.value.attr)
    return in_init & filled


def _resets_of(func, attr):
    """statements of `func` that empty the memo `attr`"""
    out = []
    for n in walk(func):
        if isinstance(n, ast.Assign) and any(
                is_self_attr(t, attr) for t in n.targets) \
                and _is_empty_value(n.value):
            out.append(n)
        elif isinstance(n, ast.Expr) and isinstance(n.value, ast.Call) \
                and last_attr(n.value) == "clear" and isinstance(
                n.value.func, ast.Attribute) and is_self_attr(
                n.value.func.value, attr):
            out.append(n)
    return out


def _memo_resets(ctx, cls, rel, repo=None):
    """reset-set ⊇ memo-set inside a lazy feature wrapper: a memo B whose
    entries are computed from memo A (directly or through a method that
    reads A) must be emptied wherever A is emptied"""
    methods = {f.name: f for f in cls.body if isinstance(f, ast.FunctionDef)}
    if repo is not None:
        methods = {k: _deref_aliases(expand_private_calls(
            repo, rel, f, keep=tuple(methods))) for k, f in methods.items()}
    memos = _memo_attrs(cls, methods.values())
    reads = {name: {n.attr for n in walk(f) if is_self_attr(n)}
             for name, f in methods.items()}
    derived = {}        # B -> set of A
    for name, f in methods.items():
        if name == "__init__":
            continue
        deps, of = _self_deps(f)
        for n in walk(f):
            if not isinstance(n, ast.Assign):
                continue
            for t in n.targets:
                b_ = t.value.attr if isinstance(t, ast.Subscript) \
                    and is_self_attr(t.value) else (
                    t.attr if is_self_attr(t) else None)
                if b_ not in memos:
                    continue
                src = of(n.value)
                for x in list(src):
                    src |= reads.get(x, set()) if x in methods else set()
                for a_ in (src & memos) - {b_}:
                    derived.setdefault(b_, set()).add(a_)
    if not derived:
        raise AnalysisError(f"{cls.name}: no derived memo found (summary "
                            f"cache no longer computed from the data memo?)")
    for b_, srcs in sorted(derived.items()):
        for a_ in sorted(srcs):
            sites = []
            for name, f in methods.items():
                if name == "__init__":
                    continue
                ra = _resets_of(f, a_)
                if not ra:
                    continue
                rb = _resets_of(f, b_)
                cfg = CFG(f)
                rb_ids = {i for x in rb for i in cfg.ids_of(x)}

                def hit(n, ids=rb_ids):
                    return n.id in ids
                for x in ra:
                    okx = all(
                        cfg.must_pass(hit, src=i, avoid_edge=lambda p_, lab,
                                      q_: lab == "x")
                        or cfg.always_before(i, hit)
                        for i in cfg.ids_of(x))
                    sites.append((name, x, okx))
            bad = [s_ for s_ in sites if not s_[2]]
            ctx.ob("R20.3", not bad,
                   f"{cls.name}: self.{b_} is computed from self.{a_}; "
                   f"{len(sites)} site(s) empty self.{a_} outside __init__, "
                   f"all of them also empty self.{b_}" if not bad else
                   f"{cls.name}.{bad[0][0]} empties the data memo "
                   f"self.{a_} but keeps self.{b_}, whose entries were "
                   f"computed from it: stale min/max/mean are reported for "
                   f"the re-fetched data",
                   node=bad[0][1] if bad else cls,
                   key=f"{rel}::{cls.name}::reset of {a_} also resets {b_}")


def _refresh_survivors(ctx, repo, af):
    """objects taken out of self._events must not be put back after the
    clear unless they are reset through a method that empties every memo"""
    deps = set()
    for _ in range(6):
        for n in walk(af):
            pairs = []
            if isinstance(n, ast.Assign):
                pairs = [(t, n.value) for t in n.targets]
            elif isinstance(n, (ast.For, ast.comprehension)):
                pairs = [(n.target, n.iter)]
            for tgt, val in pairs:
                tainted = any(is_self_attr(x, "_events")
                              for x in ast.walk(val)) or (
                    names_in(val) & deps)
                if tainted:
                    for x in ast.walk(tgt):
                        if isinstance(x, ast.Name) and isinstance(
                                x.ctx, ast.Store):
                            deps.add(x.id)
    back = [n for n in walk(af) if isinstance(n, ast.Assign)
            and isinstance(n.targets[0], ast.Subscript)
            and is_self_attr(n.targets[0].value, "_events")
            and names_in(n.value) & deps]
    if not back:
        ctx.ob("R20.3", True, "no object taken from the old feature cache "
               "is put back after the refresh", node=af,
               label="refresh keeps no old child object")
        return
    tree = repo.tree(HE)
    for st in back:
        names = names_in(st.value) & deps
        calls = [c for c in walk(af) if isinstance(c, ast.Call)
                 and isinstance(c.func, ast.Attribute)
                 and isinstance(c.func.value, ast.Name)
                 and c.func.value.id in names]
        full = False
        for c in calls:
            for cls in tree.body:
                if not isinstance(cls, ast.ClassDef):
                    continue
                m = [f for f in cls.body if isinstance(f, ast.FunctionDef)
                     and f.name == c.func.attr]
                memos = _memo_attrs(cls)
                if m and memos and all(_resets_of(m[0], a_) for a_ in memos):
                    full = True
        ctx.ob("R20.3", full, "re-used child objects are reset completely "
               "(every memo) before they are put back" if full else
               f"`{short(st, 40)}` puts an object of the old feature cache "
               f"back after the refresh without emptying all of its memos "
               f"(data and min/max/mean): summaries of the previous state "
               f"are reported", node=st,
               label="refresh keeps no old child object")


def _deref_aliases(func):
    """copy of `func` in which a local that is bound exactly once, to an
    attribute of `self` (`events = self._events`), is replaced by that
    attribute wherever it is read – item stores through the alias
    (`events[k] = v`) then read as stores into the attribute.  The copy
    hangs under the same class, construct keys are unchanged."""
    stores = {}
    for n in walk(func):
        if isinstance(n, ast.Name) and isinstance(n.ctx, (ast.Store,
                                                          ast.Del)):
            stores[n.id] = stores.get(n.id, 0) + 1
    params = {a.arg for a in func.args.args + func.args.kwonlyargs}
    mapping = {}
    for n in walk(func):
        if isinstance(n, ast.Assign) and len(n.targets) == 1 \
                and isinstance(n.targets[0], ast.Name) \
                and is_self_attr(n.value) \
                and stores.get(n.targets[0].id) == 1 \
                and n.targets[0].id not in params:
            mapping[n.targets[0].id] = n.value
    if not mapping:
        return func
    # the aliased attribute itself must not be re-bound in the function
    rebound = {t.attr for n in walk(func) if isinstance(n, ast.Assign)
               for t in n.targets if is_self_attr(t)}
    mapping = {k: v for k, v in mapping.items() if v.attr not in rebound}
    new = _clone(func)

    class T(ast.NodeTransformer):
        def visit_Name(self, node):
            if isinstance(node.ctx, ast.Load) and node.id in mapping:
                return ast.copy_location(_clone(mapping[node.id]), node)
            return node
    T().visit(new)
    ast.fix_missing_locations(new)
    _relink(new, getattr(func, "parent", None))
    return new


def r203(ctx, repo, cstores):
    h5 = normalise_reader_class(repo, EV, repo.cls(EV, "H5ScalarEvent"))
    ch = normalise_reader_class(repo, HE, repo.cls(HE, "ChildScalar"))
    check_fetch(ctx, EV, h5, "H5ScalarEvent", repo)
    check_fetch(ctx, HE, ch, "ChildScalar", repo)
    # seeds
    ini = [f_ for f_ in h5.body if isinstance(f_, ast.FunctionDef)
           and f_.name == "__init__"]
    if not ini:
        raise AnalysisError("H5ScalarEvent.__init__ lost")
    ini = ini[0]
    seed = [n for n in walk(ini) if isinstance(n, ast.Assign)
            and any(is_self_attr(t, "_ufunc_attrs") for t in n.targets)]
    if len(seed) != 1:
        raise AnalysisError("H5ScalarEvent.__init__: cache seed lost")
    v = seed[0].value
    own = [n for n in walk(ini) if isinstance(n, ast.Assign)
           and any(is_self_attr(t, "h5ds") for t in n.targets)]
    ok = isinstance(v, ast.Call) and call_name(v) == "dict" \
        and len(v.args) == 1 and txt(v.args[0]) in (
            "self.h5ds.attrs", f"{txt(own[0].value) if own else '?'}.attrs")
    ctx.ob("R20.3", ok, "H5ScalarEvent seeds its cache with a copy of its "
           "own dataset's attributes" if ok else
           f"H5ScalarEvent seeds its cache from `{short(v, 40)}`",
           node=seed[0], label="seed from own attributes")
    ini = [f_ for f_ in ch.body if isinstance(f_, ast.FunctionDef)
           and f_.name == "__init__"]
    if not ini:
        raise AnalysisError("ChildScalar.__init__ lost")
    ini = ini[0]
    seed = [n for n in walk(ini) if isinstance(n, ast.Assign)
            and any(is_self_attr(t, "_ufunc_attrs") for t in n.targets)]
    if len(seed) != 1:
        raise AnalysisError("ChildScalar.__init__: cache seed lost")
    v = seed[0].value
    ok = (isinstance(v, ast.Dict) and not v.keys) or (
        isinstance(v, ast.Call) and call_name(v) == "dict" and not v.args
        and not v.keywords)
    ctx.ob("R20.3", ok, "ChildScalar starts with an empty cache" if ok else
           f"ChildScalar seeds its cache from `{short(v, 40)}` – summaries "
           f"of the unfiltered parent", node=seed[0],
           label="child cache starts empty")
    # hierarchy refresh discards the children
    # locals that merely alias `self.hparent` / `self._events` are read as
    # the attribute they stand for
    af = _deref_aliases(wfunc(repo, HB, "RTDC_Hierarchy.apply_filter"))
    ok = any(is_self_attr(c.func.value, "_events")
             for c in find_calls(af, attr="clear")) or any(
        isinstance(n, ast.Assign) and any(
            is_self_attr(t, "_events") for t in n.targets)
        and isinstance(n.value, ast.Dict) for n in walk(af))
    ctx.ob("R20.3", ok, "apply_filter discards the cached child features "
           "(and their summaries)" if ok else "apply_filter keeps the cached "
           "child features: summaries of the previous filter state are "
           "reported", node=af, label="refresh discards child caches")
    _refresh_survivors(ctx, repo, af)
    for rel_, cname_ in ((EV, "H5ScalarEvent"), (HE, "ChildScalar")):
        _memo_resets(ctx, normalise_reader_class(
            repo, rel_, repo.cls(rel_, cname_)), rel_, repo)
    rj = repo.func(HB, "RTDC_Hierarchy.rejuvenate")
    ok = any(is_self_attr(c.func, "apply_filter")
             for c in find_calls(rj, attr="apply_filter"))
    ctx.ob("R20.3", ok, "rejuvenate goes through apply_filter" if ok else
           "rejuvenate no longer calls apply_filter", node=rj,
           label="rejuvenate refreshes", nontrivial=False)
    # copier completes only missing summaries, from the copied dataset
    cp_cfg = CFG(_func_of(cstores[0][1])) if cstores else None
    for u, st, env in cstores:
        v = st.value
        tgt = txt(st.targets[0].value.value)
        srcx = getattr(st, "c20_source", None)
        res_ = name_resolver(repo, CP, _func_of(st))

        def whole_copy(e, depth=0):
            """dst / dst[:] / a local bound to it / its NaN-free selection
            X[~np.isnan(X)] (the NaN-ignoring reducers see the same)"""
            if e is None or depth > 4:
                return False
            if txt(e) in (tgt, f"{tgt}[:]"):
                return True
            if isinstance(e, ast.Name):
                return whole_copy(res_(e.id), depth + 1)
            if isinstance(e, ast.Subscript) and isinstance(
                    e.slice, ast.UnaryOp) and isinstance(
                    e.slice.op, ast.Invert) and isinstance(
                    e.slice.operand, ast.Call) and (call_name(
                        e.slice.operand) or "").endswith("isnan") \
                    and txt(e.slice.operand.args[0]) == txt(e.value):
                return whole_copy(e.value, depth + 1)
            return False
        ok = whole_copy(srcx)
        ctx.ob("R20.3", ok, f"copier computes a missing {u} from the copied "
               f"dataset" if ok else f"copier computes {u} from "
               f"`{short(srcx, 30)}`, not from the copied dataset",
               node=st, key=f"{CP}::rtdc_copy::completion source {u}")
        keyname = txt(st.targets[0].slice)

        def missing_fact(e, truth, keyname=keyname, tgt=tgt):
            if isinstance(e, ast.Compare) and len(e.ops) == 1 \
                    and txt(e.left) == keyname \
                    and txt(e.comparators[0]) == f"{tgt}.attrs":
                return (isinstance(e.ops[0], ast.NotIn) and truth) or (
                    isinstance(e.ops[0], ast.In) and not truth)
            return False
        ok = all(guarded_by(cp_cfg, i, missing_fact)
                 for i in cp_cfg.ids_of(st))
        if not ok:
            # `for attr in [a for a in (...) if a not in dst.attrs]`
            res = name_resolver(repo, CP, _func_of(st))
            for lp in ancestors(st):
                if isinstance(lp, ast.For) and keyname in names_in(
                        lp.target):
                    it = lp.iter
                    if isinstance(it, ast.Name):
                        it = res(it.id)
                    if isinstance(it, (ast.ListComp, ast.GeneratorExp)) \
                            and len(it.generators) == 1 and isinstance(
                            it.generators[0].target, ast.Name):
                        g = it.generators[0]
                        ok = any(missing_fact(c, True, g.target.id, tgt)
                                 for c in g.ifs)
                    break
        ctx.ob("R20.3", ok, f"copier completes {u} only when it is missing"
               if ok else f"copier overwrites / skips {u} regardless of "
               f"presence", node=st,
               key=f"{CP}::rtdc_copy::completion guard {u}",
               nontrivial=False)
    # who stores summaries
    allowed = {(WR, "RTDCWriter.write_ndarray"), (CP, "rtdc_copy")}
    for rel_, q_ in sorted(allowed):
        f_ = wfunc(repo, rel_, q_)
        pre = q_.rsplit(".", 1)[0] + "." if "." in q_ else ""
        for h_rel, h in getattr(f_, "expanded_from", []):
            allowed.add((h_rel, pre + h))
            allowed.add((h_rel, h))
    n_sites = 0
    for rel in repo.files("dclab/"):
        if ".attrs[" not in repo.src(rel):
            continue
        for q, fn in repo.all_functions(rel):
            for u, st, env in summary_stores(
                    fn, name_resolver(repo, rel, fn)):
                n_sites += 1
                ok = (rel, q) in allowed
                ctx.ob("R20.3", ok, f"summary '{u}' stored by {q}" if ok
                       else f"{q} stores the summary '{u}' with private "
                       f"logic (not through RTDCWriter.write_ndarray)",
                       node=st, key=f"{rel}::{q}::stores summary {u}")
    ctx.stat("R20.3 summary store sites", n_sites)
    # join / export append through store_feature
    for rel, q in ((JN, "join"), (EX, "Export.hdf5")):
        f = repo.func(rel, q)
        sf = find_calls(f, attr="store_feature") + find_calls(
            f, name="store_filtered_feature")
        low = [c for c in walk(f) if isinstance(c, ast.Call)
               and last_attr(c) in ("write_ndarray", "create_dataset",
                                    "resize")]
        ok = bool(sf) and not low
        ctx.ob("R20.3", ok, f"{q} appends feature data through "
               f"store_feature" if ok else f"{q} writes datasets directly "
               f"(`{short(low[0], 40) if low else 'no store_feature'}`)",
               node=f, label="features go through store_feature")
    # replace mode removes the dataset together with its attributes
    sf = wfunc(repo, WR, "RTDCWriter.store_feature")
    guards = [n for n in walk(sf) if isinstance(n, ast.If)
              and any(is_self_attr(x, "mode") for x in ast.walk(n.test))
              and any(isinstance(d, ast.Delete) for d in walk(n))]
    if len(guards) != 1:
        ctx.ob("R20.3", False, "replace mode keeps the dataset object: stale "
               "summaries are combined with the new data", node=sf,
               label="replace removes stored summaries")
        return
    guard = guards[0]
    cfg = CFG(sf)

    def is_group_delete(st):
        return isinstance(st, ast.Delete) and all(
            isinstance(t, ast.Subscript) and not (
                isinstance(t.value, ast.Attribute)
                and t.value.attr == "attrs") for t in st.targets)

    def is_attr_reset(st):
        if isinstance(st, ast.Delete):
            return any(isinstance(t, ast.Subscript) and isinstance(
                t.value, ast.Attribute) and t.value.attr == "attrs"
                for t in st.targets)
        if isinstance(st, ast.Expr) and isinstance(st.value, ast.Call):
            c = st.value
            return last_attr(c) in ("pop", "clear") and isinstance(
                c.func, ast.Attribute) and isinstance(
                c.func.value, ast.Attribute) \
                and c.func.value.attr == "attrs"
        return False

    def removes(n):
        if n.ast is None:
            return False
        if n.kind == "stmt" and (is_group_delete(n.ast)
                                 or is_attr_reset(n.ast)):
            return True
        if n.kind == "for":
            # member-wise replacement (a dataset per key of the new data):
            # the members that exist are deleted one by one; which members
            # is decided by C01/R1.8
            return any(is_group_delete(x) for x in walk(n.ast))
        return False
    starts = cfg.ids_of(guard.body[0]) if guard.body else []
    ok = bool(starts) and all(
        cfg.must_pass(removes, src=i,
                      avoid_edge=lambda a_, lab, b_: lab == "x")
        for i in starts)
    keeps = [c for c in walk(guard) if isinstance(c, ast.Call)
             and last_attr(c) == "resize"] + [
        n for n in walk(guard) if isinstance(n, ast.Assign)
        and isinstance(n.targets[0], ast.Subscript)
        and isinstance(n.targets[0].slice, ast.Slice)]
    ctx.ob("R20.3", ok, "on every path replace mode deletes the dataset "
           "object (its summaries go with it)" if ok else
           "replace mode can keep the dataset object "
           + (f"(`{short(keeps[0], 40)}`) " if keeps else "")
           + "without resetting its min/max/mean attributes: the stale "
           "summaries are merged with those of the new data",
           node=keeps[0] if keeps and not ok else guard,
           label="replace removes stored summaries")


# ----------------------------------------------------------------------
# R20.4

FORBIDDEN = {"min", "max", "mean", "_ufunc_attrs", "_fetch_ufunc_attr",
             "attrs", "h5ds"}


def r204(ctx, repo):
    bp = repo.cls(FB, "BasinProxyFeature")
    ga = [f for f in bp.body if isinstance(f, ast.FunctionDef)
          and f.name == "__getattr__"]
    fwd = set()
    if ga:
        res = name_resolver(repo, FB, ga[0])
        for n in walk(ga[0]):
            if isinstance(n, ast.Compare) and isinstance(n.ops[0], ast.In):
                lst = n.comparators[0]
                hops = 0
                while isinstance(lst, ast.Name) and hops < 4:
                    # single-assignment local or module-level constant
                    lst = res(lst.id)
                    hops += 1
                if isinstance(lst, (ast.List, ast.Tuple, ast.Set)):
                    names = {const_str(e) for e in lst.elts}
                    if None in names:
                        raise AnalysisError(
                            "BasinProxyFeature.__getattr__: non-literal "
                            "entry in the forwarding list")
                    fwd |= names
        rets = [n for n in walk(ga[0]) if isinstance(n, ast.Return)]
        guarded = all(isinstance(r.parent, ast.If) for r in rets)
        if not fwd or not guarded:
            raise AnalysisError("BasinProxyFeature.__getattr__: forwarding "
                                "list not recognised")
    bad = sorted(x for x in fwd if x in FORBIDDEN)
    ctx.ob("R20.4", not bad, f"BasinProxyFeature forwards {sorted(fwd)} – no "
           f"summaries of the unmapped basin feature" if not bad else
           f"BasinProxyFeature forwards {bad} of the unmapped basin feature "
           f"(different event set)", node=ga[0] if ga else bp,
           label="no summary forwarding")
    for f in bp.body:
        if isinstance(f, ast.FunctionDef) and f.name in NAMES:
            ok = not any(isinstance(n, ast.Attribute) and n.attr in FORBIDDEN
                         and "feat_obj" in txt(n.value) for n in walk(f))
            ctx.ob("R20.4", ok, f"BasinProxyFeature.{f.name} works on the "
                   f"mapped data" if ok else f"BasinProxyFeature.{f.name} "
                   f"returns the summary of the unmapped basin feature",
                   node=f, label=f"own {f.name}")
    if not any(isinstance(f, ast.FunctionDef) and f.name in NAMES
               for f in bp.body):
        ctx.note("BasinProxyFeature offers no min/max/mean (AttributeError) "
                 "– no wrong value is reported")
    # Child* never read summaries of the parent's feature objects
    tree = repo.tree(HE)
    for cls in tree.body:
        if not (isinstance(cls, ast.ClassDef)
                and cls.name.startswith("Child")):
            continue
        bad = []
        for n in walk(cls, nested=True):
            if isinstance(n, ast.Attribute) and n.attr in FORBIDDEN \
                    and not is_self_attr(n) and (
                    "hparent" in txt(n.value) or txt(n.value) == "hp"
                    or "parent" in txt(n.value)):
                bad.append(n)
        ctx.ob("R20.4", not bad, f"{cls.name} does not read summaries of "
               f"the parent's features" if not bad else
               f"{cls.name} reads `{short(bad[0], 40)}` – a summary of the "
               f"unfiltered parent", node=bad[0] if bad else cls,
               key=f"{HE}::{cls.name}::no parent summaries")


def _param_deps(func):
    """{local name: set of named parameters it depends on} – flow-insensitive
    closure over assignments, loop targets and with-items.  `self` and the
    catch-alls *args / **kwargs are not tracked (the array protocol never
    fills them)."""
    a = func.args
    named = [x.arg for x in a.posonlyargs + a.args + a.kwonlyargs]
    named = [x for x in named if x not in ("self", "cls")]
    deps = {p_: {p_} for p_ in named}

    def of(expr):
        out = set()
        for n in ast.walk(expr):
            if isinstance(n, ast.Name) and n.id in deps:
                out |= deps[n.id]
        return out
    changed = True
    rounds = 0
    while changed and rounds < 20:
        changed = False
        rounds += 1
        for n in walk(func):
            pairs = []
            if isinstance(n, ast.Assign):
                pairs = [(t, n.value) for t in n.targets]
            elif isinstance(n, (ast.AugAssign, ast.AnnAssign)) \
                    and n.value is not None:
                pairs = [(n.target, n.value)]
            elif isinstance(n, (ast.For, ast.comprehension)):
                pairs = [(n.target, n.iter)]
            elif isinstance(n, ast.NamedExpr):
                pairs = [(n.target, n.value)]
            elif isinstance(n, ast.withitem) and n.optional_vars is not None:
                pairs = [(n.optional_vars, n.context_expr)]
            for tgt, val in pairs:
                d = of(val)
                if not d:
                    continue
                for x in ast.walk(tgt):
                    if isinstance(x, ast.Name) and isinstance(
                            x.ctx, ast.Store):
                        if not d <= deps.get(x.id, set()):
                            deps[x.id] = deps.get(x.id, set()) | d
                            changed = True
    return deps, of


KNOWN_SUMMARY_CLASSES = {
    (EV, "H5ScalarEvent"), (HE, "ChildScalar"),
}


def r205(ctx, repo):
    """Every feature wrapper in dclab/rtdc_dataset that offers min / max /
    mean computes them from exactly the values it yields: either through the
    reviewed `_fetch_ufunc_attr` protocol (R20.2 / R20.3) or as the
    NaN-ignoring reducer over `self.__array__()` / `self[:]` / the very
    expression its `__array__` caches or returns – no other index, no
    unique / sort / de-duplication in between."""
    found = []
    for rel in repo.files("dclab/rtdc_dataset/"):
        src = repo.src(rel)
        if not any(f"def {u}(" in src for u in NAMES):
            continue
        classes = [n for n in ast.walk(repo.tree(rel))
                   if isinstance(n, ast.ClassDef)]
        bases = {b.id for c in classes for b in c.bases
                 if isinstance(b, ast.Name)}
        for cls0 in classes:
            if cls0.name in bases and (cls0.name.startswith("_") or not any(
                    isinstance(f, ast.FunctionDef) and f.name == "__init__"
                    for f in cls0.body)):
                # a mixin / abstract base (private, or without constructor):
                # decided through the classes that inherit from it
                continue
            cls = normalise_reader_class(repo, rel, cls0)
            meths = {f.name: f for f in cls.body
                     if isinstance(f, ast.FunctionDef)}
            if set(NAMES) & set(meths):
                found.append((rel, cls, meths))
    if not found:
        raise AnalysisError("no class with summary methods found")
    for rel, cls, meths in found:
        known = (rel, cls.name) in KNOWN_SUMMARY_CLASSES
        own = {"self.__array__()", "self[:]", "np.asarray(self)",
               "np.array(self)"}
        for nm in ("__array__", "__getitem__"):
            f = meths.get(nm)
            if f is None:
                continue
            for n in walk(f):
                if isinstance(n, ast.Assign) and any(
                        is_self_attr(t) for t in n.targets):
                    own.add(txt(n.value))
                if isinstance(n, ast.Return) and nm == "__array__" \
                        and n.value is not None:
                    own.add(txt(n.value))
        # the values the summaries are compared with are the memoised
        # ones: the memo must not depend on the first caller's request
        for nm in ("__array__", "__getitem__"):
            f = meths.get(nm)
            if f is None:
                continue
            deps, of = _param_deps(f)
            for n in walk(f):
                if isinstance(n, ast.Assign):
                    for t in n.targets:
                        if is_self_attr(t):
                            leak = sorted(of(n.value))
                            ctx.ob("R20.4", not leak,
                                   f"{cls.name}: the data memo self.{t.attr}"
                                   f" does not depend on the request"
                                   if not leak else
                                   f"{cls.name}.{nm} memoises data that "
                                   f"depend on the per-call argument(s) "
                                   f"{leak}: later reads (and the values "
                                   f"min/max/mean are compared with) carry "
                                   f"the first caller's dtype while the "
                                   f"stored summaries do not",
                                   node=n,
                                   key=f"{rel}::{cls.name}.{nm}::memo "
                                       f"self.{t.attr} independent of the "
                                       f"request")
        for u in NAMES:
            f = meths.get(u)
            key = f"{rel}::{cls.name}.{u}::summary over the yielded values"
            if f is None:
                ctx.ob("R20.4", False, f"{cls.name} offers "
                       f"{sorted(set(NAMES) & set(meths))} but no {u}()",
                       node=cls, key=key)
                continue
            rets = [n for n in walk(f) if isinstance(n, ast.Return)]
            if len(rets) != 1 or rets[0].value is None:
                raise AnalysisError(f"{cls.name}.{u}: return form")
            v = rets[0].value
            calls = [c for c in ast.walk(v) if isinstance(c, ast.Call)
                     and last_attr(c) == "_fetch_ufunc_attr"]
            if calls or (isinstance(v, ast.Call) and isinstance(
                    v.func, ast.Attribute) and is_self_attr(v.func)
                    and v.func.attr.startswith("_")):
                # goes through the cache protocol (or a private helper of
                # it): decided by R20.2 / R20.3 for the reviewed classes
                if not known:
                    raise AnalysisError(
                        f"{rel}::{cls.name} has its own summary cache "
                        f"protocol – not reviewed")
                ctx.ob("R20.4", True, f"{cls.name}.{u} uses the reviewed "
                       f"cache protocol", node=f, key=key, nontrivial=False)
                continue
            if not (isinstance(v, ast.Call) and len(v.args) >= 1):
                raise AnalysisError(f"{cls.name}.{u}: `{short(v, 40)}` not "
                                    f"recognised")
            red = _np(dotted(v.func))
            arg = v.args[0]
            dedup = [c for c in ast.walk(arg) if isinstance(c, ast.Call)
                     and (last_attr(c) or "") in ("unique", "sort", "sorted",
                                                  "set", "argsort")]
            same = txt(arg) in own
            ok = same and not dedup and red == NAN_REDUCER[u]
            ctx.ob("R20.4", ok,
                   f"{cls.name}.{u} = {red} over the values the object "
                   f"yields" if ok else
                   f"{cls.name}.{u} = `{short(v, 60)}` is not "
                   f"{NAN_REDUCER[u]} over the values the object yields "
                   f"(its data are {sorted(own - {'self[:]', 'np.asarray(self)', 'np.array(self)'})[:3]}): "
                   f"another index / de-duplication changes e.g. the mean",
                   node=rets[0], key=key)


def run(ctx):
    repo = ctx.repo
    ctx.rule("R20.1", "stored min/max/mean are NaN-ignoring reductions of "
             "the whole dataset or consistent combinations of partial "
             "results (weights = non-NaN counts); the previous "
             "extremum is the attribute in the file, never writer-side "
             "memory", minimum=12)
    ctx.rule("R20.2", "writer, copier, H5ScalarEvent, ChildScalar use the "
             "same name -> NaN-ignoring reducer pairs", minimum=18)
    ctx.rule("R20.3", "lookup: cache by name, fallback from own data, seeds, "
             "refresh, summaries stored by writer/copier only", minimum=21)
    ctx.rule("R20.4", "re-indexing wrappers never forward summaries",
             minimum=7)
    wtable, wn = r201(ctx, repo)
    cstores = r202(ctx, repo, wtable, wn)
    r203(ctx, repo, cstores)
    r204(ctx, repo)
    r205(ctx, repo)



_OLD_MEAN = (
    '            # store ufunc data for mean (weighted with size)\n'
    '            mean_a = dset.attrs.get("mean", None)\n'
    '            if mean_a is not None:\n'
    '                num_a = offset\n'
    '                mean_b = np.nanmean(data)\n'
    '                num_b = data.size\n'
    '                mean = (mean_a * num_a + mean_b * num_b) / '
    '(num_a + num_b)\n'
    '            else:\n'
    '                mean = np.nanmean(dset)\n'
    '            dset.attrs["mean"] = mean\n')

_COUNT_MEAN = (
    '            # store ufunc data for mean (weighted with valid counts)\n'
    '            mean_a = dset.attrs.get("mean", None)\n'
    '            num_a = np.count_nonzero(~np.isnan(dset[:offset]))\n'
    '            num_b = data.size - np.sum(np.isnan(data))\n'
    '            if mean_a is not None and num_a and num_b:\n'
    '                mean_b = np.nanmean(data)\n'
    '                mean = (mean_b * num_b + num_a * mean_a) / '
    '(num_b + num_a)\n'
    '            else:\n'
    '                mean = np.nanmean(dset)\n'
    '            dset.attrs["mean"] = mean\n')


def _mean_block(src):
    """(start, end) of the statements that maintain attrs['mean'] in
    write_ndarray – works before and after the F20 repair"""
    a = src.index("            # store ufunc data for mean")
    key = '            dset.attrs["mean"] = '
    b = src.index(key, a)
    b = src.index("\n", b) + 1
    return a, b


def _count_based_mean(src):
    a, b = _mean_block(src)
    return src[:a] + _COUNT_MEAN + src[b:]


def _raw_size_mean(src):
    a, b = _mean_block(src)
    return src[:a] + _OLD_MEAN + src[b:]


def _count_based_unguarded(src):
    a, b = _mean_block(src)
    return src[:a] + _COUNT_MEAN.replace(
        "if mean_a is not None and num_a and num_b:",
        "if mean_a is not None:") + src[b:]


def _count_of_nans(src):
    a, b = _mean_block(src)
    return src[:a] + _COUNT_MEAN.replace(
        "num_a = np.count_nonzero(~np.isnan(dset[:offset]))",
        "num_a = np.count_nonzero(np.isnan(dset[:offset]))") + src[b:]


def _proxy_forwards_summaries(src):
    """independent of what else the proxy forwards"""
    a = src.index("class BasinProxyFeature")
    key = '            "dtype",\n'
    b = src.find(key, a)
    if b < 0:
        return src
    b += len(key)
    return (src[:b] + '            "min",\n            "max",\n'
            '            "mean",\n' + src[b:])


def _block_stored_late(src):
    line = "            dset[offset:] = data\n"
    if src.count(line) != 1:
        return src
    src = src.replace(line, "")
    a, _ = _mean_block(src)
    key = '            dset.attrs["mean"] = '
    b = src.index(key, a)
    return src[:b] + line + src[b:]


def _extract_block(src, first, last, call, helper_head, before, dedent):
    """cut the lines from the one starting with `first` to the one starting
    with `last` (inclusive), put `call` there and a new helper made of
    `helper_head` + the dedented block in front of the line `before`"""
    a = src.find(first)
    b = src.find(last, a)
    if a < 0 or b < 0 or src.count(before) != 1:
        return src
    b = src.index("\n", b) + 1
    block = src[a:b]
    body = "".join(line[dedent:] if line.strip() else line
                   for line in block.splitlines(True))
    src = src[:a] + call + src[b:]
    return src.replace(before, helper_head + body + "\n" + before)


def _summaries_in_helper(src):
    return _extract_block(
        src,
        "            # store ufunc data for min/max\n",
        '            dset.attrs["mean"] = ',
        "            self._update_scalar_ufunc_attrs(dset, data)\n",
        "    @staticmethod\n"
        "    def _update_scalar_ufunc_attrs(dset, data):\n"
        '        """update min/max/mean of a scalar dataset"""\n',
        "    def write_ndarray(self, group, name, data, dtype=None):\n", 4)


def _repopulate_in_helper(src):
    return _extract_block(
        src,
        "        # update event index\n",
        '            self._events["trace"] = trdict\n',
        "        self._repopulate_events()\n",
        "    def _repopulate_events(self):\n"
        '        """clear the feature cache, set index and wrappers"""\n',
        "    def apply_filter(self, *args, **kwargs):\n", 0)


def _copier_table_as_constant(src):
    old = ('[(np.nanmin, "min"),\n'
           '                                        (np.nanmax, "max"),\n'
           '                                        (np.nanmean, "mean"),\n'
           '                                        ]:')
    head = "\n\ndef rtdc_copy("
    if src.count(old) != 1 or src.count(head) != 1:
        return src
    src = src.replace(old, "_SCALAR_UFUNC_ATTRS:")
    return src.replace(
        head, '\n\n_SCALAR_UFUNC_ATTRS = (\n    (np.nanmin, "min"),\n'
        '    (np.nanmax, "max"),\n    (np.nanmean, "mean"),\n)\n' + head)


def _summary_table_helper(src, min_func="np.nanmin"):
    """H5ScalarEvent.min/max/mean through a private method and a
    module-level name -> function table"""
    edits = [
        ('        return self._fetch_ufunc_attr("max", np.nanmax)\n',
         '        return self._summary("max")\n'),
        ('        return self._fetch_ufunc_attr("mean", np.nanmean)\n',
         '        return self._summary("mean")\n'),
        ('        return self._fetch_ufunc_attr("min", np.nanmin)\n',
         '        return self._summary("min")\n'),
        ("    def max(self, *args, **kwargs):\n",
         "    def _summary(self, uname):\n"
         "        return self._fetch_ufunc_attr(uname, "
         "_SCALAR_SUMMARY_UFUNCS[uname])\n\n"
         "    def max(self, *args, **kwargs):\n"),
        ("\n\nclass H5ContourEvent:\n",
         '\n\n_SCALAR_SUMMARY_UFUNCS = {\n    "max": np.nanmax,\n'
         '    "mean": np.nanmean,\n    "min": ' + min_func + ',\n}\n'
         "\n\nclass H5ContourEvent:\n"),
    ]
    for old, new in edits:
        if src.count(old) != 1:
            return src
        src = src.replace(old, new)
    return src


def _summary_table_min_is_max(src):
    return _summary_table_helper(src, min_func="np.nanmax")


def _forwarding_tuple(src, extra=""):
    old = ('        if item in [\n            "dtype",\n        ]:\n'
           "            return getattr(self.feat_obj, item)\n")
    head = "\n\nclass BasinProxyFeature("
    if src.count(old) != 1 or src.count(head) != 1:
        return src
    src = src.replace(
        old, "        if item in _PROXY_FORWARDED_ATTRIBUTES:\n"
        "            return getattr(self.feat_obj, item)\n")
    return src.replace(
        head, '\n\n_PROXY_FORWARDED_ATTRIBUTES = (\n    "dtype",\n'
        + extra + ")\n" + head)


def _forwarding_tuple_with_mean(src):
    return _forwarding_tuple(src, extra='    "mean",\n')


def _proxy_summaries(src, index="self.basinmap"):
    """BasinProxyFeature gets its own min/max/mean"""
    head = "    def __len__(self):\n        return len(self.basinmap)\n"
    a = src.find("class BasinProxyFeature")
    b = src.find(head, a)
    if a < 0 or b < 0:
        return src
    b += len(head)
    add = ""
    for u in ("max", "mean", "min"):
        add += (f"\n    def {u}(self, *args, **kwargs):\n"
                f"        return np.nan{u}(self.feat_obj[:][{index}])\n")
    return src[:b] + add + src[b:]


def _proxy_summaries_unique(src):
    return _proxy_summaries(src, index="np.unique(self.basinmap)")


def _proxy_summaries_own_array(src):
    head = "    def __len__(self):\n        return len(self.basinmap)\n"
    a = src.find("class BasinProxyFeature")
    b = src.find(head, a)
    if a < 0 or b < 0:
        return src
    b += len(head)
    add = ""
    for u in ("max", "mean", "min"):
        add += (f"\n    def {u}(self, *args, **kwargs):\n"
                f"        return np.nan{u}(self.__array__())\n")
    return src[:b] + add + src[b:]


def _extrema_walrus(src):
    first = "                val_a = dset.attrs.get(uname, None)\n"
    last = "                dset.attrs[uname] = val\n"
    a = src.find(first)
    b = src.find(last, a)
    if a < 0 or b < 0:
        return src
    return src[:a] + (
        "                dset.attrs[uname] = (\n"
        "                    ufunc([val_a, ufunc(dset[offset:])])\n"
        "                    if (val_a := dset.attrs.get(uname)) is not None\n"
        "                    else ufunc(dset))\n") + src[b + len(last):]


def _refresh_with_aliases(src):
    a = src.find("    def apply_filter(self, *args, **kwargs):")
    b = src.find("    def get_root_parent(self):", a)
    if a < 0 or b < 0:
        return src
    body = src[a:b]
    head = "        # Copy event data from hierarchy parent\n"
    if body.count(head) != 1:
        return src
    body = body.replace(head, "        events = self._events\n" + head)
    first = body.index("        events = self._events\n") + len(
        "        events = self._events\n")
    body = body[:first] + body[first:].replace("self._events", "events")
    return src[:a] + body + src[b:]


def _fetch_in_module_helper(src):
    old = ("        val = self._ufunc_attrs.get(uname, None)\n"
           "        if val is None:\n"
           "            val = ufunc(self.__array__())\n"
           "            self._ufunc_attrs[uname] = val\n"
           "        return val\n")
    if src.count(old) != 1:
        return src
    return src.replace(
        old, "        return _fetch_cached_ufunc_attr(\n"
        "            ufunc_attrs=self._ufunc_attrs, get_array=self.__array__,\n"
        "            uname=uname, ufunc=ufunc)\n") + (
        "\n\ndef _fetch_cached_ufunc_attr(ufunc_attrs, get_array, uname, "
        "ufunc):\n"
        "    val = ufunc_attrs.get(uname, None)\n"
        "    if val is None:\n"
        "        val = ufunc(get_array())\n"
        "        ufunc_attrs[uname] = val\n"
        "    return val\n")


def _fetch_in_module_helper_wrong_key(src):
    return _fetch_in_module_helper(src).replace(
        "        ufunc_attrs[uname] = val\n",
        '        ufunc_attrs["mean"] = val\n')


def _summaries_in_mixin(src):
    """_fetch_ufunc_attr / max / mean / min of H5ScalarEvent moved verbatim
    into a mixin of the same file"""
    a = src.find("    def _fetch_ufunc_attr(self, uname, ufunc):")
    b = src.find("    @property\n    def dtype(self):", a)
    head = "class H5ScalarEvent(np.lib.mixins.NDArrayOperatorsMixin):"
    if a < 0 or b < 0 or src.count(head) != 1:
        return src
    block = src[a:b]
    src = src[:a] + src[b:]
    return src.replace(
        head, "class _UfuncSummaryMixin:\n" + block + "\n"
        "class H5ScalarEvent(_UfuncSummaryMixin,\n"
        "                    np.lib.mixins.NDArrayOperatorsMixin):")


def _summary_cache_object(src, getter="self._values.get(uname, None)"):
    edits = [
        ("        self._ufunc_attrs = dict(self.h5ds.attrs)\n",
         "        self._ufunc_attrs = _UfuncAttrCache(self.h5ds.attrs)\n"),
        ("        val = self._ufunc_attrs.get(uname, None)\n",
         "        val = self._ufunc_attrs.lookup(uname)\n"),
        ("            self._ufunc_attrs[uname] = val\n",
         "            self._ufunc_attrs.store(uname, val)\n"),
        ("\n\nclass H5ContourEvent:\n",
         "\n\nclass _UfuncAttrCache:\n"
         "    def __init__(self, attrs):\n"
         "        self._values = dict(attrs)\n\n"
         "    def lookup(self, uname):\n"
         f"        return {getter}\n\n"
         "    def store(self, uname, value):\n"
         "        self._values[uname] = value\n"
         "\n\nclass H5ContourEvent:\n"),
    ]
    for old, new in edits:
        if src.count(old) != 1:
            return src
        src = src.replace(old, new)
    return src


_INIT_SIZES = "        self._group_sizes = {}\n"


def _extrema_cached_by_name(src):
    """running min/max remembered per dataset name by the writer instance,
    consulted before the stored attribute"""
    src = src.replace(_INIT_SIZES, _INIT_SIZES
                      + "        self._ufunc_cache = {}\n", 1)
    src = src.replace(
        "                val_a = dset.attrs.get(uname, None)\n",
        "                ckey = (dset.name, uname)\n"
        "                val_a = self._ufunc_cache.get(ckey)\n"
        "                if val_a is None:\n"
        "                    val_a = dset.attrs.get(uname, None)\n", 1)
    return src.replace(
        "                dset.attrs[uname] = val\n",
        "                dset.attrs[uname] = val\n"
        "                self._ufunc_cache[ckey] = val\n", 1)


def _extrema_cache_with_attr_default(src):
    """the remembered value wins, the attribute is only its default; the
    memory is reached through a local alias"""
    src = src.replace(_INIT_SIZES, _INIT_SIZES
                      + "        self._extrema = {}\n", 1)
    src = src.replace(
        "                val_a = dset.attrs.get(uname, None)\n",
        "                seen = self._extrema\n"
        "                val_a = seen.get((dset.name, uname),\n"
        "                                 dset.attrs.get(uname, None))\n", 1)
    return src.replace(
        "                dset.attrs[uname] = val\n",
        "                dset.attrs[uname] = val\n"
        "                seen[(dset.name, uname)] = val\n", 1)


MUTANTS = [
    # R20.1
    ("writer: max of a block with np.max", WR,
     ('("max", np.nanmax)]', '("max", np.max)]'), "R20.1"),
    ("writer: stored minimum ignored on append", WR,
     ("val = ufunc([val_a, val_b])", "val = val_b"), "R20.1"),
    ("writer: stored value kept on append", WR,
     ("val = ufunc([val_a, val_b])", "val = val_a"), "R20.1"),
    ("writer: mean of the whole dataset with np.mean", WR,
     ("np.nanmean(dset)", "np.mean(dset)"), "R20.1"),
    ("writer: dataset reduced before the block is stored", WR,
     _block_stored_late, "R20.1"),
    ("writer: count-based mean without all-NaN guard", WR,
     _count_based_unguarded, "R20.1"),
    ("writer: weights count the NaN values", WR, _count_of_nans, "R20.1"),
    # R20.2
    ("copier completes mean with np.mean", CP,
     ('(np.nanmean, "mean"),', '(np.mean, "mean"),'), "R20.2"),
    ("copier completes min with nanmax", CP,
     ('(np.nanmin, "min"),', '(np.nanmax, "min"),'), "R20.2"),
    ("copier no longer completes max", CP,
     ('                                        (np.nanmax, "max"),\n', ""),
     "R20.2"),
    ("H5ScalarEvent.max falls back to np.max", EV,
     ('self._fetch_ufunc_attr("max", np.nanmax)',
      'self._fetch_ufunc_attr("max", np.max)'), "R20.2"),
    ("H5ScalarEvent.min reads the stored max", EV,
     ('self._fetch_ufunc_attr("min", np.nanmin)',
      'self._fetch_ufunc_attr("max", np.nanmin)'), "R20.2"),
    ("ChildScalar.mean falls back to np.mean", HE,
     ('self._fetch_ufunc_attr("mean", np.nanmean)',
      'self._fetch_ufunc_attr("mean", np.mean)'), "R20.2"),
    # R20.3
    ("H5ScalarEvent recomputes although a value is stored", EV,
     ("        if val is None:\n            val = ufunc(self.__array__())",
      "        if val is not None:\n"
      "            val = ufunc(self.__array__())"), "R20.3"),
    ("copier overwrites stored summaries", CP,
     ("                        if attr not in dst.attrs:\n", 
      "                        if attr in dst.attrs:\n"), "R20.3"),
    ("ChildScalar returns the entry of another name", HE,
     ("            self._ufunc_attrs[uname] = val\n        return val\n",
      "            self._ufunc_attrs[uname] = val\n"
      '        return self._ufunc_attrs["min"]\n'), "R20.3"),
    ("walrus form caches the value under another name", EV,
     ("        val = self._ufunc_attrs.get(uname, None)\n"
      "        if val is None:\n"
      "            val = ufunc(self.__array__())\n"
      "            self._ufunc_attrs[uname] = val\n",
      "        if (val := self._ufunc_attrs.get(uname)) is None:\n"
      '            val = self._ufunc_attrs["max"] = ufunc(self.__array__())\n'),
     "R20.3"),
    ("summary table maps 'min' to np.nanmax", EV,
     _summary_table_min_is_max, "R20.2"),
    ("module-level fetch helper caches under a fixed name", EV,
     _fetch_in_module_helper_wrong_key, "R20.3"),
    ("ChildScalar switches to the plain reducer for cleaned parents", HE,
     ("            val = ufunc(self.__array__())\n",
      '            if self.child.hparent.config["filtering"]['
      '"remove invalid events"]:\n'
      "                ufunc = getattr(np, uname)\n"
      "            val = ufunc(self.__array__())\n"), "R20.3"),
    ("copier writes 0 for features without valid values", CP,
     ("                            dst.attrs[attr] = ufunc(dst)\n",
      "                            data = dst[:]\n"
      "                            valid = data[~np.isnan(data)]\n"
      "                            dst.attrs[attr] = ufunc(valid) "
      "if valid.size else 0\n"), "R20.2"),
    ("H5ScalarEvent caches under a fixed name", EV,
     ("self._ufunc_attrs[uname] = val", 'self._ufunc_attrs["min"] = val'),
     "R20.3"),
    ("ChildScalar seeded from the parent's summaries", HE,
     ("self._ufunc_attrs = {}",
      "self._ufunc_attrs = dict(child.hparent[feat]._ufunc_attrs)"),
     "R20.3"),
    ("ChildScalar fallback over the parent's data", HE,
     ("val = ufunc(self.__array__())",
      "val = ufunc(self.child.hparent[self.feat])"), "R20.3"),
    ("hierarchy refresh keeps the child features", HB,
     ("        self._events.clear()\n", ""), "R20.3"),
    ("copier recomputes from the source dataset", CP,
     ("dst.attrs[attr] = ufunc(dst)",
      'dst.attrs[attr] = ufunc(src_h5file["events"][feat])'), "R20.3"),
    ("join maintains the mean itself", JN,
     ("                        hw.store_feature(feat=feat, data=fdata)\n",
      "                        hw.store_feature(feat=feat, data=fdata)\n"
      '                        hw.h5file["events"][feat].attrs["mean"] = \\\n'
      "                            np.nanmean(fdata)\n"), "R20.3"),
    ("replace mode truncates resizable scalar datasets", WR,
     ("            else:\n                del events[feat]\n",
      "            elif (dfn.scalar_feature_exists(feat)\n"
      "                    and events[feat].maxshape[0] is None):\n"
      "                events[feat].resize(0, axis=0)\n"
      "            else:\n                del events[feat]\n"), "R20.3"),
    ("ChildScalar.reset() drops the data but keeps the summaries", HE,
     ("    @property\n    def shape(self):\n        return len(self),\n",
      "    def reset(self):\n        self._array = None\n\n"
      "    @property\n    def shape(self):\n        return len(self),\n"),
     "R20.3"),
    ("hierarchy refresh puts the old scalar objects back", HB,
     ("        self._events.clear()\n",
      "        reuse = {ft: fd for ft, fd in self._events.items()\n"
      "                 if isinstance(fd, ChildScalar)}\n"
      "        self._events.clear()\n"
      "        for ft, fd in reuse.items():\n"
      "            self._events[ft] = fd\n"), "R20.3"),
    ("replace mode truncates instead of deleting", WR,
     ("                del events[feat]\n",
      "                events[feat].resize(0, axis=0)\n"), "R20.3"),
    # R20.4
    ("BasinProxyFeature forwards the summaries", FB,
     _proxy_forwards_summaries, "R20.4"),
    ("BasinProxyFeature summaries over the de-duplicated mapping", FB,
     _proxy_summaries_unique, "R20.4"),
    ("H5ScalarEvent memo loaded with the caller's dtype", EV,
     ("self._array = np.asarray(self.h5ds, *args, **kwargs)",
      "self._array = np.asarray(self.h5ds, dtype=dtype, *args, **kwargs)"),
     "R20.4"),
    ("stored extremum falls back to the new block", WR,
     ("val_a = dset.attrs.get(uname, None)\n"
      "                if val_a is not None:\n",
      "val_a = dset.attrs.get(uname, ufunc(dset[offset:]))\n"
      "                if offset:\n"), "R20.1"),
    ("combination guarded by the offset only", WR,
     ("                if val_a is not None:\n",
      "                if offset:\n"), "R20.1"),
    ("module-level forwarding tuple lists 'mean'", FB,
     _forwarding_tuple_with_mean, "R20.4"),
    ("ChildScalar.max taken from the parent feature", HE,
     ('return self._fetch_ufunc_attr("max", np.nanmax)',
      "return self.child.hparent[self.feat].max()"), "R20.4"),
    # round 7: writer-side memory in place of the stored attribute
    ("running extrema cached per dataset name on the writer", WR,
     _extrema_cached_by_name, "R20.1"),
    ("remembered extrema win over the stored attribute (aliased dict)", WR,
     _extrema_cache_with_attr_default, "R20.1"),
]

#: for the tree with fix_F20b.diff applied and ARM_F20B = True
MUTANTS_AFTER_FIX_F20B = [
    ("block extrema from an in-memory cast of the input", WR,
     ("val_b = ufunc(dset[offset:])",
      "val_b = ufunc(np.asarray(data).astype(dset.dtype))"), "R20.1"),
    ("F20b returns: block extrema from the input array", WR,
     ("val_b = ufunc(dset[offset:])", "val_b = ufunc(data)"), "R20.1"),
]

#: applies only once F20 is repaired (today it changes nothing)
MUTANTS_AFTER_FIX = [
    ("F20 returns: mean weighted with raw sizes", WR, _raw_size_mean,
     "R20.1"),
]

MUTANTS = MUTANTS + MUTANTS_AFTER_FIX_F20B

TWINS = [
    ("writer table reordered", WR,
     ('[("min", np.nanmin),\n'
      '                                 ("max", np.nanmax)]',
      '[("max", np.nanmax),\n'
      '                                 ("min", np.nanmin)]')),
    ("combination operands swapped, tuple", WR,
     ("val = ufunc([val_a, val_b])", "val = ufunc((val_b, val_a))")),
    ("stored value read without default", WR,
     ("val_a = dset.attrs.get(uname, None)", "val_a = dset.attrs.get(uname)")),
    ("mean combined with non-NaN counts and guards", WR, _count_based_mean),
    ("copier table reordered", CP,
     [('(np.nanmin, "min"),', '(np.nanmean, "mean"),', 0),
      ('                                        (np.nanmean, "mean"),\n'
       '                                        ]',
       '                                        (np.nanmin, "min"),\n'
       '                                        ]')]),
    ("H5ScalarEvent seeded from the constructor argument", EV,
     ("self._ufunc_attrs = dict(self.h5ds.attrs)",
      "self._ufunc_attrs = dict(h5ds.attrs)")),
    ("ChildScalar cache created with dict()", HE,
     ("self._ufunc_attrs = {}", "self._ufunc_attrs = dict()")),
    # refactorings by independent agents (reduced to the essential edit)
    ("summary maintenance extracted into a private static helper", WR,
     _summaries_in_helper),
    ("cache reset extracted into _repopulate_events()", HB,
     _repopulate_in_helper),
    ("copier table as a module-level constant", CP,
     _copier_table_as_constant),
    ("copier completion with early continue", CP,
     ("                        if attr not in dst.attrs:\n"
      "                            dst.attrs[attr] = ufunc(dst)\n",
      "                        if attr in dst.attrs:\n"
      "                            continue\n"
      "                        dst.attrs[attr] = ufunc(dst)\n")),
    ("H5ScalarEvent lookup with early return", EV,
     ("        val = self._ufunc_attrs.get(uname, None)\n"
      "        if val is None:\n"
      "            val = ufunc(self.__array__())\n"
      "            self._ufunc_attrs[uname] = val\n"
      "        return val\n",
      "        cached = self._ufunc_attrs.get(uname, None)\n"
      "        if cached is not None:\n"
      "            return cached\n"
      "        computed = ufunc(self.__array__())\n"
      "        self._ufunc_attrs[uname] = computed\n"
      "        return computed\n")),
    # round 2
    ("replace mode truncates and clears the attributes", WR,
     ("            else:\n                del events[feat]\n",
      "            elif (dfn.scalar_feature_exists(feat)\n"
      "                    and events[feat].maxshape[0] is None):\n"
      "                events[feat].resize(0, axis=0)\n"
      "                events[feat].attrs.clear()\n"
      "            else:\n                del events[feat]\n")),
    ("ChildScalar.reset() empties both memos", HE,
     ("    @property\n    def shape(self):\n        return len(self),\n",
      "    def reset(self):\n        self._array = None\n"
      "        self._ufunc_attrs.clear()\n\n"
      "    @property\n    def shape(self):\n        return len(self),\n")),
    ("refresh re-creates the feature cache dictionary", HB,
     ("        self._events.clear()\n", "        self._events = {}\n")),
    # round 2, batch 2
    ("extrema update as one conditional expression with a walrus", WR,
     _extrema_walrus),
    ("copier table as a dict iterated with .items()", CP,
     ('                    for ufunc, attr in [(np.nanmin, "min"),\n'
      '                                        (np.nanmax, "max"),\n'
      '                                        (np.nanmean, "mean"),\n'
      "                                        ]:\n",
      '                    summary_ufuncs = {"min": np.nanmin,\n'
      '                                      "max": np.nanmax,\n'
      '                                      "mean": np.nanmean}\n'
      "                    for attr, ufunc in summary_ufuncs.items():\n")),
    ("H5ScalarEvent lookup without a local", EV,
     ("        val = self._ufunc_attrs.get(uname, None)\n"
      "        if val is None:\n"
      "            val = ufunc(self.__array__())\n"
      "            self._ufunc_attrs[uname] = val\n"
      "        return val\n",
      "        if self._ufunc_attrs.get(uname) is None:\n"
      "            self._ufunc_attrs[uname] = ufunc(self.__array__())\n"
      "        return self._ufunc_attrs[uname]\n")),
    ("H5ScalarEvent lookup with walrus and chained assignment", EV,
     ("        val = self._ufunc_attrs.get(uname, None)\n"
      "        if val is None:\n"
      "            val = ufunc(self.__array__())\n"
      "            self._ufunc_attrs[uname] = val\n",
      "        if (val := self._ufunc_attrs.get(uname)) is None:\n"
      "            val = self._ufunc_attrs[uname] = ufunc(self.__array__())\n"
      )),
    ("H5ScalarEvent summaries through _summary() and a module-level table",
     EV, _summary_table_helper),
    ("forwarding list hoisted into a module-level tuple", FB,
     _forwarding_tuple),
    ("BasinProxyFeature summaries over its own mapped array", FB,
     _proxy_summaries_own_array),
    ("BasinProxyFeature summaries over feat_obj[:][basinmap]", FB,
     _proxy_summaries),
    ("stored extremum found by membership test", WR,
     ("                if val_a is not None:\n",
      "                if uname in dset.attrs:\n")),
    # round 5
    ("apply_filter works on a local alias of self._events", HB,
     _refresh_with_aliases),
    ("_fetch_ufunc_attr delegates to a module-level helper", EV,
     _fetch_in_module_helper),
    # round 6
    ("summary methods of H5ScalarEvent moved into a mixin", EV,
     _summaries_in_mixin),
    ("summary cache wrapped in a private cache object", EV,
     _summary_cache_object),
    # round 7
    ("stored extremum read by subscript behind a membership test", WR,
     ("val_a = dset.attrs.get(uname, None)",
      "val_a = dset.attrs[uname] if uname in dset.attrs else None")),
]

# mutants that re-introduce the repaired defects (apply to the fixed tree)
MUTANTS = list(MUTANTS) + list(MUTANTS_AFTER_FIX) + list(
    MUTANTS_AFTER_FIX_F20B)
