"""C09 – split partitions and join concatenates events without loss or
reordering.

R9.1 (syntactic, dclab/cli): no container is mutated (remove / pop / insert /
     append / extend / clear / del / +=) inside a ``for`` that iterates a live
     view of that same container, unless the loop is left right after the
     mutation.  A pruning loop has to iterate a copy.
R9.2 split: ``split()`` is evaluated symbolically (sa/lib_C02.py) on model
     datasets for event counts and split sizes that divide / do not divide /
     exceed N and with empty boundary images: the masks handed to the
     exporter partition the events in order, no part exceeds the requested
     size, there are ceil(N/S) parts written with ``filtered=True`` after the
     filter was applied, named in order and renamed pairwise.
R9.3 join: ``join()`` is evaluated on 2-3 model inputs: the common features
     are the first input's innate features available in every input; time,
     frame and index_online are made continuous by the acquisition offsets;
     every other feature is passed through input by input; the logs, tables
     and configuration of every source are stored under distinct names.
R9.4 join order: inputs are processed in chronological order of (date, time)
     for any given order, including start times with and without fractional
     seconds ('HH:MM:SS[.S]'); equal keys keep the given order; offsets are
     relative to the earliest input.
R9.5 acquisition start of .tdms inputs (join orders its inputs and computes
     its offsets from experiment date / time; .tdms files do not store
     them): the reader derives the start as the file's modification time
     minus the time of the last event (event times count from the start of
     the acquisition) – compared as an exact rational function – and date
     and time are formatted from that one instant.
"""
from __future__ import annotations

import ast
import math
import time as _time

from ..absval import Poly, Rat, ratfun
from ..cfg import CFG
from ..core import AnalysisError, dotted, enclosing_stmt, short, txt, walk
from ..lib_C02 import (Arr, Ev, Feat, Mini, MiniError, ModelFault, NS, Opaque,
                       ModuleNS, bind_like,
                       numpy_model)

ASSUMPTIONS = [
    "NOT decided: numeric continuity beyond the offset arithmetic (float "
    "rounding), time zones / DST in time.mktime, the writer's re-enumeration "
    "of `index` (R1.4), the exporter itself (C02), atomic renames (C10).",
    "Small scope: split with N in 1..10 events and sizes 1..10; join with 2-3 "
    "inputs of 3 events; features are uninterpreted except time / frame / "
    "index_online, which carry concrete numbers.",
]

JOIN = "dclab/cli/task_join.py"
SPLIT = "dclab/cli/task_split.py"
COMMON = "dclab/cli/common.py"
CLI = "dclab/cli/"

# ----------------------------------------------------------------------
# R9.1

MUTATORS = {"remove", "pop", "insert", "append", "extend", "clear",
            "popitem", "discard", "add", "sort", "reverse"}
VIEW_CALLS = {"enumerate", "reversed", "zip", "iter"}
VIEW_METHODS = {"keys", "values", "items"}
COPY_CALLS = {"list", "tuple", "sorted", "set", "frozenset", "dict"}


def live_views(e):
    """dotted names of the containers `e` iterates *live*"""
    d = dotted(e)
    if d is not None:
        return {d}
    if isinstance(e, ast.Call):
        if isinstance(e.func, ast.Name) and e.func.id in VIEW_CALLS:
            out = set()
            for a in e.args:
                out |= live_views(a)
            return out
        if isinstance(e.func, ast.Attribute) and e.func.attr in VIEW_METHODS \
                and not e.args:
            return live_views(e.func.value)
    return set()


def copied(e):
    """dotted names of containers `e` iterates through a copy"""
    if isinstance(e, ast.Call):
        if isinstance(e.func, ast.Name) and e.func.id in COPY_CALLS \
                and e.args:
            return live_views(e.args[0]) | copied(e.args[0])
        if isinstance(e.func, ast.Attribute) and e.func.attr == "copy":
            return live_views(e.func.value)
    if isinstance(e, ast.Subscript) and isinstance(e.slice, ast.Slice):
        return live_views(e.value)
    return set()


def mutations(body_nodes):
    """(container dotted name, node) for every mutation in the statements"""
    out = []
    for st in body_nodes:
        for n in walk(st):
            if isinstance(n, ast.Call) and isinstance(
                    n.func, ast.Attribute) and n.func.attr in MUTATORS:
                d = dotted(n.func.value)
                if d:
                    out.append((d, n))
            elif isinstance(n, ast.Delete):
                for t in n.targets:
                    if isinstance(t, ast.Subscript) and dotted(t.value):
                        out.append((dotted(t.value), n))
            elif isinstance(n, ast.AugAssign) and dotted(n.target):
                out.append((dotted(n.target), n))
    return out


def r91(ctx, repo):
    n_loops = 0
    for rel in repo.files(CLI):
        for q, f in repo.all_functions(rel):
            cfg = None
            for lp in [n for n in walk(f) if isinstance(n, ast.For)]:
                n_loops += 1
                live = live_views(lp.iter)
                cop = copied(lp.iter)
                # a local that is bound once to another container (plain
                # alias, no copy) is a live view of that container
                for nm in list(live):
                    defs = [n for n in walk(f) if isinstance(n, ast.Assign)
                            and any(isinstance(t, ast.Name) and t.id == nm
                                    for t in n.targets)]
                    if len(defs) == 1:
                        live |= live_views(defs[0].value)
                        cop |= copied(defs[0].value)
                seen_other = set()
                for d, m in mutations(lp.body):
                    if d in live | cop or d in seen_other:
                        continue
                    # a container changed inside a loop over something
                    # that is not a view of it (e.g. over a list built by
                    # a comprehension)
                    seen_other.add(d)
                    ctx.ob("R9.1", True,
                           f"`{d}` is changed inside a loop over "
                           f"`{short(lp.iter, 40)}`, which is not a view "
                           f"of it", node=lp,
                           label=f"`{d}` changed in a loop over "
                                 f"{short(lp.iter, 30)}", nontrivial=False)
                if not (live | cop):
                    continue
                muts = [(d, n) for d, n in mutations(lp.body)
                        if d in live | cop]
                for d, m in muts:
                    lab = (f"for {short(lp.target, 20)} in "
                           f"{short(lp.iter, 40)}: {short(m, 40)}")
                    if d in cop and d not in live:
                        ctx.ob("R9.1", True,
                               f"`{d}` is pruned while a copy of it is "
                               f"iterated", node=lp, label=f"no mutation of "
                               f"the iterated container `{d}`")
                        continue
                    if cfg is None:
                        cfg = CFG(f)
                    heads = set(cfg.ids_of(lp))
                    st = enclosing_stmt(m)
                    again = False
                    for sid in cfg.ids_of(st):
                        if cfg.reach([sid]) & heads:
                            again = True
                    ctx.ob("R9.1", not again,
                           f"`{short(m, 50)}` is followed by leaving the "
                           f"loop" if not again else
                           f"`{short(m, 50)}` changes `{d}` while "
                           f"`for {txt(lp.target)} in {short(lp.iter, 40)}` "
                           f"iterates it: the element after a removed one is "
                           f"skipped (iterate a copy)", node=lp,
                           label=f"no mutation of the iterated container "
                                 f"`{d}`")
    ctx.stat("R9.1 for-loops scanned in dclab/cli", n_loops)
    if ctx.tier == "thorough":
        other = []
        for rel in repo.files("dclab/"):
            if rel.startswith(CLI):
                continue
            for q, f in repo.all_functions(rel):
                for lp in [n for n in walk(f) if isinstance(n, ast.For)]:
                    live = live_views(lp.iter)
                    for d, m in mutations(lp.body):
                        if d in live:
                            other.append(f"{rel}::{q}: {short(m, 50)} inside "
                                         f"for … in {short(lp.iter, 40)}")
        ctx.note("same pattern outside the scope of C09 (not judged here): "
                 + ("; ".join(other) if other else "none"))


# ----------------------------------------------------------------------
# models shared by split and join

def _f32(x):
    """x rounded to the single-precision grid"""
    import struct
    return struct.unpack("f", struct.pack("f", x))[0]


class F64(float):
    """numpy float64 scalar: a *strong* operand of the promotion rules
    (NEP 50) – an array of lower precision combined with it is promoted;
    a python float is weak and leaves the precision of the array"""

    def __add__(self, o):
        r = float.__add__(self, o)
        return r if r is NotImplemented else F64(r)

    __radd__ = __add__

    def __sub__(self, o):
        r = float.__sub__(self, o)
        return r if r is NotImplemented else F64(r)

    def __rsub__(self, o):
        r = float.__rsub__(self, o)
        return r if r is NotImplemented else F64(r)

    def __mul__(self, o):
        r = float.__mul__(self, o)
        return r if r is NotImplemented else F64(r)

    __rmul__ = __mul__


class NumArr(Arr):
    """array of concrete numbers; fdt = precision of its floating-point
    items ("f8" double, "f4" single)"""

    def __init__(self, items=(), fdt="f8"):
        super().__init__(items, "num")
        self.kind = "num"
        self.fdt = fdt
        if fdt == "f4":
            self.v = [_f32(x) if isinstance(x, float) else x
                      for x in self.v]

    def _bin(self, o, op):
        if isinstance(o, Arr):
            if len(o) != len(self):
                raise ModelFault("operands could not be broadcast together")
            fdt = "f8" if "f8" in (self.fdt, getattr(o, "fdt", "f8")) \
                else "f4"
            return NumArr([op(a, b) for a, b in zip(self.v, o.v)], fdt)
        if isinstance(o, (int, float)):
            # a numpy scalar promotes, a python scalar does not
            fdt = "f8" if isinstance(o, F64) else self.fdt
            return NumArr([op(a, o) for a in self.v], fdt)
        return NotImplemented

    def __add__(self, o):
        return self._bin(o, lambda a, b: a + b)

    __radd__ = __add__

    def __sub__(self, o):
        return self._bin(o, lambda a, b: a - b)

    def __mul__(self, o):
        return self._bin(o, lambda a, b: a * b)

    __rmul__ = __mul__

    def __getitem__(self, k):
        r = super().__getitem__(k)
        if isinstance(r, Arr):
            return NumArr(r.v, self.fdt)
        if type(r) is float and self.fdt == "f8":
            return F64(r)
        return r

    def __iter__(self):
        return iter([F64(x) if type(x) is float and self.fdt == "f8" else x
                     for x in self.v])

    def copy(self):
        return NumArr(self.v, self.fdt)


class Config(dict):
    def __init__(self, d, label):
        super().__init__(d)
        self.label = label

    def tostring(self, sections=None):
        return f"cfg of {self.label}"

    def as_dict(self):
        return dict(self)


class Warnings:
    """warnings module with recording contexts"""

    def __init__(self):
        self.stack = []
        self.all = []

    def catch_warnings(self, record=False):
        me = self

        class CM:
            def __enter__(self_):
                lst = []
                me.stack.append(lst)
                return lst if record else None

            def __exit__(self_, *a):
                me.stack.pop()
        return CM()

    def simplefilter(self, *a, **k):
        pass

    def warn(self, message, category=UserWarning, *a, **k):
        rec = NS("warning", message=message, category=category, lineno=0)
        self.all.append(rec)
        if self.stack:
            self.stack[-1].append(rec)


class PathM:
    def __init__(self, name, fs):
        self._name = str(name)
        self.fs = fs

    @property
    def stem(self):
        return self._name.rsplit("/", 1)[-1].rsplit(".", 1)[0]

    @property
    def name(self):
        return self._name.rsplit("/", 1)[-1]

    @property
    def suffix(self):
        n = self.name
        return "." + n.rsplit(".", 1)[1] if "." in n else ""

    @property
    def parent(self):
        return PathM(self._name.rsplit("/", 1)[0] if "/" in self._name
                     else ".", self.fs)

    def __truediv__(self, o):
        return PathM(self._name + "/" + str(o), self.fs)

    def with_suffix(self, s):
        base = self._name.rsplit(".", 1)[0] if "." in self.name \
            else self._name
        return PathM(base + s, self.fs)

    def with_name(self, n):
        return self.parent / n

    def resolve(self):
        return self

    def exists(self):
        return self._name in self.fs.files

    def open(self, mode="r", **k):
        if any(c in mode for c in "wax+"):
            if "w" in mode:
                self.fs.files[self._name] = FileState()
            else:
                self.fs.get(self._name)     # created when missing
        elif self._name not in self.fs.files:
            raise ModelFault(f"open('{self._name}'): no such file")
        me = self

        class CM:
            def __enter__(s):
                return NS("file", write=lambda *a: None,
                          read=lambda *a: "", close=lambda: None)

            def __exit__(s, *a):
                pass
        return CM()

    def touch(self, *a, **k):
        self.fs.get(self._name)

    def unlink(self, missing_ok=False):
        if self._name not in self.fs.files and not missing_ok:
            raise ModelFault(f"unlink of '{self._name}', which does not "
                             f"exist")
        self.fs.files.pop(self._name, None)

    def rename(self, other):
        if self._name not in self.fs.files:
            raise ModelFault(f"rename of '{self._name}' which was never "
                             f"written")
        self.fs.files[str(other)] = self.fs.files.pop(self._name)
        self.fs.renames.append((self._name, str(other)))

    def __str__(self):
        return self._name

    def __repr__(self):
        return f"Path({self._name})"

    def __eq__(self, o):
        return isinstance(o, PathM) and o._name == self._name

    def __hash__(self):
        return hash(self._name)

    def __lt__(self, o):
        return self._name < o._name


class FileState:
    summaries_fresh = staticmethod(lambda: True)

    def __init__(self):
        self.used_attrs = []
        self.at_open = {}
        self.events = {}
        self.logs = []
        self.tables = []
        self.meta = []
        self.exports = []


class FS:
    def __init__(self):
        self.files = {}
        self.renames = []

    def get(self, path):
        return self.files.setdefault(str(path), FileState())


def writer_refreshes_summaries(repo):
    """RTDCWriter.write_ndarray keeps the min / max / mean attributes of a
    scalar dataset up to date on *every* append (no return between the
    store of the data and the assignment of the attributes)"""
    f = repo.func("dclab/rtdc_dataset/writer.py", "RTDCWriter.write_ndarray")
    stores = [n for n in walk(f) if isinstance(n, ast.Assign) and isinstance(
        n.targets[0], ast.Subscript) and isinstance(
        n.targets[0].value, ast.Name) and isinstance(
        n.targets[0].slice, ast.Slice)]
    attrs = [n for n in walk(f) if isinstance(n, ast.Assign) and isinstance(
        n.targets[0], ast.Subscript) and isinstance(
        n.targets[0].value, ast.Attribute)
        and n.targets[0].value.attr == "attrs"]
    if not stores or not attrs:
        raise AnalysisError("RTDCWriter.write_ndarray: data store / summary "
                            "attributes not recognised (needed because join "
                            "reads a summary attribute)")
    first_store = min(s.lineno for s in stores)
    last_attr_ = max(a.lineno for a in attrs)
    rets = [n for n in walk(f) if isinstance(n, ast.Return)
            and first_store < n.lineno < last_attr_]
    return not rets


class AttrsM:
    """summary attributes (min / max / mean) of a stored dataset"""

    def __init__(self, st, feat, values):
        self.st, self.feat, self.values = st, feat, values

    def _value(self, key):
        fresh = self.st.summaries_fresh()
        vals = self.values if fresh else self.st.at_open.get(self.feat, [])
        self.st.used_attrs.append((self.feat, key, fresh))
        if not vals:
            raise KeyError(key)
        if key == "max":
            return max(vals)
        if key == "min":
            return min(vals)
        if key == "mean":
            return sum(vals) / len(vals)
        raise KeyError(key)

    def __getitem__(self, key):
        return self._value(key)

    def get(self, key, default=None):
        try:
            return self._value(key)
        except KeyError:
            return default

    def __contains__(self, key):
        return key in ("min", "max", "mean")


class StoredArr(NumArr):
    def __getitem__(self, k):
        r = NumArr.__getitem__(self, k)
        return r


class H5M:
    def __init__(self, st):
        self.st = st

    def _feat(self, key):
        if not key.startswith("events/"):
            raise MiniError(f"h5file model asked for '{key}'")
        return key.split("/", 1)[1]

    def __contains__(self, key):
        return self._feat(key) in self.st.events

    def __getitem__(self, key):
        f = self._feat(key)
        if f not in self.st.events:
            raise KeyError(key)
        flat = []
        for piece in self.st.events[f]:
            if not isinstance(piece, NumArr):
                raise MiniError(f"stored '{f}' is not numeric in the model")
            flat += piece.v
        arr = StoredArr(flat)
        arr.attrs = AttrsM(self.st, f, flat)
        return arr


class HWM:
    def __init__(self, st):
        self.st = st
        # summary attributes as they are when the file is opened
        st.at_open = {}
        for f, pieces in st.events.items():
            if all(isinstance(p, NumArr) for p in pieces):
                st.at_open[f] = [v for p in pieces for v in p.v]
        self.h5file = H5M(st)
        self.mode = "append"
        self.path = "temp"

    def __enter__(self):
        return self

    def __exit__(self, *a):
        pass

    def store_feature(self, feat, data, shape=None):
        self.st.events.setdefault(feat, []).append(data)

    def store_log(self, name, lines):
        self.st.logs.append((name, lines))

    def store_table(self, name, cmp_array):
        self.st.tables.append((name, cmp_array))

    def store_metadata(self, meta):
        self.st.meta.append(meta)


def cli_globals(repo, rel, fs, wmod, datasets, extra=None):
    g = {
        "np": numpy_model(zeros=lambda n, dtype=None: NumArr([0.0] * n),
                          float64=F64, uint64=_uint64,
                          array=_np_array_num),
        "warnings": wmod,
        "hdf5plugin": NS("hdf5plugin", Zstd=lambda **k: Opaque("zstd")),
        "pathlib": NS("pathlib", Path=lambda p: p if isinstance(
            p, PathM) else PathM(p, fs)),
        "time": NS("time", strptime=_time.strptime, mktime=_time.mktime),
        "dfn": NS("dfn", CFG_METADATA=["experiment", "imaging", "setup"]),
        "version": "1.2.3",
        # stand-ins bind their arguments through the real signatures
        "RTDCWriter": bind_like(
            repo.func("dclab/rtdc_dataset/writer.py", "RTDCWriter.__init__"),
            lambda path_or_h5file, **k: HWM(fs.get(path_or_h5file)),
            method=True),
        "new_dataset": bind_like(
            repo.func("dclab/rtdc_dataset/load.py", "new_dataset"),
            lambda data, **k: _lookup(datasets, data)),
        "fmt_tdms": NS("fmt_tdms", NPTDMS_AVAILABLE=False),
        # moving a file = renaming it (C10 judges the protocol)
        "shutil": NS("shutil", move=lambda src, dst, **k: _as_path(
            src, fs).rename(_as_path(dst, fs))),
        "os": NS("os", rename=lambda src, dst, **k: _as_path(
            src, fs).rename(_as_path(dst, fs)),
            replace=lambda src, dst, **k: _as_path(
                src, fs).rename(_as_path(dst, fs)),
            fspath=lambda p: str(p)),
        "print": lambda *a, **k: None,
        "FeatureSetNotIdenticalJoinWarning": UserWarning,
    }
    mini = Mini(g)
    mini.bind_module(repo.tree(rel))
    if extra:
        mini.g.update(extra)
    return mini


def _as_path(p, fs):
    return p if isinstance(p, PathM) else PathM(str(p), fs)


def _lookup(datasets, p):
    key = str(p)
    if key not in datasets:
        raise ModelFault(f"new_dataset('{key}'): no such input in the model")
    return datasets[key]


def _uint64(x):
    if x < 0:
        raise ModelFault(f"Python integer {x} out of bounds for uint64 "
                         f"(negative offset)")
    return int(x)


def _np_array_num(a, dtype=None, copy=True):
    if isinstance(a, NumArr):
        return a.copy()
    if isinstance(a, (list, tuple)) and all(
            isinstance(x, (int, float)) and not isinstance(x, bool)
            for x in a):
        return NumArr([float(x) if dtype in ("float64", float, F64) else x
                       for x in a])
    raise MiniError("np.array of a non-numeric model value in a CLI task")


# ----------------------------------------------------------------------
# R9.2 split

class ImgEv:
    def __init__(self, empty):
        self.empty = empty

    def __eq__(self, o):
        if o == 0:
            return self.empty
        return NotImplemented

    def __hash__(self):
        return id(self)


class ImgFeat:
    def __init__(self, n, empty):
        self.n = n
        self.empty = empty

    def __len__(self):
        return self.n

    def __getitem__(self, i):
        if not isinstance(i, int):
            raise MiniError("image model indexed with a non-integer")
        if not -self.n <= i < self.n:
            raise ModelFault(f"image index {i} out of range")
        return ImgEv((i % self.n) in self.empty)


class DSS:
    """dataset under split"""

    def __init__(self, n, empty, fs, with_image=True):
        self.n = n
        self.format = "hdf5"
        self.fs = fs
        self.manual = Arr([True] * n, "bool")
        self.filter = NS("filter", manual=self.manual,
                         all=Arr([True] * n, "bool"))
        self.config = Config({"experiment": {"sample": "smp"}}, "in")
        self.features_innate = ["deform", "image"] if with_image else [
            "deform"]
        self.img = ImgFeat(n, empty)
        self.applied = 0
        self.export = NS("export", hdf5=self._export)

    def __enter__(self):
        return self

    def __exit__(self, *a):
        pass

    def __len__(self):
        return self.n

    def __contains__(self, f):
        return f in self.features_innate

    def __getitem__(self, f):
        if f == "image" and "image" in self.features_innate:
            return self.img
        raise KeyError(f)

    def apply_filter(self, force=None):
        self.applied += 1
        self.filter.__dict__["all"] = Arr(list(self.manual.v), "bool")

    def _export(self, path, features=None, filtered=True, **kw):
        st = self.fs.get(path)
        st.exports.append(dict(path=str(path), filtered=filtered,
                               mask=list(self.filter.all.v),
                               features=features, kw=kw))


def run_split(repo, n, size, empty=(), skip_i=True, skip_f=True):
    fs = FS()
    wmod = Warnings()
    ds = DSS(n, set(empty), fs)
    datasets = {"dir/in.rtdc": ds}
    # `common`: the stand-ins below, everything else (helpers, constants)
    # by its definition in the parsed cli/common.py
    cmini = cli_globals(repo, COMMON, fs, wmod, datasets)
    common = ModuleNS(cmini, dict(
        get_command_log=bind_like(
            repo.func(COMMON, "get_command_log"),
            lambda paths, **k: ["cmd"]),
        assemble_warnings=bind_like(
            repo.func(COMMON, "assemble_warnings"),
            lambda w: ["w"])), "dclab.cli.common")
    repo.func(COMMON, "skip_empty_image_events")
    mini = cli_globals(repo, SPLIT, fs, wmod, datasets, {"common": common})
    f = repo.func(SPLIT, "split")
    out = mini.call(f, (), dict(path_in=PathM("dir/in.rtdc", fs),
                                path_out=PathM("outdir", fs),
                                split_events=size,
                                skip_initial_empty_image=skip_i,
                                skip_final_empty_image=skip_f,
                                ret_out_paths=True))
    return fs, ds, out


def r92(ctx, repo):
    f = repo.func(SPLIT, "split")
    bad = {"partition": None, "size": None, "count": None, "filtered": None,
           "names": None, "boundary": None, "inner": None}
    n_eval = 0
    cases = []
    for n, s in ((10, 5), (10, 3), (7, 1), (3, 10), (6, 6), (1, 1), (9, 4),
                 (10, 10), (5, 2)):
        cases.append((n, s, (), True, True))
    cases += [(7, 3, (0,), True, True), (7, 3, (6,), True, True),
              (6, 3, (0, 5), True, True), (7, 3, (0, 6), False, False),
              (6, 2, (0,), True, False), (6, 2, (5,), False, True)]
    # all-zero images at the inner part boundaries (last event of a part,
    # first event of the next one): only the dataset's own first / last
    # event may be skipped, the helper runs once per part window
    cases += [(9, 3, (2,), True, True), (9, 3, (3,), True, True),
              (9, 3, (5, 6), True, True), (10, 4, (3, 4, 7), True, True),
              (9, 3, (2, 8), True, True), (9, 3, (0, 3), True, True),
              (8, 4, (3,), False, True), (8, 4, (4,), True, False),
              (6, 1, (2, 3), True, True)]
    for n, s, empty, si, sf in cases:
        n_eval += 1
        tag = f"N={n}, split size {s}" + (
            f", empty images at {list(empty)} (skip initial={si}, "
            f"final={sf})" if empty else "")
        try:
            fs, ds, out = run_split(repo, n, s, empty, si, sf)
        except ModelFault as e:
            for k in bad:
                bad[k] = bad[k] or f"{tag}: {e}"
            continue
        exports = []
        for name, st in fs.files.items():
            exports += st.exports
        # final files, in name order
        finals = sorted(fs.files)
        parts = []
        for name in finals:
            st = fs.files[name]
            if len(st.exports) != 1:
                bad["names"] = bad["names"] or (
                    f"{tag}: file {name} was exported {len(st.exports)} "
                    f"times")
                continue
            parts.append(st.exports[0])
        skipped = set()
        if si and 0 in empty:
            skipped.add(0)
        if sf and (n - 1) in empty:
            skipped.add(n - 1)
        want = [i for i in range(n) if i not in skipped]
        got = []
        for p in parts:
            sel = [i for i, b in enumerate(p["mask"]) if b]
            if got and sel and sel[0] <= got[-1]:
                bad["partition"] = bad["partition"] or (
                    f"{tag}: part {p['path']} starts at event {sel[0]} but "
                    f"event {got[-1]} is already in an earlier part")
            if len(sel) > s:
                bad["size"] = bad["size"] or (
                    f"{tag}: part {p['path']} holds {len(sel)} events")
            got += sel
            if p["filtered"] is not True:
                bad["filtered"] = bad["filtered"] or (
                    f"{tag}: part exported with filtered={p['filtered']}")
        if got != want:
            inner = [i for i in empty if 0 < i < n - 1]
            key = "inner" if inner else ("boundary" if empty
                                         else "partition")
            bad[key] = bad[key] or (
                f"{tag}: the parts hold events {got}, expected {want}")
        if len(parts) != math.ceil(n / s):
            bad["count"] = bad["count"] or (
                f"{tag}: {len(parts)} parts, expected {math.ceil(n / s)}")
        # names in order, pairwise renames, returned list
        stems = [x.rsplit("/", 1)[-1] for x in finals]
        want_names = [f"in_{k + 1:04d}.rtdc" for k in range(len(parts))]
        ren_ok = all(a.rsplit(".", 1)[0] == b.rsplit(".", 1)[0]
                     for a, b in fs.renames)
        if stems != want_names or not ren_ok or [
                str(p) for p in (out or [])] != finals:
            bad["names"] = bad["names"] or (
                f"{tag}: output files {stems} (renames {fs.renames}), "
                f"expected {want_names}")
        for name in finals:
            st = fs.files[name]
            if not any(n_ == "dclab-split" for n_, _ in st.logs):
                bad["names"] = bad["names"] or (
                    f"{tag}: {name} carries no split log")
    texts = {
        "partition": "the parts hold every event exactly once and in order",
        "size": "no part holds more than the requested number of events",
        "count": "there are ceil(N / size) parts",
        "filtered": "every part is exported with filtered=True from the "
                    "applied filter",
        "names": "parts are numbered in event order, each temp file is "
                 "renamed to its own final name and carries the split log",
        "boundary": "empty boundary images are skipped exactly when "
                    "requested, nothing else is lost",
        "inner": "an all-zero image inside the dataset (also on the last / "
                 "first event of a part) is never dropped",
    }
    for k in ("partition", "size", "count", "filtered", "names", "boundary",
              "inner"):
        ctx.ob("R9.2", bad[k] is None, texts[k] if bad[k] is None else bad[k],
               node=f, label=f"split {k}")
    ctx.stat("R9.2 split evaluations", n_eval)


# ----------------------------------------------------------------------
# R9.3 / R9.4 join

class DSJ:
    """one input of join"""

    def __init__(self, name, date, tm, run, innate, anc, fs, fr=2000.,
                 n=3, ido=None, with_ts=False, time_f4=False):
        self.name = name
        self.fs = fs
        self.n = n
        self.date, self.tm, self.run = date, tm, run
        self.fr = fr
        self.features_innate = list(innate)
        self.features = sorted(set(innate) | set(anc))
        self.config = Config(
            {"experiment": {"date": date, "time": tm, "run index": run},
             "imaging": {"frame rate": fr}}, name)
        self.logs = {"log": [f"log of {name}"], "sh-warnings": [f"w {name}"]}
        self.tables = {"tab": Opaque(f"table of {name}")}
        if with_ts:
            # unix time of the acquisition start (with its fraction)
            self.config["experiment"]["timestamp"] = self.stamp()
        self.num = {
            # time_f4: 'time' stored in single precision (files without
            # 'frame', whose time is not recomputed); values off the
            # float32 grid of large numbers
            "time": NumArr([0.5 * i + 0.001 for i in range(n)], "f4")
            if time_f4 else NumArr([0.5 * i for i in range(n)]),
            "frame": NumArr([1000 * i + 7 for i in range(n)]),
            "index_online": NumArr(ido or [2 * i for i in range(n)]),
        }
        self.export = NS("export", hdf5=self._export)

    def stamp(self):
        st = _time.strptime(self.date + self.tm[:8], "%Y-%m-%d%H:%M:%S")
        t = _time.mktime(st)
        if len(self.tm) > 8:
            t += float(self.tm[8:])
        return t

    def __enter__(self):
        return self

    def __exit__(self, *a):
        pass

    def __len__(self):
        return self.n

    def __contains__(self, f):
        return f in self.features

    def __getitem__(self, f):
        if f not in self.features:
            raise KeyError(f"Feature '{f}' does not exist in {self.name}")
        if f in self.num:
            return self.num[f].copy()
        return Feat(f"{self.name}:{f}", self.n)

    def _export(self, path, features=None, filtered=True, logs=False,
                tables=False, meta_prefix="src_", **kw):
        st = self.fs.get(path)
        st.exports.append(dict(ds=self.name, features=list(features or []),
                               filtered=filtered, logs=logs, tables=tables,
                               prefix=meta_prefix))
        for f in sorted(set(features if features is not None
                            else self.features_innate)):
            st.events.setdefault(f, []).append(self[f])
        if logs:
            for k, v in self.logs.items():
                st.logs.append((meta_prefix + k, v))
        if tables:
            for k, v in self.tables.items():
                st.tables.append((meta_prefix + k, v))


def run_join(repo, specs, order):
    """specs: {name: kwargs of DSJ}; order: names as given by the caller"""
    fs = FS()
    FileState.summaries_fresh = staticmethod(
        lambda: _summaries_fresh(repo))
    wmod = Warnings()
    datasets = {}
    for name, kw in specs.items():
        datasets[f"{name}.rtdc"] = DSJ(name, fs=fs, **kw)
    out = PathM("out.rtdc", fs)
    temp = PathM("out.rtdc~", fs)

    cmini = cli_globals(repo, COMMON, fs, wmod, datasets)
    real_setup = repo.func(COMMON, "setup_task_paths")

    def setup_task_paths(paths_in, paths_out, allowed_input_suffixes=None):
        vals = ([PathM(str(p), fs) for p in paths_in], out, temp)
        # the result has the form the real function returns: a plain
        # tuple or a record (named tuple) of (inputs, outputs, temps)
        rets = [n for n in walk(real_setup) if isinstance(n, ast.Return)]
        if len(rets) == 1 and isinstance(rets[0].value, ast.Call) \
                and isinstance(rets[0].value.func, ast.Name):
            rec = cmini.g.get(rets[0].value.func.id)
            fields = getattr(rec, "_fields", None)
            if fields is None or len(fields) != 3 or not (
                    "in" in fields[0] and "out" in fields[1]
                    and "temp" in fields[2]):
                raise MiniError("setup_task_paths: form of the returned "
                                "record not recognised")
            return rec(*vals)
        return vals
    common = ModuleNS(cmini, dict(
        setup_task_paths=bind_like(real_setup, setup_task_paths),
        get_command_log=bind_like(
            repo.func(COMMON, "get_command_log"),
            lambda paths, **k: [str(p) for p in paths]),
        assemble_warnings=bind_like(
            repo.func(COMMON, "assemble_warnings"),
            lambda w: [str(x.message) for x in w])), "dclab.cli.common")
    mini = cli_globals(repo, JOIN, fs, wmod, datasets, {"common": common})
    f = repo.func(JOIN, "join")
    mini.call(f, (), dict(paths_in=[f"{n}.rtdc" for n in order],
                          path_out="out.rtdc"))
    if "out.rtdc" not in fs.files:
        raise ModelFault("no file at the output path after join")
    return fs.files["out.rtdc"], datasets, wmod


_FRESH = {}


def _summaries_fresh(repo):
    key = id(repo)
    if key not in _FRESH:
        _FRESH[key] = writer_refreshes_summaries(repo)
    return _FRESH[key]


def chrono(datasets, order):
    ds = [datasets[f"{n}.rtdc"] for n in order]
    return sorted(ds, key=lambda d: d.stamp())   # stable


def expected_join(datasets, order):
    ds = chrono(datasets, order)
    first = ds[0]
    common = sorted(f for f in first.features_innate
                    if all(f in d.features for d in ds[1:]))
    exp = {}
    t0 = first.stamp()
    last_ido = None
    for d in ds:
        off = d.stamp() - t0
        for f in common:
            if f == "time":
                piece = [v + off for v in d.num["time"].v]
            elif f == "frame":
                piece = [v + round(off * d.fr) for v in d.num["frame"].v]
            elif f == "index_online":
                base = 0 if last_ido is None else last_ido + 1
                piece = [v + base for v in d.num["index_online"].v]
                last_ido = piece[-1]
            else:
                piece = [Ev(f"{d.name}:{f}", i) for i in range(d.n)]
            exp.setdefault(f, []).append(piece)
    return ds, common, exp


def flat_piece(p):
    if isinstance(p, NumArr):
        return list(p.v)
    if isinstance(p, Feat):
        return p.all_events()
    if isinstance(p, Arr):
        return list(p.v)
    raise MiniError(f"join stored a {type(p).__name__} in the model")


def same(a, b):
    if len(a) != len(b):
        return False
    for x, y in zip(a, b):
        if isinstance(x, (int, float)) and isinstance(y, (int, float)):
            if abs(x - y) > 1e-6:
                return False
        elif x != y:
            return False
    return True


def judge_join(st, datasets, order, which):
    """-> None or message; `which` selects the clause"""
    ds, common, exp = expected_join(datasets, order)
    names = [d.name for d in ds]
    if which == "order":
        got = []
        probe = [f for f in common
                 if f not in ("time", "frame", "index_online")]
        if not probe:
            raise AnalysisError("join model: no pass-through feature")
        for piece in st.events.get(probe[0], []):
            evs = flat_piece(piece)
            got.append(evs[0].feat.split(":")[0] if evs and isinstance(
                evs[0], Ev) else "?")
        if got != names:
            return (f"inputs given as {order} are concatenated in the order "
                    f"{got}, chronological order is {names}")
        if st.exports and st.exports[0]["ds"] != names[0]:
            return (f"the metadata come from {st.exports[0]['ds']}, the "
                    f"earliest input is {names[0]}")
        return None
    if which == "features":
        got = sorted(st.events)
        if got != common:
            return (f"joined features {got}, features available in every "
                    f"input: {common}")
        for f in common:
            if len(st.events[f]) != len(ds):
                return (f"feature '{f}' was stored {len(st.events[f])} "
                        f"times for {len(ds)} inputs")
        if not st.exports or st.exports[0]["filtered"] is not False:
            return "the first input is not exported with filtered=False"
        return None
    if which in ("time", "frame", "index_online", "pass-through"):
        feats = [which] if which != "pass-through" else [
            f for f in common if f not in ("time", "frame", "index_online")]
        for f in feats:
            if f not in st.events:
                return f"feature '{f}' missing from the joined file"
            got = [flat_piece(p) for p in st.events[f]]
            want = exp[f]
            for k, (g, w) in enumerate(zip(got, want)):
                if not same(g, w):
                    return (f"'{f}' of input #{k + 1} ({names[k]}): stored "
                            f"{g}, expected {w}")
            if len(got) != len(want):
                return f"'{f}' stored {len(got)} times"
        return None
    if which == "logs":
        lognames = [n for n, _ in st.logs]
        dup = sorted({n for n in lognames if lognames.count(n) > 1})
        if dup:
            return f"log names {dup} are written more than once"
        for d in ds:
            for k, lines in d.logs.items():
                hits = [n for n, v in st.logs if v is lines]
                if len(hits) != 1:
                    return (f"log '{k}' of input {d.name} is stored "
                            f"{len(hits)} times")
            cfg = [n for n, v in st.logs
                   if v == [f"cfg of {d.name}"]]
            if len(cfg) != 1:
                return (f"the configuration of input {d.name} is stored "
                        f"{len(cfg)} times")
            for k, tab in d.tables.items():
                hits = [n for n, v in st.tables if v is tab]
                if len(hits) != 1:
                    return (f"table '{k}' of input {d.name} is stored "
                            f"{len(hits)} times")
        tn = [n for n, _ in st.tables]
        if len(set(tn)) != len(tn):
            return f"table names {tn} collide"
        if not any(n == "dclab-join" for n in lognames):
            return "the join log is missing"
        return None
    raise AnalysisError(which)


BASE = ["area_um", "deform", "frame", "index_online", "time"]


def spec(date="2020-01-01", tm="12:00:00", run=1, innate=None, anc=(),
         fr=2000., ido=None, with_ts=False, time_f4=False):
    return dict(date=date, tm=tm, run=run,
                innate=list(innate if innate is not None else BASE),
                anc=list(anc), fr=fr, ido=ido, with_ts=with_ts,
                time_f4=time_f4)


def r93_r94(ctx, repo):
    f = repo.func(JOIN, "join")
    n_eval = [0]

    def case(specs, order, clauses):
        """-> {clause: message or None}"""
        n_eval[0] += 1
        try:
            st, datasets, wmod = run_join(repo, specs, order)
        except ModelFault as e:
            return {c: f"inputs {order}: {e}" for c in clauses}
        out = {}
        stale = sorted({f"{ft}.attrs['{k}']" for ft, k, fresh
                        in st.used_attrs if not fresh})
        for c in clauses:
            m = judge_join(st, datasets, order, c)
            if m is not None and stale and c in (
                    "index_online", "time", "frame"):
                m += (f" – the value comes from the summary attribute "
                      f"{', '.join(stale)}, which the writer refreshes only "
                      f"when the file is closed, not from the data of the "
                      f"file")
            out[c] = None if m is None else f"inputs {order}: {m}"
        return out

    def merge(acc, res):
        for k, v in res.items():
            acc[k] = acc.get(k) or v

    # --- R9.3 dispatch on equal feature sets, inputs given in order
    acc = {}
    same3 = {"a": spec(tm="12:00:00"), "b": spec(tm="12:00:10", fr=1000.),
             "c": spec(date="2020-01-02", tm="00:00:01.25",
                       ido=[5, 6, 9])}
    for order in (["a", "b"], ["a", "b", "c"]):
        merge(acc, case(same3, order, ["time", "frame", "index_online",
                                       "pass-through", "logs", "features"]))
    texts = {
        "time": "time continues with the acquisition offset of each input",
        "frame": "frame continues with offset x frame rate of each input",
        "index_online": "index_online continues after the last stored value",
        "pass-through": "all other features are appended input by input, "
                        "unchanged",
        "logs": "logs, tables and configuration of every source are stored "
                "once, under distinct names",
        "features": "the joined file holds the common features, once per "
                    "input; the first input is exported unfiltered",
    }
    for k in ("time", "frame", "index_online", "pass-through", "logs"):
        ctx.ob("R9.3", acc[k] is None, texts[k] if acc[k] is None
               else acc[k], node=f, label=f"join {k}")
    # --- inputs that carry a unix timestamp besides date / time: the start
    # instant of an input is one value, its fraction counted once
    tacc = {}
    ts3 = {"a": spec(tm="12:00:00.25", with_ts=True),
           "b": spec(tm="12:00:10.75", with_ts=True, fr=1000.),
           "c": spec(date="2020-01-02", tm="00:00:01.50", with_ts=True)}
    for order in (["a", "b"], ["a", "b", "c"], ["c", "a", "b"]):
        merge(tacc, case(ts3, order, ["order", "time", "frame"]))
    mixed = {"a": spec(tm="12:00:00.25", with_ts=True),
             "b": spec(tm="12:00:10.75")}
    merge(tacc, case(mixed, ["a", "b"], ["order", "time", "frame"]))
    bad = tacc.get("order") or tacc.get("time") or tacc.get("frame")
    ctx.ob("R9.3", bad is None,
           "inputs with experiment:timestamp (and fractional start times): "
           "the start instant of every input is formed once, offsets are "
           "exact" if bad is None else
           bad + " – the start instant of an input is not formed once "
           "(e.g. the fractional seconds are added to a value that already "
           "contains them)", node=f,
           label="join offsets with timestamps present")
    # --- a later input stores 'time' in single precision (no 'frame', so
    # the time axis is not recomputed) and starts a day later: the offset
    # is added in double precision (a numpy float64 offset promotes the
    # array; a python float would leave it float32 and round the sum to a
    # grid of several milliseconds)
    nofr = [x for x in BASE if x != "frame"]
    f4 = {"a": spec(tm="12:00:00", innate=nofr),
          "b": spec(date="2020-01-02", tm="13:01:15.05", innate=nofr,
                    time_f4=True),
          "c": spec(date="2020-01-03", tm="01:00:00", innate=nofr,
                    time_f4=True)}
    pacc = {}
    for order in (["a", "b"], ["a", "b", "c"]):
        merge(pacc, case(f4, order, ["time"]))
    bad = pacc.get("time")
    ctx.ob("R9.3", bad is None,
           "single-precision 'time' of a later input: the acquisition "
           "offset is added in double precision" if bad is None else
           bad + " – the offset is added in the precision of the input "
           "(a python float does not promote a float32 array under NumPy 2)",
           node=f, label="join time offset in double precision")
    # --- feature intersection
    facc = {"features": acc["features"]}
    full = ["area_cvx", "area_msd", "area_ratio", "deform", "time", "frame",
            "tilt"]
    sets = [
        # one feature missing in the second input
        ({"a": spec(innate=full), "b": spec(
            tm="12:00:10", innate=[x for x in full if x != "area_msd"])},
         ["a", "b"]),
        # two features missing that are neighbours in the sorted list
        ({"a": spec(innate=full), "b": spec(
            tm="12:00:10", innate=[x for x in full if x not in (
                "area_msd", "area_ratio")])}, ["a", "b"]),
        # three inputs, different features missing, one only computable,
        # one innate in a later input only
        ({"a": spec(innate=full),
          "b": spec(tm="12:00:10", innate=[x for x in full if x not in (
              "area_cvx", "area_msd", "tilt")], anc=["tilt"]),
          "c": spec(tm="12:00:20", innate=[x for x in full if x not in (
              "time",)] + ["bright_avg"])}, ["a", "b", "c"]),
        # all of the first input's trailing features missing
        ({"a": spec(innate=full), "b": spec(
            tm="12:00:10", innate=["area_cvx", "deform"])}, ["a", "b"]),
    ]
    for specs, order in sets:
        merge(facc, case(specs, order, ["features", "pass-through"]))
    bad = facc.get("features") or facc.get("pass-through")
    ctx.ob("R9.3", bad is None,
           texts["features"] + " (inputs lacking one, two adjacent, several "
           "features)" if bad is None else bad, node=f,
           label="join feature intersection")
    three = {"a": spec(date="2020-01-01", tm="23:59:50"),
             "b": spec(date="2020-01-02", tm="00:00:05", fr=1000.),
             "c": spec(date="2020-01-02", tm="09:00:00.5")}
    # --- offsets belong to their own input, whatever order was given
    oacc = {}
    for order in (["c", "a", "b"], ["b", "c", "a"], ["c", "b", "a"],
                  ["b", "a"], ["a", "c", "b"]):
        merge(oacc, case(three, order, ["time", "frame", "index_online"]))
    bad = oacc.get("time") or oacc.get("frame") or oacc.get("index_online")
    ctx.ob("R9.3", bad is None,
           "inputs given out of chronological order: the offset of every "
           "input is computed from its own date / time relative to the "
           "earliest input" if bad is None else
           bad + " – an input received the offset of another input",
           node=f, label="join offsets of inputs given out of order")
    # --- R9.4 order
    oacc = {}
    for order in (["c", "a", "b"], ["b", "a", "c"], ["b", "c", "a"],
                  ["a", "b", "c"], ["b", "a"]):
        merge(oacc, case(three, order, ["order", "time", "frame"]))
    bad = oacc.get("order") or oacc.get("time") or oacc.get("frame")
    ctx.ob("R9.4", bad is None,
           "inputs given in any order are joined chronologically, offsets "
           "are relative to the earliest input" if bad is None else bad,
           node=f, label="join chronological order")
    oacc = {}
    frac = {"a": spec(tm="12:00:00"), "b": spec(tm="12:00:00.50"),
            "c": spec(tm="12:00:01")}
    for order in (["a", "b"], ["b", "a"], ["c", "b", "a"], ["b", "c"]):
        merge(oacc, case(frac, order, ["order", "time", "frame"]))
    bad = oacc.get("order") or oacc.get("time") or oacc.get("frame")
    ctx.ob("R9.4", bad is None,
           "start times with and without fractional seconds "
           "('HH:MM:SS[.S]') are ordered chronologically" if bad is None
           else bad + (" – the sort key does not order 'HH:MM:SS' before "
                       "'HH:MM:SS.S' of the same second"
                       if oacc.get("order") or "uint64" in bad else ""),
           node=f,
           label="join order with fractional seconds")
    # fractional seconds with 0 / 1 / 2 / 3 / 6 decimals are taken exactly
    oacc = {}
    decs = {"a": spec(tm="12:00:00"), "b": spec(tm="12:00:01.5"),
            "c": spec(tm="12:00:02.25", fr=1000.),
            "d": spec(tm="12:00:03.125", fr=8000.),
            "e": spec(tm="12:00:04.123456", fr=1000000.)}
    for order in (["a", "b", "c", "d", "e"], ["e", "d", "a"], ["d", "b"]):
        merge(oacc, case(decs, order, ["order", "time", "frame"]))
    bad = oacc.get("order") or oacc.get("time") or oacc.get("frame")
    ctx.ob("R9.4", bad is None,
           "fractional seconds of the start time (0, 1, 2, 3, 6 decimals) "
           "enter the offsets exactly" if bad is None else
           bad + " – the fraction of experiment:time is not parsed "
           "completely", node=f,
           label="join fraction of the start time exact")
    oacc = {}
    ties = {"x": spec(), "y": spec(), "z": spec(tm="12:00:03")}
    for order in (["y", "x"], ["x", "y"], ["z", "y", "x"]):
        merge(oacc, case(ties, order, ["order", "time"]))
    bad = oacc.get("order") or oacc.get("time")
    ctx.ob("R9.4", bad is None,
           "inputs with equal acquisition keys keep the given order"
           if bad is None else bad, node=f, label="join ties keep the given "
                                                  "order")
    ctx.stat("R9.3/R9.4 join evaluations", n_eval[0])


# ----------------------------------------------------------------------
# R9.5 start time of tdms measurements

TDMS = "dclab/rtdc_dataset/fmt_tdms/__init__.py"


def _fmt(r):
    def poly(p):
        out = []
        for mono, c in sorted(p.t.items()):
            m = "*".join(s if e == 1 else f"{s}**{e}" for s, e in mono)
            if not m:
                out.append(f"{c}")
            elif c == 1:
                out.append(m)
            elif c == -1:
                out.append("-" + m)
            else:
                out.append(f"{c}*{m}")
        return " + ".join(out).replace("+ -", "- ") or "0"
    d = poly(r.d)
    return poly(r.n) if d == "1" else f"({poly(r.n)}) / ({d})"


def r95(ctx, repo):
    cls = repo.cls(TDMS, "RTDC_TDMS")
    # the method that formats date / time from a local-time struct
    cands = []
    for st in cls.body:
        if isinstance(st, ast.FunctionDef):
            # (a localtime() call without an instant is "now"; it cannot
            # be the start and is judged by the formatting obligation)
            lt = [c for c in walk(st) if isinstance(c, ast.Call)
                  and (dotted(c.func) or "").endswith("localtime")
                  and (c.args or c.keywords)]
            if lt and any(isinstance(n, ast.Constant) and n.value in (
                    "time", "date") for n in walk(st)):
                cands.append((st, lt))
    if len(cands) != 1 or len(cands[0][1]) != 1:
        raise AnalysisError("RTDC_TDMS: the method deriving experiment "
                            "date / time from a local time was not found")
    f, (lt,) = cands[0]
    if len(lt.args) != 1:
        raise AnalysisError(f"{f.name}: time.localtime() without an instant")
    env = {}

    def resolve(e):
        if isinstance(e, ast.Attribute) and e.attr == "st_mtime":
            return "mtime"
        if isinstance(e, ast.Call) and (dotted(e.func) or "").endswith(
                "getmtime"):
            return "mtime"
        if isinstance(e, ast.Subscript) and isinstance(
                e.value, ast.Subscript) and isinstance(
                e.value.value, ast.Name) and e.value.value.id == "self" \
                and isinstance(e.value.slice, ast.Constant) \
                and e.value.slice.value == "time":
            k = e.slice
            if isinstance(k, ast.UnaryOp) and isinstance(
                    k.op, ast.USub) and isinstance(k.operand, ast.Constant):
                return f"t[-{k.operand.value}]"
            if isinstance(k, ast.Constant):
                return f"t[{k.value}]"
            raise AnalysisError(f"{f.name}: event time `{txt(e)}` with a "
                                f"computed index")
        if isinstance(e, ast.Call) and isinstance(
                e.func, ast.Name) and e.func.id == "float" \
                and len(e.args) == 1:
            return ratfun(e.args[0], resolve)
        if isinstance(e, ast.Name):
            return env.get(e.id)
        return None

    # fold the straight-line definitions of the instant (the branch taken
    # when the dataset has a time feature)
    arg = lt.args[0]
    stop = enclosing_stmt(lt)

    def fold(stmts):
        for st in stmts:
            if st is stop:
                return True
            if isinstance(st, ast.Assign) and len(st.targets) == 1 \
                    and isinstance(st.targets[0], ast.Name):
                try:
                    env[st.targets[0].id] = ratfun(st.value, resolve)
                except AnalysisError:
                    env.pop(st.targets[0].id, None)
            elif isinstance(st, ast.AugAssign) and isinstance(
                    st.target, ast.Name) and st.target.id in env \
                    and isinstance(st.op, (ast.Sub, ast.Add)):
                v = ratfun(st.value, resolve)
                cur = env[st.target.id]
                env[st.target.id] = cur - v if isinstance(
                    st.op, ast.Sub) else cur + v
            elif isinstance(st, ast.If):
                has_time = any(isinstance(c, ast.Compare) and isinstance(
                    c.ops[0], ast.In) and isinstance(
                    c.left, ast.Constant) and c.left.value == "time"
                    for c in ast.walk(st.test))
                neg = isinstance(st.test, ast.UnaryOp) and isinstance(
                    st.test.op, ast.Not)
                if has_time:
                    if fold(st.orelse if neg else st.body):
                        return True
                else:
                    for nm in {n.id for s in st.body + st.orelse
                               for n in ast.walk(s)
                               if isinstance(n, ast.Name)
                               and isinstance(n.ctx, ast.Store)}:
                        env.pop(nm, None)
        return False
    if not fold(f.body):
        raise AnalysisError(f"{f.name}: statements before time.localtime() "
                            f"could not be folded")
    try:
        got = ratfun(arg, resolve)
    except AnalysisError as e:
        raise AnalysisError(f"{f.name}: instant `{txt(arg)}` cannot be "
                            f"folded ({e})")
    want = Rat(Poly.sym("mtime")) - Rat(Poly.sym("t[-1]"))
    ok = got.same(want)
    ctx.ob("R9.5", ok,
           "acquisition start of a .tdms measurement = modification time of "
           "the file - time of the last event" if ok else
           f"acquisition start of a .tdms measurement is computed as "
           f"{_fmt(got)}, not as mtime - time[-1]: date / time of "
           f"the measurement are shifted; join orders its inputs and "
           f"computes its time / frame offsets from them", node=lt,
           label="tdms start = mtime - last event time")
    # date and time are formatted from that one instant
    name = stop.targets[0].id if isinstance(stop, ast.Assign) and isinstance(
        stop.targets[0], ast.Name) else None
    fmts = {}
    for c in walk(f):
        if isinstance(c, ast.Call) and (dotted(c.func) or "").endswith(
                "strftime") and len(c.args) == 2:
            fmts[str(getattr(c.args[0], "value", txt(c.args[0])))] = txt(
                c.args[1])
    ok = name is not None and len(fmts) >= 2 and all(
        v == name for v in fmts.values()) and any(
        "%H:%M:%S" in k for k in fmts) and any("%Y-%m-%d" in k for k in fmts)
    ctx.ob("R9.5", ok,
           "experiment date and time are formatted from that instant"
           if ok else f"date / time are not both formatted from the start "
           f"instant ({fmts})", node=f, label="tdms date and time from one "
                                              "instant")


def run(ctx):
    repo = ctx.repo
    ctx.rule("R9.5", "tdms reader: acquisition start = file mtime - time of "
             "the last event; date and time from that instant", minimum=2)
    ctx.rule("R9.1", "no mutation of a container inside a `for` over a live "
             "view of it (dclab/cli)", minimum=1)
    ctx.rule("R9.2", "split: the exported masks partition the events in "
             "order, ceil(N/S) parts of at most S events", minimum=7)
    ctx.rule("R9.3", "join: common features, continuous time / frame / "
             "index_online, pass-through, logs of every source", minimum=8)
    ctx.rule("R9.4", "join: chronological order for any given order, incl. "
             "fractional seconds; ties keep the given order", minimum=4)
    r91(ctx, repo)
    r92(ctx, repo)
    r93_r94(ctx, repo)
    r95(ctx, repo)


def _re(pattern, repl):
    """regex edit that fits the present and the repaired form of a line"""
    import re

    def edit(src):
        return re.sub(pattern, repl, src, count=1)
    return edit


MUTANTS = [
    ("join: log dict pruned while iterated", JOIN,
     ("            hw.store_log(name, logs[name])\n",
      "            hw.store_log(name, logs[name])\n"
      "            logs.pop(name)\n"), "R9.1"),
    ("split: temp list pruned while iterated", SPLIT,
     ("    for pt, pp in zip(paths_temp, paths_gen):\n        pt.rename(pp)\n",
      "    for pt, pp in zip(paths_temp, paths_gen):\n        pt.rename(pp)\n"
      "        paths_temp.remove(pt)\n"), "R9.1"),
    ("join: time offset dropped", JOIN,
     ('fdata = dsi["time"] + ti', 'fdata = dsi["time"]'), "R9.3"),
    ("join: frame offset without the frame rate", JOIN,
     ("+ np.uint64(round(ti * fr)))", "+ np.uint64(round(ti)))"), "R9.3"),
    ("join: index_online restarts at the last value", JOIN,
     ('ido0 = hw.h5file["events/index_online"][-1] + 1',
      'ido0 = hw.h5file["events/index_online"][-1]'), "R9.3"),
    ("join: index_online branch lost", JOIN,
     ('elif feat == "index_online":', 'elif feat == "index_onlin":'),
     "R9.3"),
    ("join: offsets not relative to the first input", JOIN,
     ("    t_offsets -= t_offsets[0]\n", ""), "R9."),
    ("join: offsets computed over the unsorted inputs", JOIN,
     ("    for ii, pp in enumerate(sorted_paths):",
      "    for ii, pp in enumerate(paths_in):"), "R9.4"),
    ("join: inputs not sorted", JOIN,
     ("sorted_paths = [p[1] for p in sorted(key_paths, key=lambda x: x[0])]",
      "sorted_paths = [p[1] for p in key_paths]"), "R9.4"),
    ("join: date missing from the sort key", JOIN,
     _re(r'dsa\.config\["experiment"\]\["date"\],\s*', ""), "R9.4"),
    ("join: offsets shifted by one input", JOIN,
     ("zip(sorted_paths[1:], t_offsets[1:])",
      "zip(sorted_paths[1:], t_offsets)"), "R9."),
    ("join: one log prefix for all later inputs", JOIN,
     ('meta_key = f"src-#{ii}"', 'meta_key = "src-#2"'), "R9.3"),
    ("join: source counter not advanced", JOIN,
     ("            ii += 1  # we start with the second dataset\n", ""),
     "R9.3"),
    ("join: logs of later inputs dropped", JOIN,
     ("                    for log in dsi.logs:\n"
      "                        hw.store_log(name=meta_prefix + log,\n"
      "                                     lines=dsi.logs[log])\n", ""),
     "R9.3"),
    ("join: first input exported with all its features", JOIN,
     ("                            features=features,\n",
      "                            features=ds0.features_innate,\n"), "R9.3"),
    ("join: availability judged by innate features only", JOIN,
     ("                        if feat not in dsc.features:",
      "                        if feat not in dsc.features_innate:"), "R9.3"),
    ("join: first input exported filtered", JOIN,
     ("                            filtered=False,\n",
      "                            filtered=True,\n"), "R9.3"),
    ("join: only pass-through features stored", JOIN,
     ("                            fdata = dsi[feat]\n"
      "                        hw.store_feature(feat=feat, data=fdata)",
      "                            fdata = dsi[feat]\n"
      "                            hw.store_feature(feat=feat, data=fdata)"),
     "R9.3"),
    ("join: fractional seconds ignored in the offsets", JOIN,
     ("            if len(etime) > 8:", "            if len(etime) > 80:"),
     "R9."),
    ("join: tables of the sources collide", JOIN,
     ("hw.store_table(name=meta_prefix + tab,", "hw.store_table(name=tab,"),
     "R9.3"),
    ("join: configuration of later inputs not stored", JOIN,
     ('                    hw.store_log(name=f"{meta_key}_cfg",\n'
      '                                 lines=cfg)\n', ""), "R9.3"),
    ("split: windows overlap by one event", SPLIT,
     ("ds.filter.manual[ii*split_events:(ii+1)*split_events] = True",
      "ds.filter.manual[ii*split_events:(ii+1)*split_events+1] = True"),
     "R9.2"),
    ("split: windows leave a gap", SPLIT,
     ("ds.filter.manual[ii*split_events:(ii+1)*split_events] = True",
      "ds.filter.manual[ii*split_events+1:(ii+1)*split_events] = True"),
     "R9.2"),
    ("split: manual filter not reset between parts", SPLIT,
     ("                ds.filter.manual[:] = False  # reset filter\n", ""),
     "R9.2"),
    ("split: remainder part dropped", SPLIT,
     ("            if len(ds) % split_events:\n"
      "                num_files += 1\n", ""), "R9.2"),
    ("split: always one part more", SPLIT,
     ("            if len(ds) % split_events:", "            if True:"),
     "R9.2"),
    ("split: filter not applied before the export", SPLIT,
     ("                ds.apply_filter()\n                ds.export.hdf5",
      "                ds.export.hdf5"), "R9.2"),
    ("split: parts exported unfiltered", SPLIT,
     ("                               filtered=True,\n",
      "                               filtered=False,\n"), "R9.2"),
    ("split: temp files renamed to the wrong names", SPLIT,
     ("    for pt, pp in zip(paths_temp, paths_gen):",
      "    for pt, pp in zip(paths_temp, reversed(paths_gen)):"), "R9.2"),
    ("skip_empty: wrong initial event", COMMON,
     ("            ds.filter.manual[0] = False",
      "            ds.filter.manual[1] = False"), "R9.2"),
    ("skip_empty: final event index off by one", COMMON,
     ("            idfin = len(ds) - 1", "            idfin = len(ds) - 2"),
     "R9.2"),
    ("skip_empty: flags swapped", COMMON,
     ("    if initial:\n        if ((\"image\" in ds and ds.format",
      "    if final:\n        if ((\"image\" in ds and ds.format"), "R9.2"),
    ("skip_empty: exclusion not applied", COMMON,
     ("            elif np.all(ds[\"image\"][idfin] == 0):\n"
      "                ds.filter.manual[idfin] = False\n"
      "                ds.apply_filter()",
      "            elif np.all(ds[\"image\"][idfin] == 0):\n"
      "                ds.filter.manual[idfin] = True\n"
      "                ds.apply_filter()"), "R9.2"),
]

TWINS = [
    ("join: pruning loop over a tuple copy", JOIN,
     _re(r"for feat in (list\(features\)|features):\n"
         r"(\s+)if feat not in dsc\.features:",
         r"for feat in tuple(features):\n\2if feat not in dsc.features:")),
    ("join: offset added from the left", JOIN,
     ('fdata = dsi["time"] + ti', 'fdata = ti + dsi["time"]')),
    ("join: source counter from enumerate", JOIN,
     [("        ii = 1\n        # Append data from other files\n"
       "        for pi, ti in zip(sorted_paths[1:], t_offsets[1:]):\n"
       "            ii += 1  # we start with the second dataset\n",
       "        # Append data from other files\n"
       "        for ii, (pi, ti) in enumerate(zip(sorted_paths[1:],\n"
       "                                          t_offsets[1:]), start=2):\n")
      ]),
    ("join: in-place sort of the key list", JOIN,
     ("    sorted_paths = [p[1] for p in sorted(key_paths, "
      "key=lambda x: x[0])]\n",
      "    key_paths.sort(key=lambda x: x[0])\n"
      "    sorted_paths = [pp for _, pp in key_paths]\n")),
    ("split: number of parts by ceiling division", SPLIT,
     ("            num_files = len(ds) // split_events\n"
      "            if len(ds) % split_events:\n"
      "                num_files += 1\n",
      "            num_files = -(-len(ds) // split_events)\n")),
    ("split: window bounds in locals", SPLIT,
     ("                ds.filter.manual[ii*split_events:(ii+1)*split_events]"
      " = True\n",
      "                start = ii * split_events\n"
      "                stop = min(start + split_events, len(ds))\n"
      "                ds.filter.manual[start:stop] = True\n")),
    ("split: rename loop with an index", SPLIT,
     ("    for pt, pp in zip(paths_temp, paths_gen):\n        pt.rename(pp)",
      "    for jj, pt in enumerate(paths_temp):\n"
      "        pt.rename(paths_gen[jj])")),
    ("skip_empty: final index from the image column", COMMON,
     ("            idfin = len(ds) - 1",
      "            idfin = len(ds[\"image\"]) - 1")),
    ("skip_empty: image test first", COMMON,
     ('        if (("image" in ds and ds.format == "tdms"\n'
      '             and ds.config["fmt_tdms"]["video frame offset"])\n'
      '            or ("contour" in ds and np.all(ds["contour"][0] == 0))\n'
      '                or ("image" in ds and np.all(ds["image"][0] == 0))):',
      '        if (("image" in ds and np.all(ds["image"][0] == 0))\n'
      '            or ("image" in ds and ds.format == "tdms"\n'
      '                and ds.config["fmt_tdms"]["video frame offset"])\n'
      '                or ("contour" in ds '
      'and np.all(ds["contour"][0] == 0))):')),
]

# mutants that re-introduce the repaired defects (apply to the fixed tree)
MUTANTS = list(MUTANTS) + [
    ("skip_empty: final event of the part window instead of the dataset "
     "(seeded)", COMMON,
     ("            idfin = len(ds) - 1",
      "            idfin = int(np.flatnonzero(ds.filter.manual)[-1])"),
     "R9.2"),
    ("skip_empty: first event of the part window instead of the dataset",
     COMMON,
     ("            ds.filter.manual[0] = False",
      "            ds.filter.manual[int(np.flatnonzero("
      "ds.filter.manual)[0])] = False"), "R9.2"),
    ("pruning while iterating (F09 returns)", "dclab/cli/task_join.py",
     ("for feat in list(features):", "for feat in features:"), "R9.1"),
    ("string sort key (F09b returns)", "dclab/cli/task_join.py",
     ('            key = (dsa.config["experiment"]["date"],\n'
      '                   dsa.config["experiment"]["time"],\n'
      '                   dsa.config["experiment"]["run index"],\n'
      '                   )\n',
      '            key = "_".join([dsa.config["experiment"]["date"],\n'
      '                            dsa.config["experiment"]["time"],\n'
      '                            str(dsa.config["experiment"]["run index"])\n'
      '                            ])\n'), "R9.4"),
]


TWINS = list(TWINS) + [
    ("join: time string split with a module constant", JOIN,
     [("class FeatureSetNotIdenticalJoinWarning(UserWarning):",
       "LEN_HMS = 8\n\n\n"
       "class FeatureSetNotIdenticalJoinWarning(UserWarning):"),
      ('            st = time.strptime(dsb.config["experiment"]["date"]\n'
       "                               + etime[:8],\n"
       '                               "%Y-%m-%d%H:%M:%S")\n',
       '            edate = dsb.config["experiment"]["date"]\n'
       "            etime_hms = etime[:LEN_HMS]\n"
       '            st = time.strptime(edate + etime_hms, '
       '"%Y-%m-%d%H:%M:%S")\n'),
      ("            if len(etime) > 8:",
       "            if len(etime) > LEN_HMS:"),
      ("                t_offsets[ii] += float(etime[8:])",
       "                etime_frac = etime[LEN_HMS:]\n"
       "                t_offsets[ii] += float(etime_frac)")]),
    ("split: default part size derived from module constants", SPLIT,
     [("def split(\n",
       "PART_BASE = 1000\nPART_DEFAULT = 10 * PART_BASE\n\n\ndef split(\n"),
      ("        split_events: int = 10000,",
       "        split_events: int = PART_DEFAULT,")]),
]


MUTANTS = list(MUTANTS) + [
    ("join: offsets in the given order, consumed in sorted order (seeded)",
     JOIN,
     [("    t_offsets = np.zeros(len(sorted_paths), dtype=np.float64)\n"
       "    for ii, pp in enumerate(sorted_paths):",
       "    t_offsets = np.zeros(len(paths_in), dtype=np.float64)\n"
       "    for ii, pp in enumerate(paths_in):"),
      ("    t_offsets -= t_offsets[0]\n",
       "    t_offsets -= t_offsets.min()\n")], "R9.3"),
]

TWINS = list(TWINS) + [
    ("join: offsets relative to the minimum of the sorted offsets", JOIN,
     ("    t_offsets -= t_offsets[0]\n",
      "    t_offsets -= t_offsets.min()\n")),
]


_SORT_OLD = ("            key_paths.append((key, pp))\n"
             "    sorted_paths = [p[1] for p in sorted(key_paths, "
             "key=lambda x: x[0])]\n")
_SORT_NEW = ("            key_paths.append(_KeyedPath(key=key, path=pp))\n"
             "    sorted_paths = [\n"
             "        kp.path for kp in sorted(key_paths, "
             "key=lambda kp: kp.key)]\n")

TWINS = list(TWINS) + [
    ("join: (key, path) pairs as a module-level namedtuple", JOIN,
     [("import argparse\n", "import argparse\nimport collections\n"),
      ("def join(\n",
       '_KeyedPath = collections.namedtuple("_KeyedPath", ["key", "path"])'
       "\n\n\ndef join(\n"),
      (_SORT_OLD, _SORT_NEW)]),
    ("join: (key, path) pairs as a typing.NamedTuple class", JOIN,
     [("from typing import Dict, List\n",
       "from typing import Dict, List, NamedTuple\n"),
      ("def join(\n",
       "class _KeyedPath(NamedTuple):\n"
       '    """input path with its sorting key"""\n'
       "    key: tuple\n    path: object\n\n\ndef join(\n"),
      (_SORT_OLD, _SORT_NEW)]),
]


_TSE = '            tse -= self["time"][-1]\n'

MUTANTS = list(MUTANTS) + [
    ("tdms start: duration instead of the last event time (seeded)", TDMS,
     (_TSE, '            tse -= self["time"][-1] - self["time"][0]\n'),
     "R9.5"),
    ("tdms start: first event time subtracted", TDMS,
     (_TSE, '            tse -= self["time"][0]\n'), "R9.5"),
    ("tdms start: duration added", TDMS,
     (_TSE, '            tse += self["time"][-1]\n'), "R9.5"),
    ("tdms start: duration not taken into account", TDMS,
     ('        if "time" in self:\n'
      "            # correct for duration of experiment\n" + _TSE, ""),
     "R9.5"),
    ("tdms date formatted from the current time", TDMS,
     ('        datestr = time.strftime("%Y-%m-%d", loct)',
      '        datestr = time.strftime("%Y-%m-%d", time.localtime())'),
     "R9.5"),
]

TWINS = list(TWINS) + [
    ("tdms start: duration in a local, plain subtraction", TDMS,
     (_TSE, '            duration = self["time"][-1]\n'
            "            tse = tse - duration\n")),
    ("tdms start: modification time in a local", TDMS,
     ("        tse = self.path.stat().st_mtime\n",
      "        mtime = self.path.stat().st_mtime\n        tse = mtime\n")),
]


_FRAC = ("            if len(etime) > 8:\n"
         "                # floating point time stored as well (HH:MM:SS.SS)\n"
         "                t_offsets[ii] += float(etime[8:])\n")
_TS = ('            tstamp = dsb.config["experiment"].get("timestamp")\n'
       "            if tstamp:\n"
       "                t_offsets[ii] = tstamp\n")

MUTANTS = list(MUTANTS) + [
    ("join: timestamp preferred, fraction of the time added on top (seeded)",
     JOIN, (_FRAC, _TS + _FRAC), "R9.3"),
    ("join: fractional seconds added twice", JOIN,
     (_FRAC, _FRAC + _FRAC), "R9."),
]

TWINS = list(TWINS) + [
    ("join: timestamp replaces the parsed start instant as a whole", JOIN,
     (_FRAC, _FRAC + _TS)),
]


TWINS = list(TWINS) + [
    ("join: in-place sort with operator.itemgetter, tuple unpacking", JOIN,
     [("import argparse\n", "import argparse\nimport operator\n"),
      ("    sorted_paths = [p[1] for p in sorted(key_paths, "
       "key=lambda x: x[0])]\n",
       "    key_paths.sort(key=operator.itemgetter(0))\n"
       "    sorted_paths = [pp for _key, pp in key_paths]\n")]),
    ("split: calling styles switched (positional / keyword)", SPLIT,
     [("common.get_command_log(paths=[path_in])",
       "common.get_command_log([path_in])"),
      ("                    ds=ds,\n"
       "                    initial=skip_initial_empty_image,\n"
       "                    final=skip_final_empty_image)",
       "                    ds, skip_initial_empty_image, "
       "skip_final_empty_image)"),
      ("        with RTDCWriter(pt, compression_kwargs=cmp_kw) as hw:",
       "        with RTDCWriter(path_or_h5file=pt,\n"
       "                        compression_kwargs=cmp_kw) as hw:"),
      ("                hw.store_log(name, logs[name])\n"
       "            hw.store_metadata(meta)",
       "                hw.store_log(name=name, lines=logs[name])\n"
       "            hw.store_metadata(meta=meta)")]),
    ("split: number of parts with math.ceil", SPLIT,
     [("import argparse\n", "import argparse\nimport math\n"),
      ("            num_files = len(ds) // split_events\n"
       "            if len(ds) % split_events:\n"
       "                num_files += 1\n",
       "            num_files = math.ceil(len(ds) / split_events)\n")]),
]


MUTANTS = list(MUTANTS) + [
    ("join: fraction of the start time cut to two decimals (seeded)", JOIN,
     ("                t_offsets[ii] += float(etime[8:])",
      "                t_offsets[ii] += float(etime[8:11])"), "R9.4"),
    ("join: fraction of the start time parsed without its first digit",
     JOIN,
     ("                t_offsets[ii] += float(etime[8:])",
      "                t_offsets[ii] += float(\"0.\" + etime[10:])"), "R9."),
]


_PRUNE = ("                    for feat in list(features):\n"
          "                        if feat not in dsc.features:\n"
          "                            features.remove(feat)\n"
          "                            warnings.warn(\n"
          "                                f\"Excluding feature '{feat}', "
          "because \"\n"
          "                                + f\"it is not present in "
          "'{pp}'!\",\n"
          "                                "
          "FeatureSetNotIdenticalJoinWarning)\n")

TWINS = list(TWINS) + [
    ("join: missing features collected first, then removed", JOIN,
     (_PRUNE,
      "                    missing = [ft for ft in features\n"
      "                               if ft not in dsc.features]\n"
      "                    for feat in missing:\n"
      "                        features.remove(feat)\n"
      "                        warnings.warn(\n"
      "                            f\"Excluding feature '{feat}', because \"\n"
      "                            + f\"it is not present in '{pp}'!\",\n"
      "                            FeatureSetNotIdenticalJoinWarning)\n")),
    ("join: start instants appended to a list, np.array at the end", JOIN,
     [("    t_offsets = np.zeros(len(sorted_paths), dtype=np.float64)\n"
       "    for ii, pp in enumerate(sorted_paths):\n",
       "    t_starts = []\n"
       "    for ii, pp in enumerate(sorted_paths):\n"),
      ("            t_offsets[ii] = time.mktime(st)\n",
       "            t_start = time.mktime(st)\n"),
      ("                t_offsets[ii] += float(etime[8:])\n"
       "    t_offsets -= t_offsets[0]\n",
       "                t_start += float(etime[8:])\n"
       "            t_starts.append(t_start)\n"
       "    t_offsets = np.array(t_starts, dtype=np.float64)\n"
       "    t_offsets -= t_offsets[0]\n")]),
]

MUTANTS = list(MUTANTS) + [
    ("join: features pruned through an alias of the iterated list", JOIN,
     (_PRUNE,
      "                    same = features\n"
      "                    for feat in same:\n"
      "                        if feat not in dsc.features:\n"
      "                            features.remove(feat)\n"), "R9.1"),
]

