"""C01 – data written through the writer API is read back exactly.

Structural necessary conditions in ``rtdc_dataset/writer.py`` and the HDF5
readers (see DESIGN.md §2 C01):

R1.1 append-offset protocol (``write_ndarray``, ``write_text``): a new
     dataset has the length of the data and offset 0; for an existing one
     the offset is the stored length, read before ``resize``; the resize
     amount is offset + len(new data); every store goes to
     ``offset + <source range>``.
R1.2 chunk tiling (``write_ndarray``): the tiles of the chunk loop plus the
     remainder tile cover [0, len) exactly once – decided as polynomial
     identities over the symbols c (chunk), q = len // c, r = len % c.
R1.3 string width (``write_text``): the width of a new dataset is the
     maximum encoded length over all lines (measured on the object that is
     stored); a store into an *existing* fixed-width dataset is dominated by
     a test that the item size is large enough (or the dataset is re-created
     with the old lines carried over).
R1.4 index enumeration: the stored index is arange(n0+1, n0+n+1) with n0 the
     stored length, independent of the caller's values.
R1.5 layout tables agree between writer, readers and copier.
R1.6 exit protocol: ``__exit__`` closes on every path, ``rectify_metadata``
     runs whenever events exist, the event count is the length of a stored
     feature dataset (never of the trace *group*).
R1.7 ragged counter: contour datasets are named curid+ii, the cached group
     size advances once per dataset and starts from len(group).
R1.8 writer modes: reset truncates, replace deletes exactly the datasets
     that are rewritten (member by member for sub-group features such as
     trace) before anything is written, append keeps them.
R1.A metadata write-through: every key given to store_metadata is assigned
     to the HDF5 attributes on every non-raising iteration.
R1.B stored features win: RTDCBase.__getitem__ tests `self._events` before
     any exit that serves ancillary or basin data.
R1.C arguments stay the caller's: a `store_*` method (and the writer methods
     it hands its arguments to) changes an object reached from a parameter
     in place only through a private copy that is deep enough for the level
     that is changed (deepcopy / section-wise copy; a shallow copy shares
     the nested containers) – otherwise the next writer given the same
     object stores what this call left in it.
R1.9 reader memo independent of the request: a value a lazy reader caches
     on `self` never depends on named per-call arguments (dtype, copy,
     index) unless the argument is the key of a mapping memo.
"""
from __future__ import annotations

import ast
import codecs

from ..absval import Poly, Rat, eval_pred, orderings, ratfun
from ..cfg import CFG, branch_facts, guarded_by
from ..core import (AnalysisError, ancestors, call_name, const_str, dotted,
                    find_calls, is_self_attr, kwarg, last_attr, names_in,
                    short, txt, walk)

ASSUMPTIONS = [
    "NOT decided: value equality for every dtype / NaN / inf / unicode value "
    "(h5py and numpy conversions), behaviour of HDF5 filters, equality "
    "across writers re-opened with a different chunk configuration.",
    "R1.2 assumes a chunk length c >= 1 (h5py guarantees it) and decides "
    "coverage for all len >= 0 through the identity len = c*q + r.",
    "R1.3 treats `<dataset>.dtype.kind == 'S'` as true (fixed-width "
    "datasets are the ones the property is about).",
    "R1.5 compares literals that name HDF5 groups / members; it does not "
    "follow names that are computed at run time.",
    "R1.9 does not track the catch-alls *args / **kwargs (never filled by "
    "the numpy array protocol) nor mutation of a memo through method calls "
    "(append, setdefault); private helpers and constructors are out of "
    "scope.",
    "R1.C follows item / attribute assignment, del and the mutating "
    "container methods on values reached from the parameters of store_* "
    "(through aliases, element access, loop targets, shallow / deep copies "
    "and self.<method> calls); NOT decided: augmented assignment to a bare "
    "name (`data += 1`), mutation inside functions outside RTDCWriter, and "
    "HDF5 objects handed in by the caller (writing to them is the purpose).",
]

WR = "dclab/rtdc_dataset/writer.py"
EV = "dclab/rtdc_dataset/fmt_hdf5/events.py"
LG = "dclab/rtdc_dataset/fmt_hdf5/logs.py"
TB = "dclab/rtdc_dataset/fmt_hdf5/tables.py"
BS = "dclab/rtdc_dataset/fmt_hdf5/base.py"
CP = "dclab/rtdc_dataset/copier.py"
FC = "dclab/definitions/feat_const.py"


# ----------------------------------------------------------------------
# symbolic integers

def S(name):
    return Rat(Poly.sym(name))


def K(c):
    return Rat(Poly.const(c))


def show(r):
    """compact text of a Rat (for messages)"""
    def poly(p):
        if not p.t:
            return "0"
        out = []
        for mono, c in sorted(p.t.items()):
            f = "*".join(s if e == 1 else f"{s}^{e}" for s, e in mono)
            if not f:
                out.append(str(c))
            elif c == 1:
                out.append(f)
            elif c == -1:
                out.append("-" + f)
            else:
                out.append(f"{c}*{f}")
        return " + ".join(out).replace("+ -", "- ")
    if r.d == Poly.const(1):
        return poly(r.n)
    return f"({poly(r.n)})/({poly(r.d)})"


def is_len_of(node, names):
    """len(X) / X.shape[0] / X.size-free length of a name in `names`"""
    if isinstance(node, ast.Call) and call_name(node) == "len" \
            and len(node.args) == 1 and isinstance(node.args[0], ast.Name) \
            and node.args[0].id in names:
        return True
    if isinstance(node, ast.Subscript) and isinstance(
            node.value, ast.Attribute) and node.value.attr == "shape" \
            and isinstance(node.value.value, ast.Name) \
            and node.value.value.id in names \
            and isinstance(node.slice, ast.Constant) \
            and node.slice.value == 0:
        return True
    return False


class Sym:
    """On-demand symbolic evaluation of the integer expressions of one
    function: a name with a single assignment is replaced by its value;
    ``bind`` holds symbols (offset, loop variables)."""

    def __init__(self, func, data_names, length, special=None):
        self.func = func
        self.data_names = set(data_names)
        self.L = length
        #: name of the dataset variable; len(D) / D.shape[0] then stand for
        #: the length after the resize, off + len(data)
        self.dset = None
        #: how `min(x, len(data))` is read: "full" – a tile that does not
        #: reach the end (x <= len), "last" – the final, possibly partial
        #: tile (x > len).  The tiling rule proves which case applies.
        self.min_mode = "full"
        self.bind = {}
        self.special = special
        self.assigns = {}
        self._busy = set()
        for n in walk(func):
            if isinstance(n, ast.Assign):
                for t in n.targets:
                    if isinstance(t, ast.Name):
                        self.assigns.setdefault(t.id, []).append(n.value)
                    elif isinstance(t, ast.Tuple):
                        for i, e in enumerate(t.elts):
                            if isinstance(e, ast.Name):
                                self.assigns.setdefault(e.id, []).append(
                                    ("tuple", i, n.value))
            elif isinstance(n, (ast.AugAssign, ast.AnnAssign)):
                if isinstance(n.target, ast.Name):
                    self.assigns.setdefault(n.target.id, []).append(
                        ("aug", 0, n))
            elif isinstance(n, (ast.For, ast.comprehension)):
                for e in ast.walk(n.target):
                    if isinstance(e, ast.Name):
                        self.assigns.setdefault(e.id, []).append(
                            ("loop", 0, n))

    def rat(self, expr):
        return ratfun(expr, self._resolve)

    def _resolve(self, node):
        if self.special is not None:
            r = self.special(node, self)
            if r is not None:
                return r
        if isinstance(node, ast.Name):
            if node.id in self.bind:
                return self.bind[node.id]
            vals = self.assigns.get(node.id)
            if not vals or len(vals) != 1:
                raise AnalysisError(
                    f"{self.func.name}: `{node.id}` has "
                    f"{len(vals or [])} definitions – cannot evaluate "
                    f"symbolically")
            if node.id in self._busy:
                raise AnalysisError(f"{self.func.name}: cyclic definition "
                                    f"of `{node.id}`")
            v = vals[0]
            self._busy.add(node.id)
            try:
                if isinstance(v, tuple):
                    kind, i, val = v
                    if kind == "tuple" and isinstance(val, ast.Call) \
                            and call_name(val) == "divmod" \
                            and len(val.args) == 2:
                        op = ast.FloorDiv() if i == 0 else ast.Mod()
                        return self._divmod(op, val.args[0], val.args[1],
                                            val)
                    raise AnalysisError(
                        f"{self.func.name}: `{node.id}` is not a plain "
                        f"single assignment")
                return self.rat(v)
            finally:
                self._busy.discard(node.id)
        if is_len_of(node, self.data_names):
            return self.L
        if isinstance(node, ast.Call) and call_name(node) in (
                "min", "np.minimum") and len(node.args) == 2 \
                and not node.keywords:
            a, b = self.rat(node.args[0]), self.rat(node.args[1])

            def moves(e, depth=0):
                # depends on a loop variable (through local definitions)
                for n_ in ast.walk(e):
                    if isinstance(n_, ast.Name):
                        vals = self.assigns.get(n_.id, [])
                        if any(isinstance(v_, tuple) and v_[0] == "loop"
                               for v_ in vals):
                            return True
                        if depth < 5 and len(vals) == 1 and isinstance(
                                vals[0], ast.AST) and moves(vals[0],
                                                            depth + 1):
                            return True
                return False
            ma, mb = moves(node.args[0]), moves(node.args[1])
            if ma == mb:
                raise AnalysisError(
                    f"{self.func.name}: `{short(node, 40)}` is not "
                    f"min(<tile end>, <bound>)")
            x, bound = (a, b) if ma else (b, a)
            # the tiling rule checks that the bound is len(data) and that
            # full tiles end at start + chunk (<= len) – then this reading
            # of min() is exact
            return x if self.min_mode == "full" else bound
        if self.dset is not None and is_len_of(node, {self.dset}):
            return S("off") + self.L
        if isinstance(node, ast.BinOp) and isinstance(
                node.op, (ast.FloorDiv, ast.Mod)):
            return self._divmod(node.op, node.left, node.right, node)
        return None

    def _divmod(self, op, left, right, node):
        a, b = self.rat(left), self.rat(right)
        if a.same(self.L) and b.same(S("c")):
            return S("q") if isinstance(op, ast.FloorDiv) else S("r")
        # quotient / remainder of another length (or by another divisor):
        # an opaque symbol that is *not* q or r – the tiling identities
        # that depend on it fail and name it
        kind = "div" if isinstance(op, ast.FloorDiv) else "mod"
        return S(f"{kind}({show(a)}, {show(b)})")


# ----------------------------------------------------------------------
# one-level expansion of calls to private helpers (same class / module)

def _clone(node):
    """copy of an AST subtree without the parent links"""
    if isinstance(node, list):
        return [_clone(x) for x in node]
    if not isinstance(node, ast.AST):
        return node
    new = node.__class__()
    for f in node._fields:
        if hasattr(node, f):
            setattr(new, f, _clone(getattr(node, f)))
    for a in node._attributes:
        if hasattr(node, a):
            setattr(new, a, getattr(node, a))
    return new


def _relink(node, parent):
    node.parent = parent
    for ch in ast.iter_child_nodes(node):
        _relink(ch, node)


def _private_callee(repo, rel, func, call):
    """FunctionDef of `self._x(...)`, `cls._x(...)`, `<Class>._x(...)` or a
    module-level `_x(...)` – private helpers only (extracted code)"""
    f = call.func
    cls = func.parent if isinstance(getattr(func, "parent", None),
                                    ast.ClassDef) else None
    name = None
    scope = None
    if isinstance(f, ast.Attribute) and isinstance(f.value, ast.Name) \
            and cls is not None and f.value.id in ("self", "cls", cls.name):
        name, scope = f.attr, cls
    elif isinstance(f, ast.Name):
        name, scope = f.id, repo.tree(rel)
    if name is None or not name.startswith("_") or name.startswith("__"):
        return None
    cands = [d for d in scope.body if isinstance(d, ast.FunctionDef)
             and d.name == name]
    if len(cands) != 1 or cands[0] is func:
        return None
    return cands[0]


def expand_private_calls(repo, rel, func):
    """A copy of `func` in which every statement `self._helper(...)` /
    `x = self._helper(...)` is replaced by the helper's body (parameters
    bound to the arguments, helper locals renamed on collision).  The copy
    hangs under the same class, so construct keys name the caller.  Helpers
    that return from the middle are left as calls."""
    sites = []
    for st in walk(func):
        if isinstance(st, ast.Expr) and isinstance(st.value, ast.Call):
            callee = _private_callee(repo, rel, func, st.value)
        elif isinstance(st, ast.Assign) and len(st.targets) == 1 \
                and isinstance(st.value, ast.Call):
            callee = _private_callee(repo, rel, func, st.value)
        else:
            continue
        if callee is not None:
            sites.append((st, callee))
    if not sites:
        return func
    new = _clone(func)
    # locate the cloned statements by position (walk order is the same)
    olds = [n for n in walk(func)]
    news = [n for n in walk(new)]
    if len(olds) != len(news):
        raise AnalysisError(f"{func.name}: clone mismatch")
    where = {id(o): n for o, n in zip(olds, news)}
    caller_names = {n.id for n in ast.walk(func) if isinstance(n, ast.Name)}
    caller_names |= {a.arg for a in func.args.args}
    done = 0
    for st, callee in sites:
        body = _inline_body(st, callee, caller_names, func)
        if body is None:
            continue
        tgt = where[id(st)]
        _replace_stmt(new, tgt, body)
        done += 1
    if not done:
        return func
    _relink(new, func.parent)
    new.expanded_from = [c.name for _, c in sites]
    return new


def _replace_stmt(root, old, body):
    for n in ast.walk(root):
        for f in ("body", "orelse", "finalbody"):
            lst = getattr(n, f, None)
            if isinstance(lst, list):
                for i, x in enumerate(lst):
                    if x is old:
                        lst[i:i + 1] = body
                        return
    raise AnalysisError("inline: statement not found")


def _inline_body(st, callee, caller_names, func):
    call = st.value
    a = callee.args
    if a.vararg or a.kwarg or a.posonlyargs or any(
            isinstance(x, ast.Starred) for x in call.args) or any(
            k.arg is None for k in call.keywords):
        return None
    params = [x.arg for x in a.args]
    static = any(txt(d) == "staticmethod" for d in callee.decorator_list)
    is_method = isinstance(callee.parent, ast.ClassDef)
    bound = {}
    pos = list(call.args)
    if is_method and not static:
        if not params:
            return None
        first = params.pop(0)
        bound[first] = ast.Name(id="self", ctx=ast.Load()) if isinstance(
            call.func, ast.Attribute) else None
        if isinstance(call.func, ast.Attribute) and isinstance(
                call.func.value, ast.Name) and call.func.value.id not in (
                "self", "cls"):
            # Class.method(obj, ...) form
            if not pos:
                return None
            bound[first] = pos.pop(0)
    if len(pos) > len(params):
        return None
    for p_, v in zip(params, pos):
        bound[p_] = v
    for k in call.keywords:
        if k.arg not in params or k.arg in bound:
            return None
        bound[k.arg] = k.value
    defaults = dict(zip(reversed([x.arg for x in a.args]),
                        reversed(a.defaults)))
    for x in a.kwonlyargs:
        params.append(x.arg)
    for x, dv in zip(a.kwonlyargs, a.kw_defaults):
        if dv is not None:
            defaults[x.arg] = dv
    for p_ in params:
        if p_ not in bound:
            if p_ not in defaults:
                return None
            bound[p_] = defaults[p_]
    body = [b for b in callee.body if not (
        isinstance(b, ast.Expr) and isinstance(b.value, ast.Constant)
        and isinstance(b.value.value, str))]
    # returns: only a single trailing one
    rets = [n for b in body for n in walk(b) if isinstance(n, ast.Return)]
    tail = None
    if rets:
        if len(rets) != 1 or rets[0] is not body[-1]:
            return None
        tail = rets[0].value
        body = body[:-1]
    elif isinstance(st, ast.Assign):
        return None
    # renaming: parameters bound to an equally named plain name stay;
    # everything else the helper binds gets a suffix when it collides
    ren = {}
    pre = []
    for p_, v in bound.items():
        if isinstance(v, ast.Name) and v.id == p_:
            continue
        ren[p_] = p_ + "__h" if p_ in caller_names else p_
        asg = ast.Assign(targets=[ast.Name(id=ren[p_], ctx=ast.Store())],
                         value=_clone(v), lineno=st.lineno,
                         col_offset=st.col_offset)
        pre.append(asg)
    local = set()
    for b in body:
        for n in walk(b):
            if isinstance(n, ast.Name) and isinstance(n.ctx, ast.Store):
                local.add(n.id)
    for nm in local:
        if nm not in bound and nm in caller_names:
            ren[nm] = nm + "__h"
    out = pre + [_clone(b) for b in body]
    if tail is not None and isinstance(st, ast.Assign):
        out.append(ast.Assign(targets=[_clone(st.targets[0])],
                              value=_clone(tail), lineno=st.lineno,
                              col_offset=st.col_offset))
    elif tail is not None and not isinstance(tail, (ast.Constant, ast.Name)):
        out.append(ast.Expr(value=_clone(tail), lineno=st.lineno,
                            col_offset=st.col_offset))
    for b in out[len(pre):]:
        for n in ast.walk(b):
            if isinstance(n, ast.Name) and n.id in ren:
                n.id = ren[n.id]
    for b in out:
        ast.fix_missing_locations(b)
    if not out:
        out = [ast.Pass(lineno=st.lineno, col_offset=st.col_offset)]
    return out


from ..lib_C01 import (class_methods, expand_private_calls,  # noqa: E402,F401,F811
                       module_function, module_value, propagate_copies,
                       scalarise_records)


def _counted_while_to_for(func):
    """`v = 0 … while v < E: body; v += 1` -> `for v in range(E): body`
    (v assigned nowhere else, no continue in the body) – the two loops run
    the body for the same values of v"""
    cands = []
    for n in walk(func):
        if not isinstance(n, ast.While) or n.orelse or not n.body:
            continue
        t = n.test
        if not (isinstance(t, ast.Compare) and len(t.ops) == 1
                and isinstance(t.ops[0], ast.Lt)
                and isinstance(t.left, ast.Name)):
            continue
        v = t.left.id
        last = n.body[-1]
        if not (isinstance(last, ast.AugAssign) and isinstance(
                last.op, ast.Add) and isinstance(last.target, ast.Name)
                and last.target.id == v and isinstance(
                last.value, ast.Constant) and last.value.value == 1):
            continue
        if any(isinstance(x, ast.Continue) for x in walk(n)):
            continue
        if v in names_in(t.comparators[0]):
            continue
        inits = [x for x in walk(func) if isinstance(x, ast.Assign)
                 and any(isinstance(tt, ast.Name) and tt.id == v
                         for tt in x.targets)]
        others = [x for x in walk(func) if isinstance(
            x, (ast.AugAssign, ast.For)) and x is not last
            and v in names_in(x.target)]
        if len(inits) != 1 or others or not (
                isinstance(inits[0].value, ast.Constant)
                and inits[0].value.value == 0
                and len(inits[0].targets) == 1):
            continue
        blk = n.parent
        body = None
        for fld in ("body", "orelse", "finalbody"):
            lst = getattr(blk, fld, None)
            if isinstance(lst, list) and n in lst and inits[0] in lst \
                    and lst.index(inits[0]) < lst.index(n):
                body = fld
        if body is None:
            continue
        # the bound must not change inside the loop
        assigned = {x.id for x in ast.walk(n) if isinstance(x, ast.Name)
                    and isinstance(x.ctx, ast.Store)}
        if names_in(t.comparators[0]) & assigned:
            continue
        cands.append((n, inits[0], v))
    if not cands:
        return func
    new = _clone(func)
    olds = [x for x in walk(func)]
    news = [x for x in walk(new)]
    where = {id(o): x for o, x in zip(olds, news)}
    for n, init, v in cands:
        wn_, wi_ = where[id(n)], where[id(init)]
        loop = ast.For(
            target=ast.Name(id=v, ctx=ast.Store()),
            iter=ast.Call(func=ast.Name(id="range", ctx=ast.Load()),
                          args=[wn_.test.comparators[0]], keywords=[]),
            body=wn_.body[:-1] or [ast.Pass()], orelse=[])
        ast.copy_location(loop, wn_)
        _replace_stmt(new, wn_, [loop])
        _replace_stmt(new, wi_, [])
    ast.fix_missing_locations(new)
    _relink(new, func.parent)
    for k in ("expanded_from",):
        if hasattr(func, k):
            setattr(new, k, getattr(func, k))
    return new


def _deref_aliases(func):
    """copy of `func` in which a local that is bound exactly once, to an
    attribute of `self` (`sizes = self._group_sizes`, also a helper
    parameter bound at an expanded call), is replaced by that attribute
    wherever it is read; the attribute itself is not re-bound in `func`"""
    stores = {}
    for n in walk(func):
        if isinstance(n, ast.Name) and isinstance(n.ctx, (ast.Store,
                                                          ast.Del)):
            stores[n.id] = stores.get(n.id, 0) + 1
    params = {a.arg for a in func.args.args + func.args.kwonlyargs}
    rebound = {t.attr for n in walk(func) if isinstance(n, ast.Assign)
               for t in n.targets if is_self_attr(t)}
    mapping = {}
    for n in walk(func):
        if isinstance(n, ast.Assign) and len(n.targets) == 1 \
                and isinstance(n.targets[0], ast.Name) \
                and is_self_attr(n.value) \
                and stores.get(n.targets[0].id) == 1 \
                and n.targets[0].id not in params \
                and n.value.attr not in rebound:
            mapping[n.targets[0].id] = n.value
    if not mapping:
        return func
    new = _clone(func)

    class T(ast.NodeTransformer):
        def visit_Name(self, node):
            if isinstance(node.ctx, ast.Load) and node.id in mapping:
                return ast.copy_location(_clone(mapping[node.id]), node)
            return node
    T().visit(new)
    ast.fix_missing_locations(new)
    _relink(new, getattr(func, "parent", None))
    if hasattr(func, "expanded_from"):
        new.expanded_from = func.expanded_from
    return new


def wfunc(repo, rel, qual):
    """function with calls to private helpers expanded (one level), locals
    that alias `self.<attr>` resolved and counted while-loops written as
    for-range loops"""
    f0 = repo.func(rel, qual)
    f = expand_private_calls(repo, rel, f0)
    g = scalarise_records(repo, rel, f)
    if g is not f:
        # record fields became locals that are copied around
        g = propagate_copies(g)
    return _counted_while_to_for(_deref_aliases(g))


# ----------------------------------------------------------------------
# the resize-and-append frame shared by write_ndarray and write_text

class Frame:
    pass


def _assigned_names(stmts):
    out = {}
    for st in stmts:
        for n in walk(st):
            if isinstance(n, ast.Assign):
                for t in n.targets:
                    if isinstance(t, ast.Name):
                        out.setdefault(t.id, []).append(n)
    return out


def find_frame(func):
    """Locate dataset variable D, offset variable O and the if/else that
    creates the dataset or opens the existing one."""
    fr = Frame()
    creates = [n for n in walk(func) if isinstance(n, ast.Assign)
               and len(n.targets) == 1 and isinstance(n.targets[0], ast.Name)
               and isinstance(n.value, ast.Call)
               and last_attr(n.value) == "create_dataset"]
    if len(creates) != 1:
        raise AnalysisError(f"{func.name}: expected one create_dataset "
                            f"binding, found {len(creates)}")
    fr.create = creates[0]
    fr.D = fr.create.targets[0].id
    opens = [n for n in walk(func) if isinstance(n, ast.Assign)
             and len(n.targets) == 1 and isinstance(n.targets[0], ast.Name)
             and n.targets[0].id == fr.D and isinstance(n.value, ast.Subscript)]
    if len(opens) != 1:
        raise AnalysisError(f"{func.name}: expected one binding of "
                            f"`{fr.D}` to the existing dataset")
    fr.open = opens[0]
    fr.group = txt(fr.open.value.value)
    fr.key = txt(fr.open.value.slice)
    # the if/else holding both
    fr.branch = None
    for a in ancestors(fr.create):
        if isinstance(a, ast.If):
            in_body = any(fr.open is x for s in a.body for x in walk(s))
            in_else = any(fr.open is x for s in a.orelse for x in walk(s))
            if in_body or in_else:
                fr.branch = a
                fr.create_block = a.orelse if in_body else a.body
                fr.open_block = a.body if in_body else a.orelse
                break
        if a is func:
            break
    if fr.branch is None:
        raise AnalysisError(f"{func.name}: create / open-existing branches "
                            f"not found")
    t = fr.branch.test
    ok = isinstance(t, ast.Compare) and len(t.ops) == 1 and isinstance(
        t.ops[0], (ast.In, ast.NotIn)) and txt(t.left) == fr.key \
        and txt(t.comparators[0]) == fr.group
    if not ok:
        raise AnalysisError(f"{func.name}: branch test `{short(t, 40)}` is "
                            f"not a membership test of the dataset name")
    fr.create_when_absent = isinstance(t.ops[0], ast.NotIn) == (
        fr.create_block is fr.branch.body)
    a1 = _assigned_names(fr.create_block)
    a2 = _assigned_names(fr.open_block)
    common = (set(a1) & set(a2)) - {fr.D}
    if len(common) != 1:
        raise AnalysisError(f"{func.name}: offset variable not identified "
                            f"(candidates {sorted(common)})")
    fr.O = common.pop()
    fr.o_create = a1[fr.O]
    fr.o_open = a2[fr.O]
    fr.resizes = [c for c in find_calls(func, attr="resize")
                  if isinstance(c.func, ast.Attribute)
                  and isinstance(c.func.value, ast.Name)
                  and c.func.value.id == fr.D]
    if not fr.resizes:
        raise AnalysisError(f"{func.name}: no resize of `{fr.D}`")
    fr.stores = [n for n in walk(func) if isinstance(n, ast.Assign)
                 and len(n.targets) == 1
                 and isinstance(n.targets[0], ast.Subscript)
                 and isinstance(n.targets[0].value, ast.Name)
                 and n.targets[0].value.id == fr.D]
    if not fr.stores:
        raise AnalysisError(f"{func.name}: no store into `{fr.D}`")
    return fr


def _stmt_of(node):
    n = node
    while not isinstance(n, ast.stmt):
        n = n.parent
    return n


def _loop_of(node, func):
    for a in ancestors(node):
        if a is func:
            return None
        if isinstance(a, (ast.For, ast.While)):
            return a
    return None


def is_stored_len(node, D):
    """D.shape[0] or len(D)"""
    return is_len_of(node, {D})


def r11_frame(ctx, func, fr, sym, tag):
    """R1.1 for one function; returns the analysed stores"""
    cfg = CFG(func)
    off = S("off")
    sym.bind[fr.O] = off
    sym.dset = fr.D
    # -- create side
    ok = fr.create_when_absent
    ctx.ob("R1.1", ok, "the dataset is created exactly when the name is "
           "absent" if ok else "create / open-existing branches are swapped",
           node=fr.branch, label=f"{tag}: create iff absent")
    v = [a.value for a in fr.o_create]
    ok = len(v) == 1 and isinstance(v[0], ast.Constant) and v[0].value == 0 \
        and not isinstance(v[0].value, bool)
    ctx.ob("R1.1", ok, "a new dataset is filled from offset 0" if ok else
           f"offset of a new dataset is `{short(v[0], 30)}`, not 0",
           node=fr.o_create[0], label=f"{tag}: new dataset offset 0")
    shape = kwarg(fr.create.value, "shape", 1)
    if shape is None:
        raise AnalysisError(f"{func.name}: create_dataset without shape")
    if isinstance(shape, ast.Attribute) and shape.attr == "shape" \
            and isinstance(shape.value, ast.Name) \
            and shape.value.id in sym.data_names:
        ok, got = True, "data.shape"
    elif isinstance(shape, ast.Tuple) and shape.elts:
        r = sym.rat(shape.elts[0])
        ok, got = r.same(sym.L), show(r)
    else:
        raise AnalysisError(f"{func.name}: shape `{short(shape, 40)}` not "
                            f"recognised")
    ctx.ob("R1.1", ok, "a new dataset has the length of the data" if ok
           else f"a new dataset gets length {got}, not the length of the "
           f"data", node=fr.create, label=f"{tag}: new dataset length")
    # -- open side (the offset may be a copy of the local that read the
    # stored length: the read is what counts, also for the ordering)
    def origin(a):
        hops = 0
        while isinstance(a.value, ast.Name) and hops < 5:
            ds = [n for n in walk(func) if isinstance(n, ast.Assign)
                  and any(isinstance(t, ast.Name) and t.id == a.value.id
                          for t in n.targets)]
            if len(ds) != 1:
                break
            a = ds[0]
            hops += 1
        return a
    fr.o_open = [origin(a) for a in fr.o_open]
    v = [a.value for a in fr.o_open]
    ok = len(v) == 1 and is_stored_len(v[0], fr.D)
    ctx.ob("R1.1", ok, "the append offset is the stored length" if ok else
           f"append offset is `{short(v[0], 40)}`, not the stored length "
           f"of `{fr.D}` – existing entries are overwritten or a gap is left",
           node=fr.o_open[0], label=f"{tag}: offset is stored length")
    o_ids = set()
    for a in fr.o_open:
        o_ids |= set(cfg.ids_of(a))
    for rz in fr.resizes:
        r_ids = cfg.ids_of(_stmt_of(rz))
        before = all(cfg.always_before(i, lambda n: n.id in o_ids
                                       or n.ast in fr.o_create)
                     for i in r_ids)
        after = bool(o_ids & cfg.reach(r_ids))
        ok = before and not after
        ctx.ob("R1.1", ok, "the offset is read before the dataset is "
               "resized" if ok else "the offset is read after the resize: "
               "it already includes the new entries, which are then written "
               "past the end", node=rz,
               label=f"{tag}: offset read before resize")
        size = kwarg(rz, "size", 0)
        axis = kwarg(rz, "axis", 1)
        if isinstance(size, ast.Tuple) and axis is None and size.elts:
            size = size.elts[0]
        elif axis is None or not (isinstance(axis, ast.Constant)
                                  and axis.value == 0):
            raise AnalysisError(f"{func.name}: resize form "
                                f"`{short(rz, 50)}` not recognised")

        def special_len_d(node, s, D=fr.D):
            if is_stored_len(node, D):
                return off
            return None
        keep = sym.special
        sym.special = (lambda node, s, k=keep: special_len_d(node, s)
                       or (k(node, s) if k else None))
        try:
            r = sym.rat(size)
        finally:
            sym.special = keep
        ok = (r - off).same(sym.L)
        ctx.ob("R1.1", ok, "the dataset grows by the length of the new data"
               if ok else f"the dataset is resized to {show(r)} instead of "
               f"off + len(data)", node=rz, label=f"{tag}: resize amount")
    # -- stores
    out = []
    for k, st in enumerate(sorted(fr.stores, key=lambda s: s.lineno)):
        tgt = st.targets[0]
        sl = tgt.slice
        loop = _loop_of(st, func)
        rec = {"stmt": st, "loop": loop}
        lab = f"{tag}: store {k} at offset"
        if isinstance(sl, ast.Slice):
            if sl.step is not None:
                raise AnalysisError(f"{func.name}: strided store "
                                    f"`{short(st, 50)}`")
            rhs = st.value
            if isinstance(rhs, ast.Name) and rhs.id in sym.data_names:
                s_lo, s_hi = None, None
                rec["whole"] = True
            elif isinstance(rhs, ast.Subscript) and isinstance(
                    rhs.value, ast.Name) and rhs.value.id in sym.data_names \
                    and isinstance(rhs.slice, ast.Slice) \
                    and rhs.slice.step is None:
                s_lo, s_hi = rhs.slice.lower, rhs.slice.upper
                rec["whole"] = False
            else:
                raise AnalysisError(f"{func.name}: source of "
                                    f"`{short(st, 50)}` not recognised")

            def bounds(sl=sl, s_lo=s_lo, s_hi=s_hi):
                d_lo = sym.rat(sl.lower) if sl.lower is not None else K(0)
                d_hi = sym.rat(sl.upper) if sl.upper is not None \
                    else off + sym.L
                a = sym.rat(s_lo) if s_lo is not None else K(0)
                b = sym.rat(s_hi) if s_hi is not None else sym.L
                return d_lo, d_hi, a, b
            if loop is not None:
                if not (isinstance(loop, ast.For)
                        and isinstance(loop.target, ast.Name)):
                    raise AnalysisError(f"{func.name}: loop form around "
                                        f"`{short(st, 40)}` not recognised")
                sym.bind[loop.target.id] = _loop_value(sym, loop, S("i"))
            d_lo, d_hi, a, b = bounds()
            ok = (d_lo - off).same(a) and (d_hi - off).same(b)
            ctx.ob("R1.1", ok,
                   f"destination [{show(d_lo)}, {show(d_hi)}) = offset + "
                   f"source [{show(a)}, {show(b)})" if ok else
                   f"destination [{show(d_lo)}, {show(d_hi)}) is not offset "
                   f"+ source [{show(a)}, {show(b)})", node=st, label=lab)
            rec["bounds"] = bounds
        else:
            # single index inside `for i, x in enumerate(data)`
            en = loop.iter if isinstance(loop, ast.For) else None
            start = None
            if isinstance(en, ast.Call) and call_name(en) == "enumerate":
                start = kwarg(en, "start", 1)
            ok_loop = (isinstance(en, ast.Call)
                       and call_name(en) == "enumerate"
                       and 1 <= len(en.args) <= 2
                       and all(k.arg == "start" for k in en.keywords)
                       and isinstance(en.args[0], ast.Name)
                       and en.args[0].id in sym.data_names
                       and isinstance(loop.target, ast.Tuple)
                       and len(loop.target.elts) == 2
                       and all(isinstance(e, ast.Name)
                               for e in loop.target.elts))
            if not ok_loop:
                raise AnalysisError(f"{func.name}: element store "
                                    f"`{short(st, 50)}` is not inside "
                                    f"`for i, x in enumerate(<data>)`")
            ivar, xvar = [e.id for e in loop.target.elts]
            # enumerate(data, start=s) counts s, s + 1, …
            sym.bind[ivar] = S("i") + (sym.rat(start) if start is not None
                                       else K(0))
            idx = sym.rat(sl)
            ok = (idx - off).same(S("i")) and isinstance(
                st.value, ast.Name) and st.value.id == xvar
            ctx.ob("R1.1", ok, "element i of the new data goes to position "
                   "offset + i" if ok else
                   f"element `{short(st.value, 20)}` is stored at "
                   f"{show(idx)}, not at off + i", node=st, label=lab)
        out.append(rec)
    return out


# ----------------------------------------------------------------------
# R1.2

def _loop_value(sym, loop, i):
    """value of the loop variable in iteration `i` of `for v in range(..)`
    (start + step * i); plain `i` for other loops"""
    it = loop.iter
    if isinstance(it, ast.Call) and call_name(it) == "range" \
            and not it.keywords and len(it.args) == 3:
        return sym.rat(it.args[0]) + sym.rat(it.args[2]) * i
    if isinstance(it, ast.Call) and call_name(it) == "range" \
            and not it.keywords and len(it.args) == 2:
        return sym.rat(it.args[0]) + i
    return i


def _r12_stepped(ctx, func, sym, stores, tile, loop):
    """`for lo in range(0, len, c)` with tile [lo, min(lo + c, len))"""
    c, q, r = S("c"), S("q"), S("r")
    L = sym.L
    it = loop.iter
    a0, stop, step = [sym.rat(x) for x in it.args]
    ivar = loop.target.id

    def at(val, mode):
        sym.bind[ivar] = a0 + step * val
        sym.min_mode = mode
        try:
            _, _, a, b = tile["bounds"]()
        finally:
            sym.bind[ivar] = a0 + step * S("i")
            sym.min_mode = "full"
        return a, b
    i = S("i")
    lo_i, hi_i = at(i, "full")
    lo_0, _ = at(K(0), "full")
    lo_n, _ = at(i + K(1), "full")
    lo_q, hi_q = at(q, "last")
    _, hi_q_full = at(q, "full")
    rest = [s_ for s_ in stores if s_["loop"] is None and "bounds" in s_
            and not s_["whole"]]
    if rest:
        raise AnalysisError(f"{func.name}: stepped chunk loop plus a "
                            f"separate remainder store")
    ok = lo_0.same(K(0))
    ctx.ob("R1.2", ok, "the first tile starts at event 0" if ok else
           f"the first tile starts at {show(lo_0)}", node=tile["stmt"],
           label="tiles start at 0")
    ok = hi_i.same(lo_n)
    ctx.ob("R1.2", ok, "a full tile ends where the next tile starts (no "
           "gap, no overlap)" if ok else f"tile i ends at {show(hi_i)} but "
           f"tile i+1 starts at {show(lo_n)}", node=tile["stmt"],
           label="tiles contiguous")
    w = hi_i - lo_i
    ok = w.same(c) and step.same(c)
    ctx.ob("R1.2", ok, "full tiles have the chunk length and the loop "
           "advances by it" if ok else f"tile width is {show(w)}, the loop "
           f"advances by {show(step)}; chunk length is c",
           node=tile["stmt"], label="tile width is chunk length")
    ok = stop.same(L)
    ctx.ob("R1.2", ok, "the loop starts a tile for every multiple of the "
           "chunk length below len(data)" if ok else
           f"the loop stops at {show(stop)}, not at len(data)", node=loop,
           label="number of tiles")
    ok = lo_q.same(c * q)
    ctx.ob("R1.2", ok, "the last (partial) tile starts where the full "
           "tiles end" if ok else f"the partial tile starts at "
           f"{show(lo_q)}, the full tiles end at c*q", node=tile["stmt"],
           label="remainder start")
    if hi_q.same(hi_q_full) and not hi_q.same(L):
        # no min(): the partial tile relies on slice clipping
        raise AnalysisError(f"{func.name}: stepped chunk loop without "
                            f"min(<end>, len(data)) – relies on clipping")
    ok = hi_q.same(L)
    ctx.ob("R1.2", ok, "the last (partial) tile ends at len(data)" if ok
           else f"the partial tile ends at {show(hi_q)}, not at len(data)",
           node=tile["stmt"], label="remainder end")
    # range(0, len, c) has an iteration at c*q exactly when len % c > 0,
    # and then min(c*q + c, c*q + r) = c*q + r because r < c
    guards = [a for a in ancestors(tile["stmt"]) if isinstance(a, ast.If)
              and any(a is x for x in walk(loop))]
    ok = not guards
    ctx.ob("R1.2", ok, "the partial tile is written exactly when "
           "len % chunk > 0 (range semantics)" if ok else
           f"the tile store is conditional (`{short(guards[0].test, 30)}`)",
           node=tile["stmt"], label="remainder guard")


def r12(ctx, func, fr, sym, stores):
    c, q, r = S("c"), S("q"), S("r")
    L = sym.L
    looped = [s for s in stores if s["loop"] is not None and "bounds" in s]
    loops = {id(s["loop"]): s["loop"] for s in looped}
    if len(loops) != 1 or len(looped) != 1:
        raise AnalysisError(f"{func.name}: expected one chunk loop with one "
                            f"store, found {len(loops)} / {len(looped)}")
    tile = looped[0]
    loop = tile["loop"]
    it = loop.iter
    if not (isinstance(it, ast.Call) and call_name(it) == "range"
            and not it.keywords and 1 <= len(it.args) <= 3):
        raise AnalysisError(f"{func.name}: chunk loop does not iterate a "
                            f"range")
    if len(it.args) == 3 and not sym.rat(it.args[2]).same(K(1)):
        return _r12_stepped(ctx, func, sym, stores, tile, loop)
    if len(it.args) >= 2 and not sym.rat(it.args[0]).same(K(0)):
        raise AnalysisError(f"{func.name}: chunk loop range with a start")
    E = sym.rat(it.args[-1] if len(it.args) == 1 else it.args[1])
    ivar = loop.target.id

    def at(val):
        sym.bind[ivar] = val
        try:
            _, _, a, b = tile["bounds"]()
        finally:
            sym.bind[ivar] = S("i")
        return a, b
    i = S("i")
    lo_i, hi_i = at(i)
    lo_0, _ = at(K(0))
    lo_n, _ = at(i + K(1))
    lo_E, _ = at(E)
    ok = lo_0.same(K(0))
    ctx.ob("R1.2", ok, "the first tile starts at event 0" if ok else
           f"the first tile starts at {show(lo_0)}", node=tile["stmt"],
           label="tiles start at 0")
    ok = hi_i.same(lo_n)
    ctx.ob("R1.2", ok, "tile i ends where tile i+1 starts (no gap, no "
           "overlap)" if ok else f"tile i ends at {show(hi_i)} but tile i+1 "
           f"starts at {show(lo_n)}", node=tile["stmt"],
           label="tiles contiguous")
    w = hi_i - lo_i
    ok = w.same(c)
    ctx.ob("R1.2", ok, "every tile has the chunk length" if ok else
           f"tile width is {show(w)}, not the chunk length", node=tile["stmt"],
           label="tile width is chunk length")
    ok = E.same(q)
    ctx.ob("R1.2", ok, "the loop runs len // chunk times" if ok else
           f"the loop runs {show(E)} times, not len // chunk = q",
           node=loop, label="number of tiles")
    rem = L - lo_E        # events left after the loop
    rest = [s for s in stores if s["loop"] is None and "bounds" in s
            and not s["whole"]]
    if not rest:
        ok = rem.same(K(0))
        ctx.ob("R1.2", ok, "nothing is left after the loop" if ok else
               f"the {show(rem)} events after the last full chunk are never "
               f"written", node=loop, label="remainder written")
        return
    if len(rest) != 1:
        raise AnalysisError(f"{func.name}: {len(rest)} remainder stores")
    st = rest[0]
    _, _, a, b = st["bounds"]()
    ok = a.same(lo_E)
    ctx.ob("R1.2", ok, "the remainder starts where the last tile ends"
           if ok else f"the remainder starts at {show(a)}, the tiles end at "
           f"{show(lo_E)}", node=st["stmt"], label="remainder start")
    ok = b.same(L)
    ctx.ob("R1.2", ok, "the remainder ends at len(data)" if ok else
           f"the remainder ends at {show(b)}, not at len(data) = "
           f"{show(L)}", node=st["stmt"], label="remainder end")
    # guard: taken whenever events remain
    guards = []
    for anc in ancestors(st["stmt"]):
        if anc is func:
            break
        if isinstance(anc, ast.If):
            on_true = any(st["stmt"] is x for s in anc.body for x in walk(s))
            if not names_in(anc.test) & sym.data_names and not any(
                    is_len_of(n, sym.data_names) for n in ast.walk(anc.test)):
                try:
                    operands = [n for n in ast.walk(anc.test)
                                if isinstance(n, ast.Name)]
                    if not operands or not all(
                            sym.rat(n).same(rem) for n in operands):
                        continue
                except AnalysisError:
                    continue
            guards.append((anc, on_true))
    # guard clauses (`if not remain: return`): a test from which the store
    # is reachable through exactly one branch guards it just the same
    cfg_ = CFG(func)
    st_ids = set(cfg_.ids_of(st["stmt"]))
    for n_ in cfg_.nodes:
        if n_.kind != "test" or not isinstance(n_.ast, ast.If) \
                or any(n_.ast is g for g, _ in guards):
            continue
        if any(n_.ast is a for a in ancestors(st["stmt"])):
            continue
        via = {}
        for lab in ("T", "F"):
            succ = [b_ for (b_, l_) in cfg_.succ[n_.id] if l_ == lab]
            via[lab] = bool(st_ids & cfg_.reach(succ, include_sources=True))
        if via["T"] == via["F"]:
            continue
        try:
            operands = [x for x in ast.walk(n_.ast.test)
                        if isinstance(x, ast.Name)]
            if not operands or not all(
                    sym.rat(x).same(rem) for x in operands):
                continue
        except AnalysisError:
            continue
        guards.append((n_.ast, via["T"]))
    ok = True
    why = "the remainder is written whenever events remain"
    for g, on_true in guards:
        def res(node):
            if isinstance(node, (ast.Name, ast.BinOp, ast.Call,
                                 ast.Subscript)):
                try:
                    if sym.rat(node).same(rem):
                        return "x"
                except AnalysisError:
                    return None
            return None
        try:
            val = bool(eval_pred(g.test, {"x": 1.0}, res))
        except AnalysisError:
            # a guard over something else (e.g. the dimension test)
            continue
        if val != on_true:
            ok = False
            why = (f"guard `{short(g.test, 40)}` skips the remainder although "
                   f"{show(rem)} > 0 events remain")
    ctx.ob("R1.2", ok, why, node=st["stmt"], label="remainder guard")


# ----------------------------------------------------------------------
# R1.3

def _binds(n, var):
    """CFG node `n` (re-)binds the plain name `var`"""
    if n.ast is None or var is None:
        return False
    if n.kind == "stmt" and isinstance(n.ast, ast.Assign):
        return any(isinstance(x, ast.Name) and x.id == var
                   for t in n.ast.targets for x in ast.walk(t)
                   if isinstance(x, ast.Name)
                   and isinstance(x.ctx, ast.Store))
    if n.kind == "stmt" and isinstance(n.ast, (ast.AugAssign,
                                                ast.AnnAssign)):
        return isinstance(n.ast.target, ast.Name) and n.ast.target.id == var
    if n.kind == "for":
        return var in names_in(n.ast.target)
    if n.kind == "with_enter":
        return any(it.optional_vars is not None
                   and var in names_in(it.optional_vars)
                   for it in n.ast.items)
    return False


def reaching_defs(cfg, var, stmt):
    """ids of the CFG nodes whose binding of `var` can reach `stmt`
    ('param' for the value at function entry)"""
    tids = set(cfg.ids_of(stmt))
    if not tids:
        raise AnalysisError("reaching definitions: statement not in CFG")

    def is_def(n):
        return _binds(n, var)
    out = set()
    for n in cfg.nodes:
        if is_def(n) and tids & cfg.reach([n.id], avoid_node=is_def):
            out.add(n.id)
    if tids & cfg.reach([cfg.entry], avoid_node=is_def):
        out.add("param")
    return out


def _is_bytes_fact(e, truth, var):
    """the branch fact (e, truth) says isinstance(var, bytes)"""
    return (truth and isinstance(e, ast.Call)
            and call_name(e) == "isinstance" and len(e.args) == 2
            and isinstance(e.args[0], ast.Name) and e.args[0].id == var
            and "bytes" in txt(e.args[1]))


def _lines_param(func):
    """name of the parameter of write_text that holds the lines"""
    params = [a.arg for a in func.args.args]
    if len(params) != 4:
        raise AnalysisError(f"{func.name}: signature changed: {params}")
    return params[3]


def r13(ctx, func, fr):
    cfg = CFG(func)
    D = fr.D
    # width variable of a new dataset
    dt = kwarg(fr.create.value, "dtype", 2)
    M = None
    if isinstance(dt, ast.JoinedStr):
        parts = dt.values
        if len(parts) == 2 and const_str(parts[0]) == "S" and isinstance(
                parts[1], ast.FormattedValue) and isinstance(
                parts[1].value, ast.Name) and parts[1].format_spec is None:
            M = parts[1].value.id
    elif isinstance(dt, ast.Call) and last_attr(dt) == "format" \
            and const_str(dt.func.value) == "S{}" and len(dt.args) == 1 \
            and isinstance(dt.args[0], ast.Name):
        M = dt.args[0].id
    if M is None:
        raise AnalysisError(f"write_text: dtype `{short(dt, 40)}` of the new "
                            f"dataset not recognised")
    upd = [n for n in walk(func) if isinstance(n, (ast.Assign, ast.AugAssign))
           and any(isinstance(t, ast.Name) and t.id == M for t in (
               n.targets if isinstance(n, ast.Assign) else [n.target]))
           and _loop_of(n, func) is not None]
    if len(upd) > 1:
        raise AnalysisError(f"write_text: {len(upd)} updates of `{M}` in "
                            f"loops")
    if upd:
        _r13_loop_form(ctx, func, fr, cfg, M, upd)
    else:
        _r13_comprehension_form(ctx, func, fr, cfg, M)
    _r13_guard(ctx, func, fr, cfg, M)


def _stored_lists(func, fr):
    """names of the lists whose elements are stored (enumerate(<list>))"""
    out = set()
    for st in fr.stores:
        lp = _loop_of(st, func)
        if isinstance(lp, ast.For) and isinstance(lp.iter, ast.Call) \
                and lp.iter.args and isinstance(lp.iter.args[0], ast.Name):
            out.add(lp.iter.args[0].id)
    return out


def _encoded_elt(elt, var):
    """`elt` is the encoded form of comprehension variable `var`:
    var.encode(..) or a conditional that passes bytes through"""
    def is_enc(e):
        return isinstance(e, ast.Call) and last_attr(e) == "encode" \
            and isinstance(e.func, ast.Attribute) \
            and isinstance(e.func.value, ast.Name) and e.func.value.id == var

    def is_var(e):
        return isinstance(e, ast.Name) and e.id == var
    if is_enc(elt):
        return True
    if isinstance(elt, ast.IfExp):
        t = elt.test
        neg = False
        if isinstance(t, ast.UnaryOp) and isinstance(t.op, ast.Not):
            t, neg = t.operand, True
        if _is_bytes_fact(t, True, var):
            raw, enc = (elt.orelse, elt.body) if neg else (elt.body,
                                                           elt.orelse)
            return is_var(raw) and is_enc(enc)
    return False


def _width_sources(e, M):
    """items of a `max(...)` expression: ('const', v), ('keep',) for the
    width variable itself, ('lens', list name, elt ok, filtered)"""
    if isinstance(e, ast.Call) and call_name(e) == "max" and not e.keywords:
        out = []
        for a in e.args:
            out += _width_sources(a, M)
        return out
    if isinstance(e, ast.Starred):
        return _width_sources(e.value, M)
    if isinstance(e, ast.BinOp) and isinstance(e.op, ast.Add):
        return _width_sources(e.left, M) + _width_sources(e.right, M)
    if isinstance(e, (ast.List, ast.Tuple)):
        out = []
        for x in e.elts:
            out += _width_sources(x, M)
        return out
    if isinstance(e, ast.Constant) and isinstance(e.value, int):
        return [("const", e.value)]
    if isinstance(e, ast.Name) and e.id == M:
        return [("keep",)]
    if isinstance(e, (ast.ListComp, ast.GeneratorExp)) \
            and len(e.generators) == 1:
        g = e.generators[0]
        if isinstance(g.target, ast.Name) and isinstance(g.iter, ast.Name):
            elt_ok = isinstance(e.elt, ast.Call) and call_name(
                e.elt) == "len" and len(e.elt.args) == 1 and isinstance(
                e.elt.args[0], ast.Name) and e.elt.args[0].id == g.target.id
            return [("lens", g.iter.id, elt_ok, bool(g.ifs))]
    raise AnalysisError(f"write_text: width expression part "
                        f"`{short(e, 40)}` not recognised")


_WIDTH_SAMPLES = [
    [],
    ["short"],
    ["x" * 150, "tail"],
    ["a", "\u00e4" * 80, "b" * 101],          # 160 bytes, 80 characters
    ["\u20ac" * 120, "z" * 250, ""],           # 360 bytes, 120 characters
]


def _pure_eval(e, env, func, depth=0):
    """evaluate a side-effect free expression over ints / strings / bytes /
    lists built from `env`, single-assignment locals and a few builtins;
    anything else is an AnalysisError (nothing of the repository runs)"""
    import itertools as _it
    if depth > 25:
        raise AnalysisError("width expression too deep")

    def ev(x, env_=None):
        return _pure_eval(x, env if env_ is None else env_, func, depth + 1)
    if isinstance(e, ast.Constant) and isinstance(
            e.value, (int, str, bytes, type(None), bool)):
        return e.value
    if isinstance(e, ast.Name):
        if e.id in env:
            return env[e.id]
        defs = [n for n in walk(func) if isinstance(n, ast.Assign)
                and any(isinstance(t, ast.Name) and t.id == e.id
                        for t in n.targets)]
        if len(defs) == 1:
            return ev(defs[0].value)
        raise AnalysisError(f"width expression: `{e.id}` not evaluable")
    if isinstance(e, (ast.List, ast.Tuple)):
        out = []
        for x in e.elts:
            if isinstance(x, ast.Starred):
                out += list(ev(x.value))
            else:
                out.append(ev(x))
        return out
    if isinstance(e, ast.BinOp) and isinstance(e.op, (ast.Add, ast.Sub)):
        a, b = ev(e.left), ev(e.right)
        if isinstance(e.op, ast.Sub):
            if isinstance(a, int) and isinstance(b, int):
                return a - b
            raise AnalysisError("width expression: subtraction")
        if type(a) is type(b) and isinstance(a, (int, list)):
            return a + b
        raise AnalysisError("width expression: addition of mixed types")
    if isinstance(e, ast.IfExp):
        return ev(e.body) if ev(e.test) else ev(e.orelse)
    if isinstance(e, ast.Compare) and len(e.ops) == 1:
        a, b = ev(e.left), ev(e.comparators[0])
        try:
            return _cmp_py(e.ops[0], a, b)
        except TypeError:
            raise AnalysisError("width expression: comparison")
    if isinstance(e, (ast.ListComp, ast.GeneratorExp)) \
            and len(e.generators) == 1 and isinstance(
            e.generators[0].target, ast.Name):
        g = e.generators[0]
        out = []
        for item in list(ev(g.iter)):
            env2 = dict(env)
            env2[g.target.id] = item
            if all(ev(c, env2) for c in g.ifs):
                out.append(ev(e.elt, env2))
        return out
    if isinstance(e, ast.Call):
        nm = call_name(e) or ""
        args = []
        for a in e.args:
            if isinstance(a, ast.Starred):
                args += list(ev(a.value))
            else:
                args.append(a)
        if nm == "isinstance" and len(e.args) == 2:
            want = {"bytes": bytes, "str": str}.get(txt(e.args[1]))
            if want is None:
                raise AnalysisError("width expression: isinstance")
            return isinstance(ev(e.args[0]), want)
        if nm == "map" and len(e.args) == 2 and txt(e.args[0]) == "len":
            return [len(x) for x in ev(e.args[1])]
        vals = [a if not isinstance(a, ast.AST) else ev(a) for a in args]
        kw = {k.arg: ev(k.value) for k in e.keywords}
        if nm in ("max", "min") and set(kw) <= {"default"}:
            try:
                return (max if nm == "max" else min)(*vals, **kw)
            except (TypeError, ValueError):
                raise AnalysisError(f"width expression: {nm}() of "
                                    f"{vals!r:.40}")
        if nm == "len" and len(vals) == 1 and not kw:
            return len(vals[0])
        if nm in ("list", "tuple", "sorted") and len(vals) == 1 and not kw:
            return sorted(vals[0]) if nm == "sorted" else list(vals[0])
        if nm in ("itertools.chain", "chain") and not kw:
            return list(_it.chain(*vals))
        if nm in ("itertools.chain.from_iterable", "chain.from_iterable") \
                and len(vals) == 1:
            return list(_it.chain.from_iterable(vals[0]))
        if nm == "sum" and len(vals) == 1 and not kw:
            return sum(vals[0])
        if isinstance(e.func, ast.Attribute) and e.func.attr == "encode" \
                and len(vals) <= 1 and not kw:
            obj = ev(e.func.value)
            if isinstance(obj, str):
                return obj.encode(*vals)
            raise AnalysisError("width expression: encode of non-str")
    raise AnalysisError(f"width expression part `{short(e, 40)}` cannot be "
                        f"evaluated")


def _cmp_py(op, a, b):
    if isinstance(op, ast.Lt):
        return a < b
    if isinstance(op, ast.LtE):
        return a <= b
    if isinstance(op, ast.Gt):
        return a > b
    if isinstance(op, ast.GtE):
        return a >= b
    if isinstance(op, ast.Eq):
        return a == b
    if isinstance(op, ast.NotEq):
        return a != b
    if isinstance(op, ast.Is):
        return a is b
    if isinstance(op, ast.IsNot):
        return a is not b
    raise AnalysisError("width expression: comparison operator")


def _width_by_evaluation(expr, func, LIST, M):
    """the width expression, evaluated with `lines` = sample lines and
    LIST = their UTF-8 encodings, is at least the longest encoded line for
    every sample"""
    lines = _lines_param(func)
    for sample in _WIDTH_SAMPLES:
        enc = [x.encode("utf-8") for x in sample]
        env = {lines: list(sample), LIST: enc}
        val = _pure_eval(expr, env, func)
        if not isinstance(val, int) or isinstance(val, bool):
            raise AnalysisError(f"write_text: `{M}` does not evaluate to a "
                                f"number")
        need = max([len(b) for b in enc] + [0])
        if val < need:
            return False, (
                f"`{M}` = `{short(expr, 50)}` evaluates to {val} for lines "
                f"whose longest encoding has {need} bytes: the dataset is "
                f"created too narrow")
    return True, ""


def _r13_comprehension_form(ctx, func, fr, cfg, M):
    """M = max(<constants> + [len(b) for b in LIST]) with LIST the stored
    list of encoded lines"""
    defs = [n for n in walk(func) if isinstance(n, ast.Assign)
            and any(isinstance(t, ast.Name) and t.id == M
                    for t in n.targets)]
    wide = [d for d in defs if not isinstance(d.value, ast.Constant)]
    if len(wide) != 1:
        raise AnalysisError(f"write_text: definition of `{M}` not "
                            f"recognised")
    wdef = wide[0]
    stored = _stored_lists(func, fr)
    if len(stored) != 1:
        raise AnalysisError("write_text: stored list not identified")
    LIST = next(iter(stored))
    try:
        items = _width_sources(wdef.value, M)
        lens = [it for it in items if it[0] == "lens"]
        ok = any(it[1] == LIST and it[2] and not it[3] for it in lens)
        why = (f"`{M}` = `{short(wdef.value, 50)}` does not take the "
               f"length of every element of `{LIST}`")
    except AnalysisError:
        # not one of the listed shapes: evaluate the expression on a family
        # of line lists (raw lines and their encodings; multi-byte
        # characters make the two lengths differ)
        ok, why = _width_by_evaluation(wdef.value, func, LIST, M)
    ctx.ob("R1.3", ok, f"`{M}` is the maximum over every stored line" if ok
           else why, node=wdef, label="width is max over all lines")
    if not ok:
        return
    # the measured list is the stored list: same reaching definitions and
    # no growth in between
    store_loop = [_loop_of(st, func) for st in fr.stores][0]
    rd_m = reaching_defs(cfg, LIST, wdef)
    rd_s = reaching_defs(cfg, LIST, store_loop)
    after = cfg.reach(cfg.ids_of(wdef))
    grows = [c for c in walk(func) if isinstance(c, ast.Call)
             and last_attr(c) in ("append", "extend", "insert")
             and isinstance(c.func, ast.Attribute)
             and isinstance(c.func.value, ast.Name)
             and c.func.value.id == LIST
             and set(cfg.ids_of(_stmt_of(c))) & after]
    ok = rd_m == rd_s and not grows and "param" not in rd_s
    ctx.ob("R1.3", ok, f"the width is measured on the elements of `{LIST}` "
           f"that are stored" if ok else
           f"`{LIST}` changes between the width measurement and the store",
           node=wdef, label="width measured on stored bytes")
    ok, bad = _list_holds_encoded(func, fr, cfg, LIST, rd_s)
    ctx.ob("R1.3", ok, f"`{LIST}` holds the encoded line for every line "
           f"(bytes pass through)" if ok else
           f"`{LIST}` is not the list of encoded lines "
           f"(`{short(bad[0].ast, 50) if bad else '?'}`)", node=wdef,
           label="stored object is encoded")


def _list_holds_encoded(func, fr, cfg, LIST, rd_s):
    """every definition of LIST in `rd_s` builds the list of encoded lines
    (comprehension over the lines, or one append per line)"""
    bad = []
    n_ok = 0
    lines = _lines_param(func)
    for i in sorted(x for x in rd_s if isinstance(x, int)):
        n = cfg.nodes[i]
        v = n.ast.value if n.kind == "stmt" and isinstance(
            n.ast, ast.Assign) else None
        if isinstance(v, ast.ListComp) and len(v.generators) == 1 \
                and not v.generators[0].ifs \
                and isinstance(v.generators[0].target, ast.Name) \
                and isinstance(v.generators[0].iter, ast.Name) \
                and v.generators[0].iter.id == lines \
                and _encoded_elt(v.elt, v.generators[0].target.id):
            n_ok += 1
        elif isinstance(v, ast.List) and not v.elts \
                and _appended_value_check(None, func, fr, cfg, LIST):
            n_ok += 1
        else:
            bad.append(n)
    ok = not bad and n_ok >= 1 and "param" not in rd_s
    return ok, bad


def _appended_value_check(ctx, func, fr, cfg, LIST):
    """LIST is filled by one unconditional append per line with a value
    whose reaching definitions are all encoded (see the loop form)"""
    lines = _lines_param(func)
    for lp in walk(func):
        if isinstance(lp, ast.For) and isinstance(lp.iter, ast.Name) \
                and lp.iter.id == lines:
            apps = [st for st in lp.body if isinstance(st, ast.Expr)
                    and isinstance(st.value, ast.Call)
                    and last_attr(st.value) == "append"
                    and isinstance(st.value.func.value, ast.Name)
                    and st.value.func.value.id == LIST
                    and len(st.value.args) == 1
                    and isinstance(st.value.args[0], ast.Name)]
            if len(apps) == 1:
                Y = apps[0].value.args[0].id
                rd = reaching_defs(cfg, Y, apps[0])
                bad, n_enc = _unencoded_defs(cfg, rd, Y, apps[0])
                return not bad and n_enc >= 1
    return False


def _unencoded_defs(cfg, rd_a, Y, app_stmt):
    """definitions in `rd_a` through which an unencoded line can reach the
    append"""
    bad = []
    n_enc = 0
    for i in sorted(x for x in rd_a if isinstance(x, int)):
        n = cfg.nodes[i]
        if n.kind == "stmt" and isinstance(n.ast, ast.Assign) \
                and isinstance(n.ast.value, ast.Call) \
                and last_attr(n.ast.value) == "encode":
            n_enc += 1
            continue
        if n.kind == "stmt" and isinstance(n.ast, ast.Assign) \
                and isinstance(n.ast.value, ast.Name):
            # copy of the raw line: the copy itself must be bytes-guarded
            src = n.ast.value.id
            if guarded_by(cfg, i, lambda e, t, v=src: _is_bytes_fact(
                    e, t, v)):
                continue
            bad.append(n)
            continue
        if n.kind == "for":
            def est(src_n, lab, dst_n, v=Y):
                if src_n.kind != "test" or lab not in ("T", "F"):
                    return False
                return any(_is_bytes_fact(e, t, v) for e, t in branch_facts(
                    src_n.ast.test, lab == "T"))
            r = cfg.reach([i], avoid_node=lambda m, v=Y: _binds(m, v),
                          avoid_edge=est)
            if set(cfg.ids_of(app_stmt)) & r:
                bad.append(n)
            continue
        bad.append(n)
    if "param" in rd_a:
        bad.append(None)
    return bad, n_enc


def _r13_loop_form(ctx, func, fr, cfg, M, upd):
    """M = max(M, len(B)) unconditionally in a loop over all lines"""
    upd = upd[0]
    loop = upd.parent
    args = upd.value.args if isinstance(upd.value, ast.Call) and call_name(
        upd.value) == "max" and isinstance(upd, ast.Assign) else []
    lens = [a for a in args if isinstance(a, ast.Call)
            and call_name(a) == "len" and len(a.args) == 1
            and isinstance(a.args[0], ast.Name)]
    keeps = [a for a in args if isinstance(a, ast.Name) and a.id == M]
    ok = (isinstance(loop, ast.For) and upd in loop.body
          and isinstance(loop.iter, ast.Name)
          and loop.iter.id in {_lines_param(func)} | _stored_lists(func, fr)
          and len(args) == 2 and len(lens) == 1 and len(keeps) == 1)
    ctx.ob("R1.3", ok, f"`{M}` is the running maximum over every line"
           if ok else f"`{M}` is not updated as max({M}, len(<line>)) for "
           f"every line", node=upd, label="width is max over all lines")
    if not ok:
        return
    B = lens[0].args[0].id
    stored_lists = _stored_lists(func, fr)
    if isinstance(loop.iter, ast.Name) and loop.iter.id in stored_lists:
        # the loop runs over the stored list itself
        LIST = loop.iter.id
        store_loop = [_loop_of(st, func) for st in fr.stores][0]
        rd_m = reaching_defs(cfg, LIST, loop)
        rd_s = reaching_defs(cfg, LIST, store_loop)
        ok = isinstance(loop.target, ast.Name) and loop.target.id == B \
            and rd_m == rd_s
        ctx.ob("R1.3", ok, f"the width is measured on the elements of "
               f"`{LIST}` that are stored" if ok else
               f"the width is not measured on the stored elements of "
               f"`{LIST}`", node=upd, label="width measured on stored bytes")
        ok, bad = _list_holds_encoded(func, fr, cfg, LIST, rd_s)
        ctx.ob("R1.3", ok, f"`{LIST}` holds the encoded line for every line"
               if ok else f"`{LIST}` is not the list of encoded lines",
               node=upd, label="stored object is encoded")
        return
    # the measured object is what gets appended to the stored list, and it
    # is the encoded form
    apps = [c for c in find_calls(loop, attr="append")
            if isinstance(c.func.value, ast.Name) and len(c.args) == 1]
    apps = [c for c in apps if c.func.value.id in stored_lists]
    if len(apps) != 1:
        raise AnalysisError("write_text: the list of stored lines is not "
                            "filled by one append per line")
    app = apps[0]
    app_stmt = _stmt_of(app)
    Y = app.args[0].id if isinstance(app.args[0], ast.Name) else None
    # flow-sensitive: the value measured by len() must be the value that
    # is appended – same variable and the same reaching definitions
    rd_m = reaching_defs(cfg, B, upd)
    rd_a = reaching_defs(cfg, Y, app_stmt) if Y else set()
    same = Y == B and rd_m == rd_a and app_stmt in loop.body
    if Y != B:
        why = (f"the width is measured on `{B}` but "
               f"`{short(app.args[0], 20)}` is stored (encoded length may "
               f"differ)")
    elif rd_m != rd_a:
        late = sorted(short(cfg.nodes[i].ast, 40) if cfg.nodes[i].kind
                      != "for" else f"for {short(cfg.nodes[i].ast.target, 20)}"
                      for i in (rd_a - rd_m) if isinstance(i, int))
        why = (f"`{B}` is measured before it is re-bound by {late}: the "
               f"width counts characters of the unencoded line, the encoded "
               f"bytes are stored")
    else:
        why = "the line is not appended unconditionally"
    ctx.ob("R1.3", same, f"the width is measured on the value of `{B}` that "
           f"is stored ({len(rd_a)} reaching definition(s))" if same else why,
           node=upd, label="width measured on stored bytes")
    # every definition reaching the append is the encoded form; an
    # unencoded line passes only along a path that tested it to be bytes
    bad, n_enc = _unencoded_defs(cfg, rd_a, Y, app_stmt) if Y else ([None],
                                                                     0)
    ok = not bad and n_enc >= 1
    ctx.ob("R1.3", ok, f"`{Y}` is the encoded line where it is stored "
           f"(bytes pass through)" if ok else
           f"an unencoded line can reach `{short(app, 40)}`", node=app,
           label="stored object is encoded")


def _r13_guard(ctx, func, fr, cfg, M):
    D = fr.D
    # -- guard on the append path
    open_ids = cfg.ids_of(fr.open)
    store_ids = set()
    for st in fr.stores:
        store_ids |= set(cfg.ids_of(st))

    def width_of(node):
        return (isinstance(node, ast.Attribute) and node.attr == "itemsize"
                and D in names_in(node)) or (
            isinstance(node, ast.Attribute) and node.attr == "length"
            and D in names_in(node))

    def mentions_width(e):
        return any(width_of(n) for n in ast.walk(e))

    def res(node):
        if width_of(node):
            return "w"
        if isinstance(node, ast.Name) and node.id == M:
            return "m"
        if isinstance(node, ast.Compare) and len(node.ops) == 1 \
                and isinstance(node.left, ast.Attribute) \
                and node.left.attr == "kind" \
                and isinstance(node.comparators[0], ast.Constant):
            return "eq" if isinstance(node.ops[0], ast.Eq) else "ne"
        return None

    free_atoms = {}

    def res_free(node):
        """like res(); anything else that is not a connective of the
        predicate (writer mode, session flags, …) is a free boolean"""
        r_ = res(node)
        if r_ is not None:
            return r_
        if isinstance(node, (ast.BoolOp, ast.Constant)) or (
                isinstance(node, ast.UnaryOp)
                and isinstance(node.op, ast.Not)):
            return None
        if isinstance(node, ast.Compare) and any(
                res(x) is not None for x in ast.walk(node)):
            return None
        if isinstance(node, ast.BinOp) and any(
                res(x) is not None for x in ast.walk(node)):
            return None
        return free_atoms.setdefault(txt(node), f"u{len(free_atoms)}")

    def establishes(src, lab, dst):
        """taking this branch guarantees item size >= longest new line –
        for every ordering of the two and every value of the other atoms
        of the test (the guarantee must not depend on the writer mode)"""
        if src.kind != "test" or lab not in ("T", "F"):
            return False
        test = src.ast.test
        if not mentions_width(test):
            return False
        eval_pred(test, _Anything({"w": 1.0, "m": 1.0, "eq": True,
                                   "ne": False}), res_free)
        syms = sorted(free_atoms.values())
        good = True
        for bits in range(2 ** len(syms)):
            for env in orderings(["w", "m"]):
                e = dict(env)
                e["eq"], e["ne"] = True, False
                e.update({sy: bool(bits >> k_ & 1)
                          for k_, sy in enumerate(syms)})
                if bool(eval_pred(test, e, res_free)) == (lab == "T"):
                    if not e["w"] >= e["m"]:
                        good = False
        return good

    def rebinds(n):
        # D bound to a freshly created dataset
        return n.ast is fr.create and n.kind == "stmt"
    r = cfg.reach(open_ids, avoid_edge=establishes, avoid_node=rebinds)
    ok = not (store_ids & r)
    tests = [n for n in walk(func) if isinstance(n, (ast.If, ast.While))
             and mentions_width(n.test)]
    ctx.stat("R1.3 width tests found", len(tests))
    ctx.ob("R1.3", ok,
           "every store into an existing dataset is dominated by a test "
           "that its item size holds the longest new line" if ok else
           "lines are stored into an existing fixed-width dataset without "
           f"comparing its item size with `{M}`"
           + (f" (the test also depends on {sorted(free_atoms)}: when that "
              f"is false nothing is checked)" if free_atoms else "")
           + ": longer lines are silently truncated", node=fr.open,
           label="append path checks the item size")
    # M must not change after the existing dataset was opened
    m_ids = set()
    for n in walk(func):
        if isinstance(n, (ast.Assign, ast.AugAssign)) and M in [
                t.id for t in (n.targets if isinstance(n, ast.Assign)
                               else [n.target]) if isinstance(t, ast.Name)]:
            m_ids |= set(cfg.ids_of(n))
    ok = not (m_ids & cfg.reach(open_ids))
    ctx.ob("R1.3", ok, f"`{M}` is final when the existing dataset is opened"
           if ok else f"`{M}` changes after the existing dataset was "
           f"opened", node=fr.open, label="width final before open",
           nontrivial=False)
    # -- re-creation carries the old lines
    dels = [n for n in walk(func) if isinstance(n, ast.Delete)
            and set(cfg.ids_of(n)) & cfg.reach(open_ids)]
    for d in dels:
        d_ids = cfg.ids_of(d)
        reads = [n for n in walk(func) if isinstance(n, ast.Assign)
                 and len(n.targets) == 1
                 and isinstance(n.targets[0], ast.Name)
                 and n.targets[0].id != D
                 and D in names_in(n.value)
                 and (isinstance(n.value, ast.Subscript) or (
                     isinstance(n.value, ast.Call)
                     and call_name(n.value) in ("list", "tuple", "np.array",
                                                "np.asarray"))
                      or isinstance(n.value, ast.ListComp))]
        carried = False
        for rd in reads:
            rd_ids = set(cfg.ids_of(rd))
            if not all(cfg.always_before(i, lambda n: n.id in rd_ids)
                       for i in d_ids):
                continue
            name = rd.targets[0].id
            after = cfg.reach(d_ids)
            for n in walk(func):
                if isinstance(n, ast.Call) and last_attr(n) in (
                        "write_text",) and any(
                        name in names_in(a) for a in list(n.args) + [
                            k.value for k in n.keywords]) and set(
                        cfg.ids_of(_stmt_of(n))) & after:
                    carried = True
                if isinstance(n, ast.Assign) and n in fr.stores \
                        and name in names_in(n.value) | {
                            x for lp in [_loop_of(n, func)] if lp is not None
                            for x in names_in(lp.iter)} \
                        and set(cfg.ids_of(n)) & after:
                    carried = True
        ctx.ob("R1.3", carried, "re-creating a too narrow dataset carries "
               "the existing lines over" if carried else
               "the existing dataset is deleted and its lines are not "
               "written back", node=d,
               label="re-creation keeps existing lines")


# ----------------------------------------------------------------------
# R1.4

def arange_bounds(e, rat):
    """(start, stop) of np.arange(...) possibly shifted by a scalar"""
    if isinstance(e, ast.Call) and call_name(e) in ("np.arange",
                                                    "numpy.arange"):
        a = [x for x in e.args]
        kws = {k.arg for k in e.keywords} - {"dtype"}
        if kws or not 1 <= len(a) <= 3:
            return None
        if len(a) == 3 and not rat(a[2]).same(K(1)):
            return None
        if len(a) == 1:
            return K(0), rat(a[0])
        return rat(a[0]), rat(a[1])
    if isinstance(e, ast.BinOp) and isinstance(e.op, (ast.Add, ast.Sub)):
        lb = arange_bounds(e.left, rat)
        if lb is not None:
            s = rat(e.right)
            if isinstance(e.op, ast.Sub):
                s = -s
            return lb[0] + s, lb[1] + s
        if isinstance(e.op, ast.Add):
            rb = arange_bounds(e.right, rat)
            if rb is not None:
                s = rat(e.left)
                return rb[0] + s, rb[1] + s
    return None


def r14(ctx, repo):
    sf = wfunc(repo, WR, "RTDCWriter.store_feature")
    br = [n for n in walk(sf) if isinstance(n, ast.If)
          and isinstance(n.test, ast.Compare) and len(n.test.ops) == 1
          and isinstance(n.test.ops[0], ast.Eq)
          and {txt(n.test.left), const_str(n.test.comparators[0])
               or const_str(n.test.left)} >= {"index"}
          and "feat" in names_in(n.test)]
    br = [b for b in br if any(
        last_attr(c) == "write_ndarray" for s in b.body
        for c in find_calls(s, attr="write_ndarray"))]
    if len(br) != 1:
        raise AnalysisError("store_feature: `feat == \"index\"` branch lost")
    br = br[0]
    calls = [c for s in br.body for c in find_calls(s, attr="write_ndarray")]
    if len(calls) != 1:
        raise AnalysisError("store_feature: index branch must write once")
    call = calls[0]
    data = kwarg(call, "data", 2)
    events = {n.targets[0].id for n in walk(sf) if isinstance(n, ast.Assign)
              and isinstance(n.targets[0], ast.Name)
              and isinstance(n.value, ast.Call)
              and last_attr(n.value) == "require_group"
              and n.value.args and const_str(n.value.args[0]) == "events"}
    if not events:
        raise AnalysisError("store_feature: events group binding lost")

    def is_idx(node):
        return isinstance(node, ast.Subscript) and isinstance(
            node.value, ast.Name) and node.value.id in events \
            and const_str(node.slice) == "index"

    def is_len_idx(node):
        if isinstance(node, ast.Call) and call_name(node) == "len" \
                and len(node.args) == 1 and is_idx(node.args[0]):
            return True
        return isinstance(node, ast.Subscript) and isinstance(
            node.value, ast.Attribute) and node.value.attr == "shape" \
            and is_idx(node.value.value) and isinstance(
                node.slice, ast.Constant) and node.slice.value == 0

    n0_info = {"read": None, "bad": None}

    def special(node, s):
        if is_len_idx(node):
            n0_info["read"] = n0_info["read"] or node
            return S("n0")
        if isinstance(node, ast.IfExp) and _is_presence(node.test, events):
            try:
                a, b = s.rat(node.body), s.rat(node.orelse)
                good = a.same(S("n0")) and b.same(K(0))
            except AnalysisError:
                good = False
            if good:
                return S("n0")
            n0_info["bad"] = node
            return S("n0?")
        if isinstance(node, ast.Name) and node.id not in s.bind:
            vals = s.assigns.get(node.id, [])
            if len(vals) == 2 and all(isinstance(v, ast.AST) for v in vals):
                ifs = [v.parent.parent for v in vals]
                if ifs[0] is ifs[1] and isinstance(ifs[0], ast.If) \
                        and _is_presence(ifs[0].test, events):
                    iff = ifs[0]
                    tv = [v for v in vals if v.parent in iff.body]
                    fv = [v for v in vals if v.parent in iff.orelse]
                    if len(tv) == 1 and len(fv) == 1:
                        try:
                            a, b = s.rat(tv[0]), s.rat(fv[0])
                            good = a.same(S("n0")) and b.same(K(0))
                        except AnalysisError:
                            good = False
                        if good:
                            return S("n0")
                        n0_info["bad"] = iff
                        return S("n0?")
        return None
    sym = Sym(sf, {"data"}, S("n"), special)
    # the caller's values must not flow into the stored index
    direct = [n for n in ast.walk(data) if isinstance(n, ast.Name)
              and n.id == "data" and not is_len_of(n.parent, {"data"})
              and not (isinstance(n.parent, ast.Attribute)
                       and n.parent.attr == "shape")]
    ctx.ob("R1.4", not direct, "the stored index does not depend on the "
           "values passed by the caller" if not direct else
           "the values passed by the caller are stored as index",
           node=call, label="index independent of caller values")
    if direct:
        return
    b = arange_bounds(data, sym.rat)
    if b is None:
        raise AnalysisError(f"store_feature: index data "
                            f"`{short(data, 50)}` is not an arange")
    start, stop = b
    ok = n0_info["bad"] is None and n0_info["read"] is not None
    ctx.ob("R1.4", ok, "n0 is the stored length of the index (0 when "
           "absent)" if ok else "the start of the enumeration is not the "
           "stored length of the index feature",
           node=n0_info["bad"] or n0_info["read"] or call,
           label="n0 is stored index length")
    ok = (start - S("n0")).same(K(1))
    ctx.ob("R1.4", ok, "the enumeration continues at n0 + 1" if ok else
           f"the enumeration starts at {show(start)}, not at n0 + 1",
           node=call, label="index starts at n0+1")
    ok = (stop - start).same(S("n"))
    ctx.ob("R1.4", ok, "one index per event of the call" if ok else
           f"the enumeration holds {show(stop - start)} values for n events",
           node=call, label="index count is n")
    # replace-mode deletion happens before n0 is read
    cfg = CFG(sf)
    dels = [n for n in walk(sf) if isinstance(n, ast.Delete)]
    rd = n0_info["read"]
    if rd is not None and dels:
        rd_ids = cfg.ids_of(_stmt_of(rd))
        later = cfg.reach(rd_ids)
        bad = [d for d in dels if set(cfg.ids_of(d)) & later]
        ctx.ob("R1.4", not bad, "replace-mode deletion precedes the read of "
               "the stored length" if not bad else
               "the stored index length is read before the old index is "
               "deleted", node=_stmt_of(rd),
               label="delete before n0 read")


def _is_presence(test, events):
    return isinstance(test, ast.Compare) and len(test.ops) == 1 \
        and isinstance(test.ops[0], ast.In) \
        and const_str(test.left) == "index" \
        and isinstance(test.comparators[0], ast.Name) \
        and test.comparators[0].id in events


# ----------------------------------------------------------------------
# R1.5

def deref(repo, rel, func, node, depth=0):
    """Follow a plain name to its value: a local with exactly one
    assignment in `func`, else a module-level constant of `rel`.  Returns
    the node itself when it is not a name; raises AnalysisError when a name
    cannot be resolved (never a verdict)."""
    if not isinstance(node, ast.Name) or depth > 4:
        return node
    if func is not None:
        params = {a.arg for a in func.args.args + func.args.kwonlyargs}
        defs = [n for n in walk(func) if isinstance(n, ast.Assign)
                and any(isinstance(t, ast.Name) and t.id == node.id
                        for t in n.targets)]
        other = [n for n in walk(func) if isinstance(
            n, (ast.AugAssign, ast.For, ast.comprehension))
            and node.id in names_in(n.target)]
        if node.id in params and not defs:
            return node
        if len(defs) == 1 and not other and node.id not in params:
            return deref(repo, rel, func, defs[0].value, depth + 1)
        if defs or other:
            raise AnalysisError(f"{func.name}: `{node.id}` has several "
                                f"definitions – cannot resolve")
    val = module_value(repo, rel, node.id)
    if val is None:
        raise AnalysisError(f"{rel}: name `{node.id}` cannot be resolved")
    return deref(repo, rel, None, val, depth + 1)


def group_literals(node, bases, repo=None, rel=None):
    """string constants used as `<base>["x"]`, `"x" in <base>`,
    `<base>.require_group("x")`, `<base>.get("x", ...)`; a plain name is
    resolved through the module-level constants of `rel`"""
    def lit(e):
        v = const_str(e)
        if v is None and isinstance(e, ast.Name) and repo is not None:
            m = module_value(repo, rel, e.id)
            v = const_str(m) if m is not None else None
        return v
    out = set()
    for n in walk(node, nested=True):
        if isinstance(n, ast.Subscript) and txt(n.value) in bases \
                and lit(n.slice):
            out.add(lit(n.slice).split("/")[0])
        elif isinstance(n, ast.Compare) and len(n.ops) == 1 and isinstance(
                n.ops[0], (ast.In, ast.NotIn)) and lit(n.left) \
                and txt(n.comparators[0]) in bases:
            out.add(lit(n.left).split("/")[0])
        elif isinstance(n, ast.Call) and last_attr(n) in (
                "require_group", "get", "create_group") and isinstance(
                n.func, ast.Attribute) and txt(n.func.value) in bases \
                and n.args and lit(n.args[0]):
            out.add(lit(n.args[0]).split("/")[0])
    return out


def decimal_name_arg(e):
    """E for str(E) / "{}".format(E) / f"{E}" (plain decimal), else None"""
    if isinstance(e, ast.Call) and call_name(e) == "str" and len(e.args) == 1:
        return e.args[0]
    if isinstance(e, ast.Call) and last_attr(e) == "format" and isinstance(
            e.func, ast.Attribute) and const_str(e.func.value) in (
            "{}", "{:d}", "{0}") and len(e.args) == 1:
        return e.args[0]
    if isinstance(e, ast.JoinedStr) and len(e.values) == 1 and isinstance(
            e.values[0], ast.FormattedValue) \
            and e.values[0].format_spec is None \
            and e.values[0].conversion == -1:
        return e.values[0].value
    return None


def fold_str_list(node, what):
    if not isinstance(node, (ast.List, ast.Tuple)):
        raise AnalysisError(f"{what} is not a literal list")
    out = []
    for e in node.elts:
        if isinstance(e, (ast.List, ast.Tuple)) and e.elts:
            e = e.elts[0]
        s = const_str(e)
        if s is None:
            raise AnalysisError(f"{what}: non-literal entry")
        out.append(s)
    return out


def reader_dispatch(repo, rel, func):
    """{feature name: wrapper class} of a reader's __getitem__: gathered
    from `key == "x"` / `key in ("x", ..)` branches that construct a
    wrapper and from dictionary dispatch `TABLE[key](..)` /
    `TABLE.get(key)(..)` with TABLE a local or module-level dict literal.
    A dynamic call that cannot be resolved is an AnalysisError."""
    disp = {}

    def cls_name(e):
        d = dotted(e)
        return d.split(".")[-1] if d else None
    for n in walk(func):
        if isinstance(n, ast.If) and isinstance(n.test, ast.Compare) \
                and len(n.test.ops) == 1:
            t = n.test
            keys = []
            if isinstance(t.ops[0], ast.Eq):
                k = const_str(t.comparators[0]) or const_str(t.left)
                keys = [k] if k else []
            elif isinstance(t.ops[0], ast.In):
                c = deref(repo, rel, func, t.comparators[0]) if isinstance(
                    t.comparators[0], ast.Name) else t.comparators[0]
                if isinstance(c, (ast.List, ast.Tuple, ast.Set)):
                    keys = [const_str(e) for e in c.elts if const_str(e)]
            if not keys:
                continue
            for c in walk(ast.Module(body=n.body, type_ignores=[])):
                if isinstance(c, ast.Call) and isinstance(
                        c.func, (ast.Name, ast.Attribute)) and (
                        cls_name(c.func) or "").startswith("H5"):
                    for k in keys:
                        disp.setdefault(k, cls_name(c.func))
    # dictionary dispatch
    for c in walk(func):
        if not isinstance(c, ast.Call):
            continue
        f = c.func
        table = None
        if isinstance(f, ast.Subscript):
            table = f.value
        elif isinstance(f, ast.Call) and last_attr(f) == "get" \
                and isinstance(f.func, ast.Attribute):
            table = f.func.value
        elif isinstance(f, ast.Name):
            # wrapper = TABLE[key] / TABLE.get(key); wrapper(data)
            try:
                v = deref(repo, rel, func, f)
            except AnalysisError:
                v = f
            if isinstance(v, ast.Subscript):
                table = v.value
            elif isinstance(v, ast.Call) and last_attr(v) == "get" \
                    and isinstance(v.func, ast.Attribute):
                table = v.func.value
        if table is None:
            continue
        lit = deref(repo, rel, func, table) if isinstance(
            table, ast.Name) else table
        if not isinstance(lit, ast.Dict) or not all(
                const_str(k) for k in lit.keys):
            raise AnalysisError(f"{func.name}: dispatch table "
                                f"`{short(table, 30)}` cannot be folded")
        for k, v in zip(lit.keys, lit.values):
            nm = cls_name(v)
            if nm is None:
                raise AnalysisError(f"{func.name}: dispatch entry "
                                    f"'{const_str(k)}' not a class name")
            disp[const_str(k)] = nm
    return disp


FD = "dclab/rtdc_dataset/fmt_hdf5/feat_defect.py"


def _log_reader_only_decodes(ctx, repo):
    """write_text stores the encoded line and nothing else; the log reader
    may undo exactly that: every value it returns is the stored element or
    `<element>.decode(codec)` – no stripping, slicing or replacing."""
    f = repo.func(LG, "H5Logs.__getitem__")
    rets = [n for n in walk(f) if isinstance(n, ast.Return)
            and n.value is not None]
    if not rets:
        raise AnalysisError("H5Logs.__getitem__: return form")
    # every expression a return can hand out: the returned expression, or
    # (for a name) each of its definitions
    defs = []
    seen_names = set()
    for r_ in rets:
        if isinstance(r_.value, ast.Name):
            if r_.value.id in seen_names:
                continue
            seen_names.add(r_.value.id)
            ds = [n for n in walk(f) if isinstance(n, ast.Assign)
                  and any(isinstance(t, ast.Name) and t.id == r_.value.id
                          for t in n.targets)]
            if not ds:
                raise AnalysisError("H5Logs.__getitem__: log value lost")
            defs += ds
        else:
            defs.append(r_)
    defs.sort(key=lambda n: n.lineno)

    def plain_elt(e, var):
        """var | var.decode(..) | conditional of the two"""
        if isinstance(e, ast.Name) and e.id == var:
            return True
        if isinstance(e, ast.Call) and last_attr(e) == "decode" \
                and isinstance(e.func, ast.Attribute) \
                and isinstance(e.func.value, ast.Name) \
                and e.func.value.id == var:
            return True
        if isinstance(e, ast.IfExp):
            return plain_elt(e.body, var) and plain_elt(e.orelse, var)
        return False
    for k, d in enumerate(defs):
        v = d.value
        if isinstance(v, ast.Call) and call_name(v) in ("list", "tuple") \
                and len(v.args) == 1 and isinstance(
                v.args[0], (ast.ListComp, ast.GeneratorExp)):
            v = v.args[0]
        if isinstance(v, ast.Call) and call_name(v) in ("list", "tuple") \
                and len(v.args) == 1 and not any(
                    isinstance(c, ast.Call) and c is not v
                    and last_attr(c) not in ("keys",)
                    for c in ast.walk(v.args[0])):
            ok, why = True, "the stored lines are taken as they are"
        elif isinstance(v, (ast.ListComp, ast.GeneratorExp)) \
                and len(v.generators) == 1 and not v.generators[0].ifs \
                and isinstance(v.generators[0].target, ast.Name):
            var = v.generators[0].target.id
            ok = plain_elt(v.elt, var)
            touches = any(isinstance(c, ast.Call) and last_attr(c) == "decode"
                          for c in ast.walk(v.elt))
            if not ok and not touches:
                raise AnalysisError(f"H5Logs.__getitem__: "
                                    f"`{short(v, 50)}` not recognised")
            why = ("log lines are only decoded" if ok else
                   f"log lines are returned as `{short(v.elt, 40)}`: the "
                   f"reader changes the text beyond decoding what "
                   f"write_text encoded (e.g. trailing whitespace is lost)")
        else:
            raise AnalysisError(f"H5Logs.__getitem__: definition "
                                f"`{short(d, 50)}` not recognised")
        ctx.ob("R1.5", ok, why, node=d,
               key=f"{LG}::H5Logs.__getitem__::lines returned as stored "
                   f"[{k}]")


def _chain_select(e, env, func, depth=0):
    """evaluate a pure string / list expression on a concrete version chain
    (names from `env`, single-assignment locals of `func` followed)"""
    if depth > 12:
        raise AnalysisError("version chain: expression too deep")
    ev = lambda x: _chain_select(x, env, func, depth + 1)  # noqa: E731
    if isinstance(e, ast.Constant):
        return e.value
    if isinstance(e, ast.Name):
        if e.id in env:
            return env[e.id]
        defs = [n for n in walk(func) if isinstance(n, ast.Assign)
                and any(isinstance(t, ast.Name) and t.id == e.id
                        for t in n.targets)]
        if len(defs) != 1:
            raise AnalysisError(f"version chain: `{e.id}` has "
                                f"{len(defs)} definitions")
        return ev(defs[0].value)
    if isinstance(e, ast.UnaryOp) and isinstance(e.op, ast.USub):
        return -ev(e.operand)
    if isinstance(e, ast.Subscript):
        seq = ev(e.value)
        if isinstance(e.slice, ast.Slice):
            lo = ev(e.slice.lower) if e.slice.lower else None
            hi = ev(e.slice.upper) if e.slice.upper else None
            return seq[lo:hi]
        return seq[ev(e.slice)]
    if isinstance(e, (ast.ListComp, ast.GeneratorExp)) \
            and len(e.generators) == 1 and isinstance(
            e.generators[0].target, ast.Name):
        g = e.generators[0]
        out = []
        for item in ev(g.iter):
            env2 = dict(env)
            env2[g.target.id] = item
            if all(_chain_select(c, env2, func, depth + 1) for c in g.ifs):
                out.append(_chain_select(e.elt, env2, func, depth + 1))
        return out
    if isinstance(e, ast.Call) and isinstance(e.func, ast.Attribute) \
            and e.func.attr in ("split", "rsplit", "strip", "lstrip",
                                "rstrip", "partition", "rpartition") \
            and not e.keywords:
        obj = ev(e.func.value)
        args = [ev(a) for a in e.args]
        if not isinstance(obj, str):
            raise AnalysisError("version chain: method on a non-string")
        return getattr(obj, e.func.attr)(*args)
    if isinstance(e, ast.Call) and call_name(e) == "list" \
            and len(e.args) == 1:
        return list(ev(e.args[0]))
    raise AnalysisError(f"version chain: `{short(e, 40)}` not recognised")


def _version_chain(ctx, repo):
    """`version_brand` appends the writing dclab version to the chain
    "a | b | dclab x".  The defect predicates of the reader decide from the
    entry of the *last* writer whether stored features can be trusted (and
    from the first entry which software recorded): the entry they test is
    evaluated on chains of every length up to 5."""
    vb = repo.func(WR, "RTDCWriter.version_brand")
    joins = [c for c in find_calls(vb, attr="join")
             if isinstance(c.func.value, ast.Constant)]
    adds = [c for c in walk(vb) if isinstance(c, ast.Call)
            and last_attr(c) in ("append", "insert")]
    if len(joins) != 1 or not adds:
        raise AnalysisError("version_brand: chain construction lost")
    sep = joins[0].func.value.value
    at_end = all(last_attr(c) == "append" for c in adds)
    n_ob = 0
    for q, f in repo.all_functions(FD):
        params = [a.arg for a in f.args.args]
        for c in walk(f):
            if not (isinstance(c, ast.Call) and last_attr(c) == "startswith"
                    and isinstance(c.func, ast.Attribute)
                    and isinstance(c.func.value, ast.Name)
                    and c.args and const_str(c.args[0])):
                continue
            who = const_str(c.args[0])
            # the full chain: local bound from get_software_version_from_h5
            chain_vars = [n.targets[0].id for n in walk(f)
                          if isinstance(n, ast.Assign)
                          and isinstance(n.targets[0], ast.Name)
                          and isinstance(n.value, ast.Call)
                          and call_name(n.value)
                          == "get_software_version_from_h5"]
            if not chain_vars:
                raise AnalysisError(f"{q}: version chain variable lost")
            want_last = who.startswith("dclab")
            bad = None
            for length in range(1, 6):
                entries = [f"sw{k} 1.{k}" for k in range(length)]
                chain = sep.join(entries)
                env = {v: chain for v in chain_vars}
                env.update({p_: None for p_ in params})
                got = _chain_select(c.func.value, env, f)
                want = entries[-1] if (want_last == at_end) else entries[0]
                if got != want:
                    bad = (length, got, want)
                    break
            n_ob += 1
            pos = "last" if want_last else "first"
            ctx.ob("R1.5", bad is None,
                   f"{q} tests '{who}' on the {pos} entry of the version "
                   f"chain (chains of 1..5 entries)" if bad is None else
                   f"{q} tests '{who}' on `{bad[1]}` for a chain of "
                   f"{bad[0]} entries – the {pos} entry is `{bad[2]}` "
                   f"(version_brand {'appends' if at_end else 'prepends'} "
                   f"the writing version, separator {sep!r})",
                   node=c, key=f"{FD}::{q}::'{who}' entry of the version "
                               f"chain")
    if n_ob < 3:
        raise AnalysisError("feat_defect: fewer than 3 version tests found")


def _dtype_by_name_only(ctx, repo, sf, scalar):
    """store_feature narrows the storage dtype only for features that are
    *listed by name*: every assignment of a dtype to the local handed to
    write_ndarray sits under a test `feat in <literal table>` /
    `feat == "<name>"` (tables resolved through module constants).  A
    pattern test (endswith / startswith / regular expression / substring)
    also matches user-defined scalar features (userdef*, plugin and
    temporary features), whose values are then cast."""
    fname = sf.args.args[1].arg
    dnames = {kwarg(c, "dtype").id for c in find_calls(
        sf, attr="write_ndarray") if isinstance(kwarg(c, "dtype"), ast.Name)}
    if not dnames:
        raise AnalysisError("store_feature: dtype local lost")
    sets = [n for n in walk(sf) if isinstance(n, ast.Assign)
            and any(isinstance(t, ast.Name) and t.id in dnames
                    for t in n.targets)
            and not (isinstance(n.value, ast.Constant)
                     and n.value.value is None)]
    if not sets:
        raise AnalysisError("store_feature: no dtype narrowing found")
    PATTERN = {"endswith", "startswith", "match", "search", "fullmatch",
               "find", "count", "index", "rfind"}

    def classify(t):
        """'name' | 'pattern' | None (unknown)"""
        if isinstance(t, ast.Name):
            try:
                t = deref(repo, WR, sf, t)
            except AnalysisError:
                return None
        if isinstance(t, ast.BoolOp):
            kinds = [classify(v) for v in t.values]
            if "pattern" in kinds:
                return "pattern"
            return "name" if all(k == "name" for k in kinds) else None
        if isinstance(t, ast.Compare) and len(t.ops) == 1 \
                and isinstance(t.left, ast.Name) and t.left.id == fname:
            c = t.comparators[0]
            if isinstance(t.ops[0], ast.Eq) and const_str(c) is not None:
                return "name"
            if isinstance(t.ops[0], ast.In):
                try:
                    lit = deref(repo, WR, sf, c)
                except AnalysisError:
                    return None
                if isinstance(lit, (ast.List, ast.Tuple, ast.Set)) and all(
                        const_str(e) is not None for e in lit.elts):
                    miss = sorted({const_str(e) for e in lit.elts} - scalar)
                    return "name" if not miss else None
                return None
        if isinstance(t, ast.Compare) and len(t.ops) == 1 and isinstance(
                t.ops[0], ast.In) and const_str(t.left) is not None \
                and fname in names_in(t.comparators[0]):
            return "pattern"      # "<substring>" in feat
        for c in ast.walk(t):
            if isinstance(c, ast.Call) and last_attr(c) in PATTERN and (
                    fname in names_in(c)):
                return "pattern"
        return None
    class _Sub(ast.NodeTransformer):
        def __init__(self, m):
            self.m = m

        def visit_Name(self, node):
            if node.id in self.m and isinstance(node.ctx, ast.Load):
                return _clone(self.m[node.id])
            return node

    def first_match(v):
        """tests of `next((V for A, V in TABLE if <test>), None)` with the
        row variables replaced by the rows of the literal TABLE; None when
        `v` is not of that form"""
        if not (isinstance(v, ast.Call) and call_name(v) == "next"
                and 1 <= len(v.args) <= 2 and isinstance(
                v.args[0], (ast.GeneratorExp, ast.ListComp))
                and len(v.args[0].generators) == 1):
            return None
        if len(v.args) == 2 and not (isinstance(v.args[1], ast.Constant)
                                     and v.args[1].value is None):
            return None
        g = v.args[0].generators[0]
        table = deref(repo, WR, sf, g.iter) if isinstance(
            g.iter, ast.Name) else g.iter
        if not isinstance(table, (ast.Tuple, ast.List)) or not g.ifs:
            return None
        tests = []
        for row in table.elts:
            if isinstance(g.target, ast.Tuple) and isinstance(
                    row, (ast.Tuple, ast.List)) and len(row.elts) == len(
                    g.target.elts) and all(isinstance(t, ast.Name)
                                           for t in g.target.elts):
                m = {t.id: e for t, e in zip(g.target.elts, row.elts)}
            elif isinstance(g.target, ast.Name):
                m = {g.target.id: row}
            else:
                return None
            for c in g.ifs:
                tests.append(_Sub(m).visit(_clone(c)))
        return tests

    for k, st in enumerate(sets):
        conds = [a for a in ancestors(st) if isinstance(a, ast.If)
                 and any(st is x for b in a.body for x in walk(b))]
        conds = [a for a in conds if any(a is x for x in walk(sf))]
        tests = [a.test for a in conds]
        fm = first_match(st.value)
        if fm is not None:
            # a first-match dispatch: the dtype applies where a row's test
            # holds – the row tests are the conditions
            tests = tests + fm
            conds = conds + [st] * len(fm)
        if not tests:
            raise AnalysisError(f"store_feature: `{short(st, 30)}` is "
                                f"unconditional")
        kinds = [classify(t) for t in tests]
        if "pattern" in kinds:
            bad = conds[kinds.index("pattern")]
            badt = tests[kinds.index("pattern")]
            ctx.ob("R1.5", False,
                   f"`{short(st, 30)}` applies under the pattern test "
                   f"`{short(badt, 60)}`: user-defined / plugin features "
                   f"whose name matches are cast as well (fractions "
                   f"truncated, negative values wrapped)", node=bad,
                   label=f"dtype narrowing by listed names only [{k}]")
        elif all(k_ == "name" for k_ in kinds):
            ctx.ob("R1.5", True, f"`{short(st, 30)}` applies to features "
                   f"listed by name", node=st,
                   label=f"dtype narrowing by listed names only [{k}]")
        else:
            raise AnalysisError(
                f"store_feature: condition of `{short(st, 30)}` "
                f"(`{short(tests[kinds.index(None)], 50)}`) cannot be "
                f"classified")


def r15(ctx, repo):
    wcls = repo.cls(WR, "RTDCWriter")
    bases_w = {"self.h5file"}
    pairs = [
        ("store_feature", EV, "H5Events", {"self.h5file"}, "events"),
        ("store_log", LG, "H5Logs", {"self.h5file"}, "logs"),
        ("store_table", TB, "H5Tables", {"self.h5file"}, "tables"),
        ("store_basin", BS, "RTDC_HDF5.basin_get_dicts_from_h5file",
         {"h5file"}, "basins"),
    ]
    all_w = set()
    for meth, rel, rq, rbases, role in pairs:
        wf = wfunc(repo, WR, f"RTDCWriter.{meth}")
        wl = group_literals(wf, bases_w, repo, WR)
        all_w |= wl
        rn = repo.lookup(rel, rq)
        rl = group_literals(rn, rbases, repo, rel)
        ok = len(rl) == 1 and rl <= wl
        ctx.ob("R1.5", ok,
               f"{meth} writes group {sorted(wl)} and {rq.split('.')[0]} "
               f"reads {sorted(rl)}" if ok else
               f"{meth} writes group(s) {sorted(wl)} but the reader uses "
               f"{sorted(rl)}", node=wf,
               key=f"{WR}::RTDCWriter.{meth}::group name agrees with reader")
    # copier only addresses groups the writer knows
    for fn in ("rtdc_copy", "basin_definition_copy"):
        cf = wfunc(repo, CP, fn)
        cl = group_literals(cf, {"src_h5file", "dst_h5file"}, repo, CP)
        if not cl:
            raise AnalysisError(f"{fn}: no group literals found")
        extra = cl - all_w
        ctx.ob("R1.5", not extra, f"{fn} addresses groups {sorted(cl)}, all "
               f"known to the writer" if not extra else
               f"{fn} addresses group(s) {sorted(extra)} the writer never "
               f"creates", node=cf,
               key=f"{CP}::{fn}::groups known to writer")
        for n in walk(cf):
            # paired src/dst access inside one statement
            if isinstance(n, ast.Call) and last_attr(n) in (
                    "h5ds_copy", "create_dataset"):
                s = group_literals(n, {"src_h5file"}, repo, CP)
                d = group_literals(n, {"dst_h5file"}, repo, CP)
                if s and d:
                    ctx.ob("R1.5", s == d, f"copy stays inside group "
                           f"{sorted(s)}" if s == d else
                           f"copies from group {sorted(s)} into group "
                           f"{sorted(d)}", node=n,
                           label=f"copy within group {sorted(s)[0]} "
                                 f"[{last_attr(n)}]")
    # contour naming
    wr = wfunc(repo, WR, "RTDCWriter.write_ragged")
    cds = find_calls(wr, attr="create_dataset")
    if len(cds) != 1:
        raise AnalysisError("write_ragged: create_dataset lost")
    nm = decimal_name_arg(kwarg(cds[0], "name", 0))
    ctx.ob("R1.5", nm is not None, "contour datasets are named by the plain "
           "decimal event number" if nm is not None else
           f"contour dataset name `{short(kwarg(cds[0], 'name', 0), 40)}` "
           f"is not a plain decimal number", node=cds[0],
           label="contour name is decimal (writer)")
    gi = repo.func(EV, "H5ContourEvent.__getitem__")
    subs = [n for n in walk(gi) if isinstance(n, ast.Subscript)
            and txt(n.value) == "self.h5group"]
    if not subs:
        raise AnalysisError("H5ContourEvent.__getitem__: group access lost")
    for k, sb in enumerate(subs):
        ok = isinstance(decimal_name_arg(sb.slice), ast.Name)
        ctx.ob("R1.5", ok, "contours are looked up by the plain decimal "
               "event number" if ok else
               f"contour lookup key `{short(sb.slice, 30)}` is not the "
               f"decimal event number", node=sb,
               label=f"contour name is decimal (reader {k})")
    init = repo.func(EV, "H5ContourEvent.__init__")
    first = {const_str(n.slice) for n in walk(init)
             if isinstance(n, ast.Subscript) and txt(n.value) == "h5group"
             and const_str(n.slice) is not None}
    ok = first == {"0"}
    ctx.ob("R1.5", ok, "the reader expects the first contour under '0'"
           if ok else f"reader's first contour name is {sorted(first)}",
           node=init, label="first contour is '0'", nontrivial=False)
    # trace
    sf = wfunc(repo, WR, "RTDCWriter.store_feature")
    tr_groups = {const_str(deref(repo, WR, sf, c.args[0]))
                 for c in find_calls(sf, attr="require_group")
                 if c.args and txt(c.func.value) != "self.h5file"}
    if None in tr_groups:
        raise AnalysisError("store_feature: sub-group name not a constant")
    gi = repo.func(EV, "H5Events.__getitem__")
    disp = reader_dispatch(repo, EV, gi)
    ok = tr_groups == {"trace"} and disp.get("trace") == "H5TraceEvent"
    ctx.ob("R1.5", ok, "traces are written to and read from the sub-group "
           "'trace'" if ok else f"trace group: writer {sorted(tr_groups)}, "
           f"reader dispatch {disp}", node=sf, label="trace group name")
    val = [n for n in walk(sf) if isinstance(n, ast.Compare)
           and isinstance(n.ops[0], ast.NotIn)
           and txt(n.comparators[0]).endswith("FLUOR_TRACES")]
    ctx.ob("R1.5", bool(val), "trace names are validated against "
           "FLUOR_TRACES" if val else "trace names are no longer validated",
           node=val[0] if val else sf, label="trace keys validated",
           nontrivial=False)
    # mask: uint8 * k on write, bool on read, same feature name
    wg = wfunc(repo, WR, "RTDCWriter.write_image_grayscale")
    mults = [n for n in walk(wg) if isinstance(n, ast.BinOp)
             and isinstance(n.op, ast.Mult) and "uint8" in txt(n)]
    if len(mults) != 1:
        raise AnalysisError("write_image_grayscale: bool -> uint8 "
                            "conversion lost")
    kk = [x for x in (deref(repo, WR, wg, mults[0].left),
                      deref(repo, WR, wg, mults[0].right))
          if isinstance(x, ast.Constant)]
    if len(kk) != 1:
        raise AnalysisError("write_image_grayscale: scale factor of the "
                            "boolean mask is not a constant")
    ok = len(kk) == 1 and isinstance(kk[0].value, int) \
        and 1 <= kk[0].value <= 255
    ctx.ob("R1.5", ok, f"True is stored as {kk[0].value if kk else '?'} "
           f"(non-zero, fits uint8)" if ok else
           f"boolean mask is scaled by `{short(mults[0], 40)}`: True does "
           f"not map to a non-zero uint8", node=mults[0],
           label="mask scale fits uint8")
    mg = repo.func(EV, "H5MaskEvent.__getitem__")
    ok = any(isinstance(c, ast.Call) and kwarg(c, "dtype") is not None
             and txt(kwarg(c, "dtype")) in ("bool", "np.bool_")
             for c in walk(mg))
    ctx.ob("R1.5", ok, "masks are read back as bool (non-zero = True)" if ok
           else "mask reader no longer casts to bool", node=mg,
           label="mask read as bool")
    isb = [kwarg(c, "is_boolean", 3) for c in find_calls(
        sf, attr="write_image_grayscale")]
    wname = None
    for e in isb:
        e = deref(repo, WR, sf, e) if e is not None else None
        if isinstance(e, ast.Compare) and len(e.ops) == 1 and isinstance(
                e.ops[0], ast.Eq):
            wname = const_str(deref(repo, WR, sf, e.comparators[0])) \
                or const_str(deref(repo, WR, sf, e.left))
    if wname is None:
        raise AnalysisError("store_feature: the condition under which image "
                            "data are treated as boolean is not recognised")
    ok = disp.get(wname) == "H5MaskEvent"
    ctx.ob("R1.5", ok, f"'{wname}' is converted on write and wrapped by "
           f"H5MaskEvent on read" if ok else
           f"boolean conversion applies to '{wname}' but the reader wraps "
           f"{[k for k, v in disp.items() if v == 'H5MaskEvent']}",
           node=sf, label="mask feature name agrees")
    # integer feature tables
    scalar = set(fold_str_list(repo.module_assign(FC, "FEATURES_SCALAR"),
                               "FEATURES_SCALAR"))
    seen = {}
    for tab in ("FEATURES_UINT32", "FEATURES_UINT64"):
        tabval = module_value(repo, WR, tab)
        if tabval is None:
            raise AnalysisError(f"anchor vanished: {WR}::{tab}")
        names = fold_str_list(tabval, tab)
        seen[tab] = set(names)
        miss = sorted(set(names) - scalar)
        ctx.ob("R1.5", not miss, f"every name of {tab} is a scalar feature"
               if not miss else f"{tab} lists {miss}, not scalar features: "
               f"the integer dtype is never applied",
               node=tabval,
               key=f"{WR}::{tab}::names are scalar features")
    _dtype_by_name_only(ctx, repo, sf, scalar)
    both = seen["FEATURES_UINT32"] & seen["FEATURES_UINT64"]
    ctx.ob("R1.5", not both, "the integer tables are disjoint" if not both
           else f"{sorted(both)} listed as uint32 and uint64",
           node=module_value(repo, WR, "FEATURES_UINT32"),
           key=f"{WR}::FEATURES_UINT32::disjoint from FEATURES_UINT64",
           nontrivial=False)
    # text codec
    wt = wfunc(repo, WR, "RTDCWriter.write_text")
    enc = [c for c in find_calls(wt, attr="encode")]
    if not enc:
        raise AnalysisError("write_text: encode lost")

    def codec(c):
        a = kwarg(c, "encoding", 0)
        name = const_str(a) if a is not None else "utf-8"
        if name is None:
            raise AnalysisError(f"codec `{short(a, 30)}` is not a literal")
        try:
            return codecs.lookup(name).name
        except (LookupError, TypeError):
            return f"?{name}"
    wc = {codec(c) for c in enc}
    _log_reader_only_decodes(ctx, repo)
    _version_chain(ctx, repo)
    for rel, q in ((LG, "H5Logs.__getitem__"),
                   (BS, "RTDC_HDF5.basin_get_dicts_from_h5file")):
        f = repo.func(rel, q)
        dec = find_calls(f, attr="decode")
        if not dec:
            raise AnalysisError(f"{q}: decode lost")
        rc = {codec(c) for c in dec}
        ok = rc == wc and len(wc) == 1
        ctx.ob("R1.5", ok, f"text is encoded and decoded as {sorted(wc)}"
               if ok else f"text is written as {sorted(wc)} but read as "
               f"{sorted(rc)}", node=dec[0],
               key=f"{rel}::{q}::codec agrees with writer")


# ----------------------------------------------------------------------
# R1.6

class _Anything(dict):
    """environment in which every unknown symbol is True (collection pass)"""

    def __missing__(self, key):
        return True


def r16(ctx, repo):
    ex = wfunc(repo, WR, "RTDCWriter.__exit__")
    cfg = CFG(ex)

    def closes(n):
        if n.ast is None or n.kind not in ("stmt",):
            return False
        return any(last_attr(c) == "close" and is_self_attr(c.func, "close")
                   for c in walk(n.ast) if isinstance(c, ast.Call))
    if not any(closes(n) for n in cfg.nodes):
        raise AnalysisError("__exit__: close() lost")
    for dst, what in ((cfg.exit, "normal"), (cfg.xexit, "exceptional")):
        ok = cfg.must_pass(closes, dst=dst)
        ctx.ob("R1.6", ok, f"every {what} path through __exit__ closes the "
               f"file" if ok else f"a {what} path leaves __exit__ without "
               f"close(): buffered data are not flushed", node=ex,
               label=f"close on every {what} path")
    calls = [c for c in find_calls(ex, attr="rectify_metadata")]
    if len(calls) != 1:
        raise AnalysisError("__exit__: rectify_metadata call lost")
    call = calls[0]
    guards = []
    for a in ancestors(call):
        if a is ex:
            break
        if isinstance(a, ast.If):
            guards.append((a, any(call is x for s in a.body
                                  for x in walk(s))))
        elif isinstance(a, (ast.For, ast.While, ast.ExceptHandler)):
            raise AnalysisError("__exit__: rectify_metadata in a loop / "
                                "handler")

    def res(node):
        if isinstance(node, ast.Call) and call_name(node) == "len" \
                and "events" in txt(node):
            return "n"
        return None
    # Everything in the guard that is not the size of the events group
    # (session flags, modes, …) is an unknown that may be true or false:
    # rectify_metadata has to run for a non-empty events group under every
    # valuation.
    ok = True
    culprit = None
    for g, on_true in guards:
        unknown = {}

        def res2(node, unknown=unknown):
            r_ = res(node)
            if r_ is not None:
                return r_
            if isinstance(node, (ast.BoolOp, ast.Constant)) or (
                    isinstance(node, ast.UnaryOp)
                    and isinstance(node.op, ast.Not)):
                return None
            if isinstance(node, ast.Compare) and any(
                    res(x) is not None for x in ast.walk(node)):
                return None
            return unknown.setdefault(txt(node), f"u{len(unknown)}")
        # first pass collects the unknown atoms
        try:
            eval_pred(g.test, _Anything({"n": 1.0}), res2)
        except AnalysisError:
            raise AnalysisError(f"__exit__: guard `{short(g.test, 40)}` of "
                                f"rectify_metadata not recognised")
        syms = sorted(unknown.values())
        for bits in range(2 ** len(syms)):
            env = {sy: bool(bits >> k & 1) for k, sy in enumerate(syms)}
            for n in (1.0, 2.0, 1000.0):
                env["n"] = n
                if bool(eval_pred(g.test, env, res2)) != on_true:
                    ok = False
                    off = [t_ for t_, sy in unknown.items()
                           if not env[sy]] or list(unknown)
                    culprit = culprit or (off[0] if off else None)
    ctx.ob("R1.6", ok, "rectify_metadata runs whenever the events group is "
           "not empty" if ok else "rectify_metadata is skipped for a "
           "non-empty events group"
           + (f" when `{culprit}` is false: the derived metadata (event "
              f"count …) must not depend on what this session stored"
              if culprit else ""), node=call,
           label="rectify whenever events exist")
    # event count
    rm = wfunc(repo, WR, "RTDCWriter.rectify_metadata")
    asg = [n for n in walk(rm) if isinstance(n, ast.Assign)
           and isinstance(n.targets[0], ast.Subscript)
           and const_str(n.targets[0].slice) == "experiment:event count"]
    if len(asg) != 1:
        raise AnalysisError("rectify_metadata: event count assignment lost")
    asg = asg[0]
    v = asg.value
    obj = None
    if isinstance(v, ast.Call) and call_name(v) == "len" and len(v.args) == 1:
        obj = v.args[0]
    elif isinstance(v, ast.Subscript) and isinstance(
            v.value, ast.Attribute) and v.value.attr == "shape" \
            and isinstance(v.slice, ast.Constant) and v.slice.value == 0:
        obj = v.value.value
    # resolve obj to self.h5file["events"][K]
    defs = []
    if isinstance(obj, ast.Name):
        defs = [n for n in walk(rm) if isinstance(n, ast.Assign)
                and any(isinstance(t, ast.Name) and t.id == obj.id
                        for t in n.targets)]
        first = sorted(defs, key=lambda n: n.lineno)[0].value if defs \
            else None
    else:
        first = obj

    def is_event_member(e):
        return isinstance(e, ast.Subscript) and isinstance(
            e.value, ast.Subscript) and const_str(e.value.slice) == "events" \
            and txt(e.value.value) == "self.h5file"
    ok = first is not None and is_event_member(first)
    ctx.ob("R1.6", ok, "the event count is the length of a member of the "
           "events group" if ok else
           f"the event count is `{short(v, 50)}`, not the length of a stored "
           f"feature", node=asg, label="event count from stored feature")
    if not ok:
        return
    keyexpr = first.slice
    # which list does the key come from, and is "trace" handled?
    handled = False
    for n in walk(rm):
        if isinstance(n, ast.If) and n.lineno <= asg.lineno and any(
                isinstance(c, ast.Compare) and const_str(
                    c.comparators[0]) == "trace"
                and isinstance(c.ops[0], ast.Eq)
                and txt(c.left) == txt(keyexpr)
                for c in ast.walk(n.test)):
            # the branch must redirect the object to a member of the group
            if isinstance(obj, ast.Name) and any(
                    isinstance(s, ast.Assign) and any(
                        isinstance(t, ast.Name) and t.id == obj.id
                        for t in s.targets)
                    and isinstance(s.value, ast.Subscript)
                    and obj.id in names_in(s.value.value)
                    for s in n.body):
                handled = True
    src = None
    if isinstance(keyexpr, ast.Subscript) and isinstance(
            keyexpr.value, ast.Name):
        src = keyexpr.value.id
    elif isinstance(keyexpr, ast.Name):
        src = keyexpr.id
    if src is not None:
        for n in walk(rm):
            if isinstance(n, ast.Assign) and any(
                    isinstance(t, ast.Name) and t.id == src
                    for t in n.targets) and n.lineno < asg.lineno:
                for c in ast.walk(n.value):
                    if isinstance(c, ast.Compare) and isinstance(
                            c.ops[0], (ast.NotEq, ast.NotIn)) and (
                            const_str(c.comparators[0]) == "trace"
                            or "trace" in [const_str(e) for e in getattr(
                                c.comparators[0], "elts", [])]):
                        handled = True
    ctx.ob("R1.6", handled,
           "the 'trace' group (whose length is the number of trace names) "
           "is not used as the event count" if handled else
           f"the event count is len(events[{short(keyexpr, 20)}]) for the "
           f"alphabetically first entry; when that is the 'trace' group the "
           f"number of trace names is stored instead of the number of "
           f"events", node=asg, label="event count not from trace group")


# ----------------------------------------------------------------------
# R1.7

def _is_counter_reset(n):
    """CFG node drops entries of self._group_sizes"""
    if n.ast is None or n.kind != "stmt":
        return False
    a = n.ast
    if isinstance(a, ast.Delete):
        return any(isinstance(t, ast.Subscript)
                   and is_self_attr(t.value, "_group_sizes")
                   for t in a.targets)
    if isinstance(a, ast.Assign):
        return any(is_self_attr(t, "_group_sizes") for t in a.targets) \
            and isinstance(a.value, (ast.Dict, ast.Call))
    if isinstance(a, ast.Expr) and isinstance(a.value, ast.Call):
        c = a.value
        return last_attr(c) in ("pop", "clear") and isinstance(
            c.func, ast.Attribute) and is_self_attr(
            c.func.value, "_group_sizes")
    return False


def _counter_lifetime(ctx, repo, wr, grpvar, key):
    """The cached group size must not survive the deletion of its group
    (reset-set ⊇ memo-set): either the key is the h5py.Group object itself –
    a re-created group is a new object, hence a new key – or every site that
    deletes a group handed to write_ragged drops the cached entry before
    write_ragged can run again."""
    params = {a.arg for a in wr.args.args} - {"self"}
    if isinstance(key, ast.Name) and key.id == grpvar:
        defs = [n for n in walk(wr) if isinstance(n, ast.Assign)
                and any(isinstance(t, ast.Name) and t.id == grpvar
                        for t in n.targets)]
        ok = len(defs) == 1 and isinstance(defs[0].value, ast.Call) \
            and last_attr(defs[0].value) in ("require_group",
                                             "create_group")
        if not ok:
            raise AnalysisError("write_ragged: binding of the group object "
                                "not recognised")
        ctx.ob("R1.7", True, "the counter is cached under the group object: "
               "a deleted and re-created group is a new key", node=defs[0],
               label="counter cannot outlive its group")
        return
    # a key that names the *location* (path string, dataset name, tuple of
    # such): it stays valid after the group is deleted and re-created
    leaves = names_in(key)
    calls = {call_name(c) for c in ast.walk(key) if isinstance(c, ast.Call)}
    if not leaves <= ({grpvar} | params) or calls & {"id", "hash"} \
            or not leaves:
        raise AnalysisError(f"write_ragged: counter key "
                            f"`{short(key, 40)}` cannot be classified")
    cls = repo.cls(WR, "RTDCWriter")
    sites = []
    for f in cls.body:
        if not isinstance(f, ast.FunctionDef):
            continue
        groups = set()
        for c in find_calls(f, attr="write_ragged"):
            g = kwarg(c, "group", 0)
            if isinstance(g, ast.Name):
                groups.add(g.id)
        if not groups:
            continue
        for d in walk(f):
            if isinstance(d, ast.Delete) and any(
                    isinstance(t, ast.Subscript)
                    and isinstance(t.value, ast.Name)
                    and t.value.id in groups for t in d.targets):
                sites.append((f, d))
    if not sites:
        ctx.ob("R1.7", True, "no caller of write_ragged deletes a group",
               node=wr, label="counter cannot outlive its group")
        return
    for f, d in sites:
        cfg = CFG(f)
        d_ids = cfg.ids_of(d)
        wr_ids = set()
        for c in find_calls(f, attr="write_ragged"):
            wr_ids |= set(cfg.ids_of(_stmt_of(c)))
        r = cfg.reach(d_ids, avoid_node=_is_counter_reset)
        ok = not (wr_ids & r)
        ctx.ob("R1.7", ok,
               f"`{short(d, 30)}` is followed by a reset of the cached group "
               f"size before write_ragged runs" if ok else
               f"the counter is cached under `{short(key, 30)}`, a location "
               f"that outlives the group: after `{short(d, 30)}` (replace "
               f"mode) the re-created group continues with the stale count "
               f"and its entries are not named 0..N-1", node=d,
               label="counter cannot outlive its group")


def r17(ctx, repo):
    wr = wfunc(repo, WR, "RTDCWriter.write_ragged")
    loops = [n for n in walk(wr) if isinstance(n, ast.For)
             and find_calls(n, attr="create_dataset")]
    if len(loops) != 1:
        raise AnalysisError("write_ragged: storage loop lost")
    lp = loops[0]
    en = lp.iter
    if not (isinstance(en, ast.Call) and call_name(en) == "enumerate"
            and 1 <= len(en.args) <= 2
            and all(k.arg == "start" for k in en.keywords)
            and isinstance(lp.target, ast.Tuple)
            and len(lp.target.elts) == 2):
        raise AnalysisError("write_ragged: loop is not `for i, x in "
                            "enumerate(data)`")
    en_start = kwarg(en, "start", 1)
    ivar, xvar = [e.id for e in lp.target.elts]
    cd = find_calls(lp, attr="create_dataset")[0]
    grp = txt(cd.func.value)
    if not isinstance(cd.func.value, ast.Name):
        raise AnalysisError("write_ragged: group variable not a plain name")
    # the key under which the running counter is cached
    subs = [n for n in walk(wr) if isinstance(n, ast.Subscript)
            and is_self_attr(n.value, "_group_sizes")]
    keys = {txt(n.slice) for n in subs}
    if len(keys) != 1:
        raise AnalysisError(f"write_ragged: counter cache addressed with "
                            f"{sorted(keys)} – expected one key expression")
    keytxt = keys.pop()
    keynode = subs[0].slice
    _counter_lifetime(ctx, repo, wr, cd.func.value.id, keynode)

    def is_counter(e):
        return isinstance(e, ast.Subscript) and is_self_attr(
            e.value, "_group_sizes") and txt(e.slice) == keytxt

    def special(node, s):
        if is_counter(node):
            return S("cur")
        if isinstance(node, ast.Name) and node.id not in s.bind:
            # a local that is the cached count on every path: read from the
            # cache, or bound together with the cache entry
            # (`cur = cache[k] = len(grp)` in a get-or-create)
            defs = [n for n in walk(wr) if isinstance(n, ast.Assign)
                    and any(isinstance(t, ast.Name) and t.id == node.id
                            for t in n.targets)]
            def is_count(d):
                if is_counter(d.value) or any(is_counter(t)
                                              for t in d.targets):
                    return True
                # `cur = len(grp)` stored into the cache in the same block
                sibs = [x for fld in ("body", "orelse", "finalbody")
                        for x in getattr(d.parent, fld, [])
                        if isinstance(x, ast.Assign)]
                return any(any(is_counter(t) for t in x.targets)
                           and isinstance(x.value, ast.Name)
                           and x.value.id == node.id for x in sibs)
            if len(defs) > 1 and all(is_count(d) for d in defs):
                return S("cur")
        return None
    sym = Sym(wr, {"data"}, S("n"), special)
    sym.bind[ivar] = S("i") + (sym.rat(en_start) if en_start is not None
                               else K(0))
    name = decimal_name_arg(kwarg(cd, "name", 0))
    if name is None:
        # R1.5 reports the non-decimal name; nothing to decide here
        ctx.note("R1.7 skipped: ragged dataset name is not a plain decimal")
        return
    r = sym.rat(name)
    ok = r.same(S("cur") + S("i"))
    ctx.ob("R1.7", ok, "entry i of the call is named <stored count> + i"
           if ok else f"entry i is named {show(r)}, not cur + i", node=cd,
           label="ragged name is count + i")
    d = kwarg(cd, "data", 3)
    ok = isinstance(d, ast.Name) and d.id == xvar
    ctx.ob("R1.7", ok, "entry i stores element i" if ok else
           f"entry i stores `{short(d, 20)}`", node=cd,
           label="ragged entry stores its element")
    # the counter is read before the loop (not inside)
    cur_defs = [n for n in walk(wr) if isinstance(n, ast.Assign)
                and is_counter(n.value)]
    in_loop = [n for n in cur_defs if any(n is x for x in walk(lp))]
    uses_live = any(is_counter(n) and isinstance(n.ctx, ast.Load)
                    for n in ast.walk(kwarg(cd, "name", 0)))
    incs = [n for n in walk(lp) if isinstance(n, ast.AugAssign)
            and is_counter(n.target)]
    after = [n for n in walk(wr) if isinstance(n, ast.AugAssign)
             and is_counter(n.target) and n not in incs]
    if uses_live or in_loop:
        raise AnalysisError("write_ragged: name derived from the live "
                            "counter – shape not recognised")
    if incs:
        ok = len(incs) == 1 and incs[0] in lp.body and isinstance(
            incs[0].op, ast.Add) and isinstance(
            incs[0].value, ast.Constant) and incs[0].value.value == 1 \
            and not after
        ctx.ob("R1.7", ok, "the cached group size advances once per stored "
               "entry" if ok else "the cached group size does not advance "
               "by exactly one per stored entry", node=incs[0],
               label="counter advances once per entry")
    elif after:
        ok = len(after) == 1 and isinstance(after[0].op, ast.Add) \
            and sym.rat(after[0].value).same(S("n")) \
            and after[0].lineno > lp.lineno
        ctx.ob("R1.7", ok, "the cached group size advances by the number of "
               "stored entries" if ok else "the cached group size does not "
               "advance by len(data)", node=after[0],
               label="counter advances once per entry")
    else:
        ctx.ob("R1.7", False, "the cached group size never advances: the "
               "next call reuses the same dataset names", node=lp,
               label="counter advances once per entry")
    # initialisation from len(group)
    inits = [n for n in walk(wr) if isinstance(n, ast.Assign)
             and any(is_counter(t) for t in n.targets)]
    def when_absent(st):
        """the statement runs exactly when the key is not cached yet"""
        par = st.parent
        if isinstance(par, ast.If) and st in par.body:
            t = par.test
            return isinstance(t, ast.Compare) and len(t.ops) == 1 \
                and isinstance(t.ops[0], ast.NotIn) \
                and txt(t.left) == keytxt \
                and is_self_attr(t.comparators[0], "_group_sizes")
        if isinstance(par, ast.ExceptHandler) and par.type is not None \
                and txt(par.type) == "KeyError" \
                and isinstance(par.parent, ast.Try):
            # try: <read cache[key]> except KeyError: <init>
            body = par.parent.body
            return len(body) == 1 and isinstance(body[0], ast.Assign) \
                and is_counter(body[0].value) \
                and len(par.parent.handlers) == 1
        return False
    init_val = inits[0].value if inits else None
    if isinstance(init_val, ast.Name):
        # `cur = len(grp); cache[key] = cur` – value bound in the same block
        sibs = [x for fld in ("body", "orelse", "finalbody")
                for x in getattr(inits[0].parent, fld, [])
                if isinstance(x, ast.Assign) and x.lineno < inits[0].lineno
                and any(isinstance(t, ast.Name) and t.id == init_val.id
                        for t in x.targets)]
        if len(sibs) == 1:
            init_val = sibs[0].value
    ok = len(inits) == 1 and isinstance(init_val, ast.Call) \
        and call_name(init_val) == "len" \
        and txt(init_val.args[0]) == grp \
        and when_absent(inits[0]) \
        and inits[0].lineno < lp.lineno
    ctx.ob("R1.7", ok, "an unknown group starts at its stored size" if ok
           else "the cached size of an unknown group is not initialised "
           "with len(group)", node=inits[0] if inits else wr,
           label="counter starts at len(group)")


# ----------------------------------------------------------------------
# R1.8

MODES = ("append", "replace", "reset")


def _mode_guard_ok(test, want):
    """`want(mode, present) -> bool` must equal the test for all modes"""
    def res(node):
        if isinstance(node, ast.Compare) and len(node.ops) == 1 \
                and isinstance(node.ops[0], ast.In):
            return "present"
        if isinstance(node, ast.Compare) and len(node.ops) == 1 \
                and isinstance(node.ops[0], ast.NotIn):
            return "absent"
        if is_self_attr(node, "mode") or (isinstance(node, ast.Name)
                                          and node.id == "mode"):
            return "mode"
        return None
    bad = []
    for m in MODES:
        for p in (True, False):
            env = {"mode": m, "present": p, "absent": not p}
            got = bool(eval_pred(test, env, res))
            if got != want(m, p):
                bad.append((m, "present" if p else "absent", got))
    return bad


def _tests_name(test, fname):
    """the test is about the value of `fname` itself (operand of a
    comparison or argument of a predicate), not about an object it
    indexes"""
    def is_f(e):
        return isinstance(e, ast.Name) and e.id == fname
    for n in ast.walk(test):
        if isinstance(n, ast.Compare) and (is_f(n.left) or any(
                is_f(c) for c in n.comparators)):
            # `feat in events` is a presence test, not a value test
            if len(n.ops) == 1 and isinstance(n.ops[0], (ast.In, ast.NotIn)) \
                    and not isinstance(n.comparators[0],
                                       (ast.List, ast.Tuple, ast.Set)) \
                    and is_f(n.left):
                continue
            return True
        if isinstance(n, ast.Call) and any(is_f(a) for a in n.args):
            return True
    return False


def _feat_conditions(node, stop, fname):
    """[(test, branch)] of the enclosing if/elif tests on the feature name
    between `node` and `stop`"""
    out = []
    child = node
    for a in ancestors(node):
        if a is stop:
            break
        if isinstance(a, ast.If) and _tests_name(a.test, fname):
            in_body = any(child is x or any(child is y for y in walk(x))
                          for x in a.body)
            out.append((a.test, in_body))
        child = a
    return out


def _holds_for(conds, fname, value):
    """all conditions hold when the feature name equals `value`; None when a
    test cannot be evaluated"""
    def res(n):
        if isinstance(n, ast.Name) and n.id == fname:
            return "f"
        if isinstance(n, ast.Compare) and len(n.ops) == 1 and isinstance(
                n.ops[0], (ast.In, ast.NotIn)) and isinstance(
                n.comparators[0], (ast.List, ast.Tuple, ast.Set)) \
                and isinstance(n.left, ast.Name) and n.left.id == fname:
            vals = [const_str(e) for e in n.comparators[0].elts]
            hit = value in vals
            return "T" if hit == isinstance(n.ops[0], ast.In) else "F"
        return None
    for test, branch in conds:
        try:
            v = bool(eval_pred(test, {"f": value, "T": True, "F": False},
                               res))
        except AnalysisError:
            if not branch:
                # else-part of a test that does not compare the name with
                # literals (e.g. a registry lookup): no constraint derived
                continue
            return None
        if v != branch:
            return False
    return True


def _replace_units(ctx, f, guard, dels):
    """Replace mode removes exactly the datasets that are rewritten.  A
    feature whose data are written as *members* of a sub-group (one
    write_ndarray per key of `data` into events.require_group(<feat>)) is
    replaced member by member: a deletion of the whole sub-group also
    removes the members that are not rewritten."""
    fname = f.args.args[1].arg if len(f.args.args) > 1 else None
    if fname is None:
        raise AnalysisError("store_feature: signature changed")
    # member-level write units
    units = {}
    for c in [n for n in walk(f) if isinstance(n, ast.Call)
              and (last_attr(n) or "").startswith("write_")]:
        g = kwarg(c, "group", 0)
        if isinstance(g, ast.Call) and last_attr(g) == "require_group" \
                and g.args and const_str(g.args[0]):
            sub = const_str(g.args[0])
            loops = [a for a in ancestors(c) if isinstance(a, ast.For)]
            key = kwarg(c, "name", 1)
            if not loops or not isinstance(key, ast.Name) \
                    or key.id not in names_in(loops[0].target):
                raise AnalysisError(f"store_feature: member-wise write into "
                                    f"'{sub}' not recognised")
            conds = _feat_conditions(c, f, fname)
            if _holds_for(conds, fname, sub) is not True:
                raise AnalysisError(f"store_feature: sub-group '{sub}' is "
                                    f"not written under {fname} == '{sub}'")
            units[sub] = (c, loops[0])
    for sub, (wcall, wloop) in sorted(units.items()):
        applicable = []
        for d in dels:
            h = _holds_for(_feat_conditions(d, guard, fname), fname, sub)
            if h is None:
                raise AnalysisError(f"store_feature: condition of "
                                    f"`{short(d, 30)}` not recognised")
            if h:
                applicable.append(d)
        bad = None
        for d in applicable:
            t = d.targets[0]
            memberwise = isinstance(t, ast.Subscript) and isinstance(
                t.value, ast.Subscript) and (
                txt(t.value.slice) == fname
                or const_str(t.value.slice) == sub)
            loops = [a for a in ancestors(d) if isinstance(a, ast.For)]
            same_dom = bool(loops) and names_in(loops[0].iter) == names_in(
                wloop.iter) and isinstance(t.slice, ast.Name) \
                and t.slice.id in names_in(loops[0].target)
            if not (memberwise and same_dom):
                bad = d
        ok = bool(applicable) and bad is None
        ctx.ob("R1.8", ok,
               f"'{sub}' is replaced member by member: exactly the members "
               f"that are rewritten are deleted" if ok else
               f"'{sub}' data are rewritten member by member (one dataset "
               f"per key of `data`) but replace mode runs "
               f"`{short(bad, 30) if bad is not None else 'no deletion'}`: "
               f"members that are not rewritten are removed / kept stale",
               node=bad if bad is not None else guard,
               label=f"replace unit of '{sub}'")


def r18(ctx, repo):
    init = wfunc(repo, WR, "RTDCWriter.__init__")
    files = [c for c in find_calls(init, name="h5py.File")]
    if len(files) != 1:
        raise AnalysisError("__init__: h5py.File call lost")
    md = kwarg(files[0], "mode", 1)
    if not isinstance(md, ast.IfExp):
        raise AnalysisError(f"__init__: file mode `{short(md, 40)}` not "
                            f"recognised")
    bad = []
    for m in MODES:
        def mode_res(n):
            if (isinstance(n, ast.Name) and n.id == "mode") \
                    or is_self_attr(n, "mode"):
                return "mode"
            if isinstance(n, ast.Name):
                # a local copy of the writer mode
                ds = [x for x in walk(init) if isinstance(x, ast.Assign)
                      and any(isinstance(t_, ast.Name) and t_.id == n.id
                              for t_ in x.targets)]
                if len(ds) == 1 and (is_self_attr(ds[0].value, "mode") or (
                        isinstance(ds[0].value, ast.Name)
                        and ds[0].value.id == "mode")):
                    return "mode"
            return None
        t = eval_pred(md.test, {"mode": m}, mode_res)
        got = const_str(md.body if t else md.orelse)
        want = "w" if m == "reset" else "a"
        if got != want:
            bad.append((m, got))
    ctx.ob("R1.8", not bad, "reset truncates the file, append/replace keep "
           "it" if not bad else f"file mode wrong for {bad}", node=files[0],
           label="file mode per writer mode")
    valid = [n for n in walk(init) if isinstance(n, ast.Compare)
             and isinstance(n.ops[0], ast.NotIn)
             and isinstance(n.left, ast.Name) and n.left.id == "mode"]
    got = set()
    if valid:
        got = set(fold_str_list(deref(repo, WR, init,
                                      valid[0].comparators[0]),
                                "valid modes"))
    ctx.ob("R1.8", got == set(MODES), "exactly append/replace/reset are "
           "accepted" if got == set(MODES) else f"accepted modes: "
           f"{sorted(got)}", node=valid[0] if valid else init,
           label="accepted modes", nontrivial=False)
    for q, writes in (("RTDCWriter.store_feature",
                       ("write_ndarray", "write_ragged",
                        "write_image_grayscale", "write_image_float32")),
                      ("RTDCWriter.write_text", ("create_dataset",
                                                 "resize"))):
        f = wfunc(repo, WR, q)
        cfg = CFG(f)
        dels = [n for n in walk(f) if isinstance(n, ast.Delete)]
        def pure_mode_test(t):
            """only writer-mode comparisons and membership tests – the
            shape of the replace guard (a test that also looks at the data,
            e.g. the item size, belongs to another rule)"""
            if isinstance(t, ast.BoolOp):
                return all(pure_mode_test(v) for v in t.values)
            if isinstance(t, ast.UnaryOp) and isinstance(t.op, ast.Not):
                return pure_mode_test(t.operand)
            if isinstance(t, ast.Compare) and len(t.ops) == 1:
                if isinstance(t.ops[0], (ast.In, ast.NotIn)):
                    return True
                return any(is_self_attr(x, "mode") for x in (
                    t.left, t.comparators[0]))
            return False
        mode_dels = []
        for d in dels:
            gs = [a for a in ancestors(d) if isinstance(a, ast.If)
                  and any(is_self_attr(x, "mode") for x in ast.walk(a.test))
                  and pure_mode_test(a.test)]
            if gs:
                mode_dels.append((d, gs[-1]))
        if not mode_dels:
            ctx.ob("R1.8", False, "replace mode does not delete the existing "
                   "dataset: new data are appended to the old ones",
                   node=f, label="replace deletes existing")
            continue
        guard = mode_dels[0][1]
        if any(g is not guard for _, g in mode_dels):
            raise AnalysisError(f"{q}: several mode guards")
        bad = _mode_guard_ok(guard.test,
                             lambda m, p: m == "replace" and p)
        ctx.ob("R1.8", not bad, "existing data are deleted exactly in "
               "replace mode" if not bad else
               f"deletion guard wrong for (mode, dataset) = {bad[0][:2]}: "
               f"{'deletes' if bad[0][2] else 'keeps'}", node=guard,
               label="replace deletes existing")
        # what is deleted: group[name] or, for trace, group[name][member]
        params = {a.arg for a in f.args.args}
        for d, _ in mode_dels:
            t = d.targets[0]
            base = t
            depth = 0
            while isinstance(base, ast.Subscript):
                depth += 1
                base = base.value
            keys = names_in(t) - {txt(base)}
            inner = [a for a in ancestors(d) if isinstance(a, ast.If)
                     and a is not guard and any(a is x for x in walk(guard))]
            lab = f"replace target {short(t, 30)}"
            if depth == 1:
                ok = bool(keys & params)
                ctx.ob("R1.8", ok, "the addressed dataset is deleted" if ok
                       else f"`{short(d, 40)}` does not delete the addressed "
                       f"dataset", node=d, label=lab)
            else:
                # member-wise deletion must be restricted to the members
                # that are rewritten (keys of the new data)
                loops = [a for a in ancestors(d) if isinstance(a, ast.For)]
                ok = bool(loops) and "data" in names_in(loops[0].iter)
                ctx.ob("R1.8", ok, "only the members that are rewritten are "
                       "deleted" if ok else f"`{short(d, 40)}` deletes "
                       f"members that are not rewritten", node=d, label=lab)
        if q.endswith("store_feature"):
            _replace_units(ctx, f, guard, [d for d, _ in mode_dels])
        # nothing is written before the deletion
        d_ids = set()
        for d, _ in mode_dels:
            d_ids |= set(cfg.ids_of(d))
        early = []
        for c in [n for n in walk(f) if isinstance(n, ast.Call)
                  and last_attr(n) in writes]:
            ids = cfg.ids_of(_stmt_of(c))
            if d_ids & cfg.reach(ids):
                early.append(c)
        ctx.ob("R1.8", not early, "the deletion precedes every write"
               if not early else f"`{short(early[0], 40)}` can run before "
               f"the old data are deleted", node=guard,
               label="delete precedes writes")


# ----------------------------------------------------------------------
# R1.9 reader memo independent of the request

HE = "dclab/rtdc_dataset/fmt_hierarchy/events.py"


def _param_deps(func):
    """{local name: set of named parameters it depends on} – flow-insensitive
    closure over assignments, loop targets and with-items.  `self` and the
    catch-alls *args / **kwargs are not tracked (the array protocol never
    fills them)."""
    a = func.args
    named = [x.arg for x in a.posonlyargs + a.args + a.kwonlyargs]
    named = [x for x in named if x not in ("self", "cls")]
    deps = {p_: {p_} for p_ in named}

    def of(expr):
        out = set()
        for n in ast.walk(expr):
            if isinstance(n, ast.Name) and n.id in deps:
                out |= deps[n.id]
        return out
    changed = True
    rounds = 0
    while changed and rounds < 20:
        changed = False
        rounds += 1
        for n in walk(func):
            pairs = []
            if isinstance(n, ast.Assign):
                pairs = [(t, n.value) for t in n.targets]
            elif isinstance(n, (ast.AugAssign, ast.AnnAssign)) \
                    and n.value is not None:
                pairs = [(n.target, n.value)]
            elif isinstance(n, (ast.For, ast.comprehension)):
                pairs = [(n.target, n.iter)]
            elif isinstance(n, ast.NamedExpr):
                pairs = [(n.target, n.value)]
            elif isinstance(n, ast.withitem) and n.optional_vars is not None:
                pairs = [(n.optional_vars, n.context_expr)]
            for tgt, val in pairs:
                d = of(val)
                if not d:
                    continue
                for x in ast.walk(tgt):
                    if isinstance(x, ast.Name) and isinstance(
                            x.ctx, ast.Store):
                        if not d <= deps.get(x.id, set()):
                            deps[x.id] = deps.get(x.id, set()) | d
                            changed = True
    return deps, of


def r19(ctx, repo):
    """A value memoised on `self` by a lazy reader is computed from the
    stored data only: named per-call arguments (dtype, copy, index, …) must
    not flow into an assignment of a `self.<attr>` memo, unless the memo is
    a mapping and the argument is (part of) the key."""
    for rel in (EV, LG, TB, HE):
        tree = repo.tree(rel)
        for cls in tree.body:
            if not isinstance(cls, ast.ClassDef):
                continue
            if cls.name.startswith("_"):
                # private helper classes (e.g. a cache object with explicit
                # lookup / store methods) have fixed callers, like private
                # methods; the readers that use them are analysed
                continue
            for fn in cls.body:
                if not isinstance(fn, ast.FunctionDef):
                    continue
                # accessors: public and protocol methods; the constructor
                # defines the object, private helpers have fixed callers
                if fn.name == "__init__" or (
                        fn.name.startswith("_")
                        and not fn.name.startswith("__")
                        and not any(txt(d) == "property"
                                    for d in fn.decorator_list)):
                    continue
                f = expand_private_calls(repo, rel, fn)
                deps, of = _param_deps(f)
                for n in walk(f):
                    if isinstance(n, ast.Assign):
                        tv = [(t, n.value) for t in n.targets]
                    elif isinstance(n, ast.AugAssign):
                        tv = [(n.target, n.value)]
                    else:
                        continue
                    for t, val in tv:
                        keyed = set()
                        attr = None
                        if is_self_attr(t):
                            attr = t.attr
                        elif isinstance(t, ast.Subscript) \
                                and is_self_attr(t.value):
                            attr = t.value.attr
                            keyed = of(t.slice)
                        if attr is None:
                            continue
                        leak = sorted(of(val) - keyed)
                        ctx.ob("R1.9", not leak,
                               f"self.{attr} is computed from the stored "
                               f"data only" + (f" (keyed by "
                                               f"{sorted(keyed)})"
                                               if keyed else "")
                               if not leak else
                               f"the memo self.{attr} is filled with a value "
                               f"that depends on the per-call argument(s) "
                               f"{leak}: the first caller's request is "
                               f"served to every later caller",
                               node=n,
                               key=f"{rel}::{cls.name}.{fn.name}::memo "
                                   f"self.{attr} independent of the request")


# ----------------------------------------------------------------------
# R1.A metadata write-through

def r1a(ctx, repo):
    """store_metadata writes every key it is given: in the loop that stores
    the HDF5 attributes every iteration that does not raise assigns
    `self.h5file.attrs[<sec:key>]` – no path skips the assignment depending
    on what the file already holds (the last call defines value and type)."""
    f = wfunc(repo, WR, "RTDCWriter.store_metadata")
    stores = [n for n in walk(f) if isinstance(n, ast.Assign)
              and isinstance(n.targets[0], ast.Subscript)
              and txt(n.targets[0].value) == "self.h5file.attrs"]
    if not stores:
        raise AnalysisError("store_metadata: attribute store lost")
    loops = []
    for st in stores:
        lp = _loop_of(st, f)
        if lp is None:
            raise AnalysisError("store_metadata: attribute store outside "
                                "the key loop")
        if all(lp is not x for x in loops):
            loops.append(lp)
    if len(loops) != 1:
        raise AnalysisError("store_metadata: several storing loops")
    lp = loops[0]
    cfg = CFG(f)
    s_ids = {i for st in stores for i in cfg.ids_of(st)}
    heads = set(cfg.ids_of(lp))
    first = cfg.ids_of(lp.body[0])
    ok = True
    for h in heads:
        for i in first:
            if not cfg.must_pass(lambda n: n.id in s_ids, dst=h, src=i,
                                 avoid_edge=lambda a, lab, b: lab == "x"):
                ok = False
    skip = [n for n in walk(lp) if isinstance(n, (ast.Continue, ast.Break))]
    ctx.ob("R1.A", ok, "every key of the given metadata is assigned to the "
           "HDF5 attributes" if ok else
           "an iteration of the storing loop can end without assigning the "
           "attribute"
           + (f" (`{short(skip[0].parent.test, 50)}` -> "
              f"{type(skip[0]).__name__.lower()})" if skip and isinstance(
                  skip[0].parent, ast.If) else "")
           + ": the file keeps the previously stored value and type",
           node=skip[0] if skip and not ok else lp,
           label="every given key is stored")
    # a storing loop that is fed by a private generator: every iteration of
    # the generator's key loop must reach a `yield`
    gen = None
    if isinstance(lp.iter, ast.Call) and isinstance(lp.iter.func, ast.Name):
        got = module_function(repo, WR, lp.iter.func.id)
        if got is not None and any(isinstance(n, ast.Yield)
                                   for n in walk(got[1])):
            gen = got[1]
            gcfg = CFG(gen)
            ystmts = [n for n in walk(gen) if isinstance(n, ast.Expr)
                      and isinstance(n.value, ast.Yield)]
            gloops = []
            for y in ystmts:
                gl = _loop_of(y, gen)
                if gl is None:
                    raise AnalysisError(f"{gen.name}: yield outside a loop")
                if all(gl is not x for x in gloops):
                    gloops.append(gl)
            if len(gloops) != 1:
                raise AnalysisError(f"{gen.name}: several yielding loops")
            y_ids = {i for y in ystmts for i in gcfg.ids_of(y)}
            okg = all(gcfg.must_pass(lambda n: n.id in y_ids, dst=h, src=i,
                                     avoid_edge=lambda a_, lab, b_:
                                     lab == "x")
                      for h in gcfg.ids_of(gloops[0])
                      for i in gcfg.ids_of(gloops[0].body[0]))
            ctx.ob("R1.A", okg, f"{gen.name} yields every key of the given "
                   f"metadata" if okg else f"an iteration of {gen.name} can "
                   f"end without yielding the key: it is never stored",
                   node=gloops[0], label="generator yields every key")
        elif got is None or True:
            if not (isinstance(lp.iter, ast.Call) and last_attr(lp.iter) in (
                    "items", "keys", "values", "sorted", "list")):
                raise AnalysisError(f"store_metadata: storing loop iterates "
                                    f"`{short(lp.iter, 40)}` – not followed")
    # the key is <section>:<key> of the iteration

    def is_sec_key(e):
        return isinstance(e, ast.JoinedStr) and len([
            v for v in e.values if isinstance(v, ast.FormattedValue)]) == 2 \
            and ":" in "".join(const_str(v) or "" for v in e.values)
    okk = True
    for st in stores:
        k_ = st.targets[0].slice
        if is_sec_key(k_):
            continue
        if isinstance(k_, ast.Name):
            kd = [n for n in walk(lp) if isinstance(n, ast.Assign)
                  and any(isinstance(t, ast.Name) and t.id == k_.id
                          for t in n.targets)]
            if len(kd) == 1 and is_sec_key(kd[0].value):
                continue
            if gen is not None and k_.id in names_in(lp.target):
                pos = [i for i, e in enumerate(getattr(
                    lp.target, "elts", [lp.target]))
                    if isinstance(e, ast.Name) and e.id == k_.id]
                ys = [n.value.value for n in walk(gen) if isinstance(
                    n, ast.Expr) and isinstance(n.value, ast.Yield)]
                good = bool(pos)
                for y in ys:
                    e = y.elts[pos[0]] if isinstance(y, ast.Tuple) \
                        and pos and pos[0] < len(y.elts) else y
                    if isinstance(e, ast.Name):
                        gd = [n for n in walk(gen) if isinstance(
                            n, ast.Assign) and any(
                            isinstance(t, ast.Name) and t.id == e.id
                            for t in n.targets)]
                        e = gd[0].value if len(gd) == 1 else e
                    good = good and is_sec_key(e)
                if good:
                    continue
            if kd and not is_sec_key(kd[0].value) and len(kd) == 1 \
                    and isinstance(kd[0].value, ast.JoinedStr):
                okk = False
                continue
        raise AnalysisError(f"store_metadata: attribute name "
                            f"`{short(k_, 30)}` not recognised")
    ctx.ob("R1.A", okk, "attributes are named <section>:<key>" if okk else
           "attribute name is not built as <section>:<key>",
           node=stores[0], label="attribute name", nontrivial=False)


# ----------------------------------------------------------------------
# R1.B stored features win

CORE = "dclab/rtdc_dataset/core.py"


def r1b(ctx, repo):
    """`RTDCBase.__getitem__` serves a feature that is stored in the file
    (`self._events`) from the file: every exit that hands out data from
    another source (ancillary cache or computation, basins) is dominated by
    the failed membership test of `self._events` – otherwise what is read
    back depends on the access history, not on what was written."""
    f = repo.func(CORE, "RTDCBase.__getitem__")
    params = [a.arg for a in f.args.args]
    if len(params) != 2:
        raise AnalysisError("RTDCBase.__getitem__: signature changed")
    key = params[1]
    cfg = CFG(f)

    def is_events_test(n):
        if n.ast is None or n.kind != "test":
            return False
        return any(isinstance(c, ast.Compare) and len(c.ops) == 1
                   and isinstance(c.ops[0], (ast.In, ast.NotIn))
                   and txt(c.left) == key
                   and is_self_attr(c.comparators[0], "_events")
                   for c in ast.walk(n.ast.test))
    tests = [n for n in cfg.nodes if is_events_test(n)]
    own = [n for n in walk(f) if isinstance(n, ast.Return)
           and isinstance(n.value, ast.Subscript)
           and is_self_attr(n.value.value, "_events")
           and txt(n.value.slice) == key]
    if not tests or not own:
        raise AnalysisError("RTDCBase.__getitem__: lookup of the stored "
                            "features lost")
    others = [n for n in walk(f) if isinstance(n, ast.Return)
              and n not in own and n.value is not None
              and not (isinstance(n.value, ast.Subscript)
                       and is_self_attr(n.value.value, "_usertemp"))]
    if not others:
        raise AnalysisError("RTDCBase.__getitem__: no other data source")
    bad = [r for r in others
           if not all(cfg.always_before(i, is_events_test)
                      for i in cfg.ids_of(r))]
    ctx.ob("R1.B", not bad,
           f"all {len(others)} exits serving computed / basin data come "
           f"after the lookup of the stored features" if not bad else
           f"`{short(bad[0], 30)}` (line {bad[0].lineno}) can be reached "
           f"before `{key} in self._events` was tested: a cached or basin "
           f"value shadows the feature stored in the file", node=bad[0]
           if bad else f, label="stored features are served first")
    # the stored feature is returned on the positive branch
    ok = True
    for r in own:
        g = r.parent
        ok = ok and isinstance(g, ast.If) and r in g.body and any(
            isinstance(c, ast.Compare) and isinstance(c.ops[0], ast.In)
            and is_self_attr(c.comparators[0], "_events")
            for c in ast.walk(g.test))
    ctx.ob("R1.B", ok, "a stored feature is returned as stored" if ok else
           "the stored feature is not returned on the branch that found it",
           node=own[0], label="stored feature returned on hit",
           nontrivial=False)


# ----------------------------------------------------------------------
# R1.C the store_* methods leave the caller's arguments unchanged

_INF = 10 ** 6
#: methods that change the container they are called on
_MUTATORS = {"pop", "popitem", "setdefault", "update", "clear", "append",
             "extend", "insert", "remove", "sort", "reverse", "add",
             "discard", "fill", "resize", "put", "itemset", "setflags",
             "byteswap", "partition"}
#: element access: the result is one level below the receiver
_ELEMENT = {"get", "setdefault", "pop", "popitem"}
#: views on the receiver (iteration yields its elements)
_VIEWS = {"items", "values", "keys"}
#: shallow copies: a new top level over shared elements
_SHALLOW_FUNCS = {"copy.copy", "dict", "list", "set", "sorted", "reversed",
                  "collections.OrderedDict", "OrderedDict"}
#: the same object (or a view of it) may come back
_ALIAS_FUNCS = {"np.asarray", "np.asanyarray", "np.ascontiguousarray",
                "np.atleast_1d", "np.atleast_2d", "np.squeeze", "np.ravel",
                "np.reshape", "np.transpose",
                "numpy.asarray", "numpy.asanyarray", "iter", "enumerate",
                "zip", "filter", "itertools.chain", "chain"}
_ALIAS_METHODS = {"reshape", "ravel", "squeeze", "view", "transpose",
                  "swapaxes", "__iter__"}
_DEEP_FUNCS = {"copy.deepcopy", "deepcopy", "np.array", "np.copy",
               "numpy.array", "numpy.copy", "json.loads"}


class _Ownership:
    """How many container levels of a value belong to the function: None –
    the value is not reached from a data parameter, 0 – it is (part of) the
    caller's object, k – the k outer levels are private copies, _INF – a
    deep copy.  Names are resolved through their reaching definitions."""

    def __init__(self, func, data_params):
        self.f = func
        self.params = set(data_params)
        self.cfg = CFG(func)
        self.defs = {}
        for n in walk(func):
            tg = []
            if isinstance(n, ast.Assign):
                tg = [(t, n.value, "is") for t in n.targets]
            elif isinstance(n, ast.AnnAssign) and n.value is not None:
                tg = [(n.target, n.value, "is")]
            elif isinstance(n, ast.AugAssign):
                tg = [(n.target, n, "aug")]
            elif isinstance(n, ast.For):
                tg = [(n.target, n.iter, "elem")]
            elif isinstance(n, ast.With):
                tg = [(i.optional_vars, i.context_expr, "other")
                      for i in n.items if i.optional_vars is not None]
            elif isinstance(n, ast.NamedExpr):
                tg = [(n.target, n.value, "is")]
            for t, v, how in tg:
                if how == "elem":
                    # loop target: bound position by position
                    for e in ast.walk(t):
                        if isinstance(e, ast.Name):
                            self.defs.setdefault(e.id, []).append(
                                (n, (t, v), "for"))
                    continue
                if isinstance(t, ast.Name):
                    self.defs.setdefault(t.id, []).append((n, v, how))
                elif isinstance(t, (ast.Tuple, ast.List)):
                    for e in ast.walk(t):
                        if isinstance(e, ast.Name):
                            self.defs.setdefault(e.id, []).append(
                                (n, v, "elem" if how == "elem" else "part"))
        self.busy = set()
        #: names bound by imports (calls through them are functions)
        self.modules = set()
        root = func
        while getattr(root, "parent", None) is not None:
            root = root.parent
        for n in ast.walk(root):
            if isinstance(n, (ast.Import, ast.ImportFrom)):
                for a in n.names:
                    self.modules.add((a.asname or a.name).split(".")[0])

    def _stmt_ids(self, node):
        cur = node
        while cur is not None and cur is not self.f:
            ids = self.cfg.ids_of(cur)
            if ids:
                return set(ids)
            cur = getattr(cur, "parent", None)
        raise AnalysisError(f"{self.f.name}: `{short(node, 30)}` is not in "
                            f"the control-flow graph")

    def _def_stmt(self, n):
        """the statement node of a definition (a walrus sits inside one)"""
        cur = n
        while cur is not None and not self.cfg.ids_of(cur):
            cur = getattr(cur, "parent", None)
        return cur

    def reaching(self, name, site):
        """definitions of `name` that reach the statement of `site`;
        the entry `None` stands for the parameter binding"""
        here = self._stmt_ids(site)
        dl = self.defs.get(name, [])
        def_ids = {}
        for d in dl:
            st = self._def_stmt(d[0])
            for i in self.cfg.ids_of(st) if st is not None else []:
                def_ids.setdefault(i, []).append(d)
        kills = set(def_ids)

        def avoid(N):
            return N.id in kills and N.id not in here
        out = []
        r = self.cfg.reach([self.cfg.entry], avoid_node=avoid,
                           include_sources=True)
        if r & here:
            out.append(None)
        for i, ds in def_ids.items():
            r = self.cfg.reach([i], avoid_node=avoid)
            if r & here:
                for d in ds:
                    if all(d is not o for o in out):
                        out.append(d)
        return out

    # -- expressions
    def _comp_binding(self, name_node):
        """generator of an enclosing comprehension that binds the name"""
        for a in ancestors(name_node):
            if a is self.f:
                break
            if isinstance(a, (ast.ListComp, ast.SetComp, ast.DictComp,
                              ast.GeneratorExp)):
                for g in a.generators:
                    if name_node.id in names_in(g.target):
                        return g
        return None

    def own(self, e):
        if isinstance(e, ast.Name):
            g = self._comp_binding(e)
            if g is not None:
                return self._bound(g.target, self._elem_struct(g.iter), e.id)
            key = (e.id, id(e))
            if key in self.busy:
                return None
            self.busy.add(key)
            try:
                vals = []
                for d in self.reaching(e.id, e):
                    if d is None:
                        vals.append(0 if e.id in self.params else None)
                        continue
                    n, v, how = d
                    if how == "for":
                        vals.append(self._bound(
                            v[0], self._elem_struct(v[1]), e.id))
                    elif how == "is":
                        vals.append(self.own(v))
                    elif how in ("elem", "part"):
                        vals.append(self._elem(self.own(v)))
                    elif how == "aug":
                        # x += ...: the same object for mutable values
                        vals.append(self.own_at(e.id, n))
                    else:
                        vals.append(None)
                return self._low(vals)
            finally:
                self.busy.discard(key)
        if isinstance(e, ast.Constant):
            return None
        if isinstance(e, (ast.Dict, ast.List, ast.Set, ast.Tuple)):
            parts = []
            if isinstance(e, ast.Dict):
                for k_, v_ in zip(e.keys, e.values):
                    # {**other}: a shallow copy of other
                    parts.append(self._elem(self.own(v_)) if k_ is None
                                 else self.own(v_))
            else:
                for v_ in e.elts:
                    parts.append(self._elem(self.own(v_.value)) if isinstance(
                        v_, ast.Starred) else self.own(v_))
            lo = self._low(parts)
            return None if lo is None else min(lo + 1, _INF)
        if isinstance(e, (ast.ListComp, ast.SetComp, ast.GeneratorExp)):
            lo = self.own(e.elt)
            return None if lo is None else min(lo + 1, _INF)
        if isinstance(e, ast.DictComp):
            lo = self.own(e.value)
            return None if lo is None else min(lo + 1, _INF)
        if isinstance(e, ast.IfExp):
            return self._low([self.own(e.body), self.own(e.orelse)])
        if isinstance(e, ast.BoolOp):
            return self._low([self.own(v) for v in e.values])
        if isinstance(e, ast.NamedExpr):
            return self.own(e.value)
        if isinstance(e, ast.Starred):
            return self.own(e.value)
        if isinstance(e, ast.Subscript):
            return self._elem(self.own(e.value))
        if isinstance(e, ast.Attribute):
            if self.own(e.value) is None:
                return None
            if e.attr in ("T", "flat", "real", "imag", "base"):
                return self.own(e.value)
            # shape, dtype, size, ...: nothing of the caller's containers
            return None
        if isinstance(e, ast.Call):
            fn = dotted(e.func) or ""
            args = list(e.args) + [k.value for k in e.keywords]
            if isinstance(e.func, ast.Attribute):
                recv = self.own(e.func.value)
                if recv is not None:
                    a = e.func.attr
                    if a in _ELEMENT:
                        return self._elem(recv)
                    if a in _VIEWS or a in _ALIAS_METHODS:
                        return recv
                    if a == "copy":
                        return max(recv, 1)
                    if a in ("astype", "tolist", "encode", "decode",
                             "format", "strip", "split", "join", "lower",
                             "upper", "replace", "resolve", "item", "sum",
                             "min", "max", "mean", "flatten", "tobytes",
                             "startswith", "endswith", "count", "index",
                             "with_suffix", "exists", "is_dir", "as_posix"):
                        return None
                    return "?"
                elif not (isinstance(e.func.value, ast.Name)
                          and e.func.value.id in self.modules | {"self"}):
                    # a method of an object that is not the caller's (HDF5
                    # group, path, ...): the result belongs to that object
                    return None
            if fn in _DEEP_FUNCS:
                if fn in ("np.array", "numpy.array") and any(
                        k.arg == "copy" for k in e.keywords):
                    return self._low([self.own(a) for a in args[:1]])
                return None
            if fn in _SHALLOW_FUNCS:
                k = self._low([self.own(a) for a in args[:1]])
                return None if k is None else (
                    "?" if k == "?" else max(k, 1))
            if fn in _ALIAS_FUNCS:
                got = [self.own(a) for a in args]
                if "?" in got:
                    return "?"
                return self._low(got)
            got = [self.own(a) for a in args]
            if all(g is None for g in got):
                return None
            if fn in ("len", "str", "int", "float", "bool", "repr", "bytes",
                      "isinstance", "hasattr", "type", "tuple", "max", "min",
                      "sum", "any", "all", "range", "hash", "id", "abs",
                      "round", "np.prod", "np.sum", "np.nanmin", "np.nanmax",
                      "np.nanmean", "np.issubdtype", "np.dtype", "np.zeros",
                      "np.ones", "np.empty", "np.full", "np.arange",
                      "np.zeros_like", "np.concatenate", "np.stack",
                      "np.hstack", "np.vstack", "pathlib.Path", "Path",
                      "json.dumps", "np.isnan", "np.any", "np.all",
                      "np.rec.array", "np.rec.fromarrays"):
                return None
            return "?"
        if isinstance(e, (ast.BinOp, ast.UnaryOp, ast.Compare, ast.JoinedStr,
                          ast.Lambda, ast.FormattedValue)):
            return None
        return "?"

    def _elem_struct(self, it):
        """what one iteration of `it` yields: ("val", ownership) or
        ("tuple", [one entry per position]) for zip / enumerate / items"""
        if isinstance(it, ast.Call) and not it.keywords and not any(
                isinstance(a, ast.Starred) for a in it.args):
            fn = dotted(it.func) or ""
            if fn == "zip" and it.args:
                return ("tuple", [self._elem_struct(a) for a in it.args])
            if fn == "enumerate" and it.args:
                return ("tuple", [("val", None),
                                  self._elem_struct(it.args[0])])
            if isinstance(it.func, ast.Attribute) and it.func.attr == "items" \
                    and not it.args:
                return ("tuple", [("val", None), ("val", self._elem(
                    self.own(it.func.value)))])
        return ("val", self._elem(self.own(it)))

    def _bound(self, target, struct, name):
        """ownership of `name` where `target` is bound to `struct`"""
        if isinstance(target, ast.Name):
            if struct[0] == "val":
                return struct[1]
            return self._low([self._bound(target, s_, name)
                              for s_ in struct[1]])
        if isinstance(target, ast.Starred):
            return self._bound(target.value, struct, name)
        if isinstance(target, (ast.Tuple, ast.List)):
            elts = target.elts
            if struct[0] == "tuple" and len(struct[1]) == len(elts) \
                    and not any(isinstance(x, ast.Starred) for x in elts):
                parts = struct[1]
            else:
                k = struct[1] if struct[0] == "val" else self._low(
                    [self._bound(ast.Name(id=name, ctx=ast.Load()), s_, name)
                     for s_ in struct[1]])
                parts = [("val", self._elem(k))] * len(elts)
            for x, s_ in zip(elts, parts):
                if name in names_in(x):
                    return self._bound(x, s_, name)
        return None

    def own_at(self, name, stmt):
        """ownership of `name` as it arrives at `stmt`"""
        probe = ast.Name(id=name, ctx=ast.Load())
        probe.parent = stmt
        return self.own(probe)

    @staticmethod
    def _low(vals):
        """lowest ownership; "?" (not classified) dominates"""
        if any(v == "?" for v in vals):
            return "?"
        vals = [v for v in vals if v is not None]
        return min(vals) if vals else None

    @staticmethod
    def _elem(k):
        if k is None or k == "?":
            return k
        return max(k - 1, 0)

    # -- mutation sites
    def sites(self):
        """(node, mutated expression, text) of every in-place change"""
        out = []
        for n in walk(self.f):
            tg = []
            if isinstance(n, ast.Assign):
                tg = list(n.targets)
            elif isinstance(n, ast.AugAssign):
                tg = [n.target]
            elif isinstance(n, ast.Delete):
                tg = list(n.targets)
            for t in tg:
                for t_ in (t.elts if isinstance(t, (ast.Tuple, ast.List))
                           else [t]):
                    if isinstance(t_, (ast.Subscript, ast.Attribute)):
                        out.append((n, t_.value, short(t_, 50)))
            if isinstance(n, ast.Call) and isinstance(n.func, ast.Attribute) \
                    and n.func.attr in _MUTATORS:
                out.append((n, n.func.value, short(n, 50)))
        return out


def _caller_data_changes(repo, func, data_params, depth=0):
    """in-place changes of objects the caller handed in: (text, why)"""
    ow = _Ownership(func, data_params)
    bad = []
    seen = 0
    for n, base, text in ow.sites():
        if isinstance(base, ast.Name) and base.id == "self" or (
                dotted(base) or "").startswith("self."):
            continue
        k = ow.own(base)
        if k is None:
            continue
        if k == "?":
            raise AnalysisError(
                f"{func.name}: `{text}` changes an object whose relation to "
                f"the arguments is not classified")
        seen += 1
        if k == 0:
            bad.append((n, text, f"`{short(base, 40)}` is (part of) the "
                        f"caller's object"))
    # data handed on to other writer methods
    cls = func.parent if isinstance(getattr(func, "parent", None),
                                    ast.ClassDef) else None
    for c in walk(func):
        if not (isinstance(c, ast.Call) and isinstance(c.func, ast.Attribute)
                and isinstance(c.func.value, ast.Name)
                and c.func.value.id == "self" and cls is not None):
            continue
        cal = [d for d in cls.body if isinstance(d, ast.FunctionDef)
               and d.name == c.func.attr]
        if len(cal) != 1 or cal[0].name == func.name:
            continue
        names = [a.arg for a in cal[0].args.args][1:]
        handed = []
        for i, a in enumerate(c.args):
            if isinstance(a, ast.Starred):
                continue
            if i < len(names) and ow.own(a) in (0, "?"):
                handed.append(names[i])
        for kw in c.keywords:
            if kw.arg in names and ow.own(kw.value) in (0, "?"):
                handed.append(kw.arg)
        if handed:
            if depth >= 5:
                raise AnalysisError(f"{func.name}: arguments handed on "
                                    f"deeper than five calls")
            sub, s2 = _caller_data_changes(
                repo, _deref_aliases(expand_private_calls(repo, WR, cal[0])),
                handed, depth + 1)
            seen += s2
            bad += [(c, f"{cal[0].name}: {t}", w) for _, t, w in sub]
    return bad, seen


def r1c(ctx, repo):
    """What a `store_*` call writes is determined by its arguments, and the
    call leaves them as they were: every in-place change (item / attribute
    assignment, del, pop / setdefault / update / append …) of an object that
    is reached from a parameter is made on a private copy that is deep
    enough for the level that is changed.  Otherwise the next writer that is
    given the same object stores something the caller never wrote."""
    cls = repo.cls(WR, "RTDCWriter")
    meths = [d for d in cls.body if isinstance(d, ast.FunctionDef)
             and d.name.startswith("store_")]
    if not meths:
        raise AnalysisError("RTDCWriter: no store_* method")
    for m in meths:
        f = _deref_aliases(expand_private_calls(repo, WR, m))
        params = [a.arg for a in f.args.args[1:] + f.args.kwonlyargs]
        bad, seen = _caller_data_changes(repo, f, params)
        ctx.ob("R1.C", not bad,
               f"{m.name}: {seen} in-place change(s) of argument-derived "
               f"objects, all on private copies" if not bad else
               f"{m.name}: `{bad[0][1]}` changes the object the caller "
               f"passed in ({bad[0][2]}; a shallow copy shares its nested "
               f"containers): the next call that is given the same object "
               f"writes what this call left in it",
               node=bad[0][0] if bad else f,
               label=f"{m.name} leaves its arguments unchanged",
               nontrivial=bool(seen or bad))


# ----------------------------------------------------------------------

def run(ctx):
    repo = ctx.repo
    ctx.rule("R1.1", "append protocol: new dataset offset 0 / length of "
             "data; offset = stored length read before resize; resize by "
             "len(data); stores at offset + source range", minimum=15)
    ctx.rule("R1.2", "chunk tiles + remainder cover [0, len) exactly once "
             "(polynomial identities in c, q, r)", minimum=7)
    ctx.rule("R1.3", "string width = max encoded length of stored objects; "
             "append into an existing dataset is dominated by an item-size "
             "test", minimum=5)
    ctx.rule("R1.4", "stored index = arange(n0+1, n0+n+1), n0 stored "
             "length, independent of caller values", minimum=5)
    ctx.rule("R1.5", "group / member names, mask scaling, integer tables "
             "text codec and version chain agree between writer, readers, "
             "copier", minimum=24)
    ctx.rule("R1.6", "__exit__ closes on all paths, rectifies when events "
             "exist; event count is the length of a stored feature dataset",
             minimum=5)
    ctx.rule("R1.7", "ragged entries named count+i, counter advances once "
             "per entry, starts at len(group) and cannot outlive a deleted "
             "group", minimum=5)
    ctx.rule("R1.8", "reset truncates; replace deletes exactly the "
             "data that are rewritten (member-wise for sub-groups) before "
             "writing", minimum=10)

    ctx.rule("R1.9", "lazy readers memoise values computed from the stored "
             "data only – named per-call arguments never flow into a "
             "self.<attr> memo (except as its key)", minimum=8)

    ctx.rule("R1.A", "store_metadata assigns every given key (no skip that "
             "depends on the stored value)", minimum=2)
    ctx.rule("R1.B", "RTDCBase.__getitem__ serves stored features before "
             "cached ancillary / basin data", minimum=2)
    ctx.rule("R1.C", "store_* methods change argument-derived objects only "
             "through private copies deep enough for the changed level",
             minimum=5)
    wn = wfunc(repo, WR, "RTDCWriter.write_ndarray")
    fr = find_frame(wn)

    def special_chunk(node, s):
        if isinstance(node, ast.Subscript) and isinstance(
                node.value, ast.Attribute) and node.value.attr == "chunks" \
                and isinstance(node.slice, ast.Constant) \
                and node.slice.value == 0:
            return S("c")
        return None
    sym = Sym(wn, {"data"}, S("c") * S("q") + S("r"), special_chunk)
    stores = r11_frame(ctx, wn, fr, sym, "ndarray")
    r12(ctx, wn, fr, sym, stores)

    wt = wfunc(repo, WR, "RTDCWriter.write_text")
    frt = find_frame(wt)
    # lines_as_bytes holds one entry per line
    lists = set()
    lines = _lines_param(wt)
    for lp in walk(wt):
        if isinstance(lp, ast.For) and isinstance(lp.iter, ast.Name) \
                and lp.iter.id == lines:
            for st in lp.body:
                if isinstance(st, ast.Expr) and isinstance(
                        st.value, ast.Call) and last_attr(
                        st.value) == "append" and isinstance(
                        st.value.func.value, ast.Name):
                    lists.add(st.value.func.value.id)
    for n in walk(wt):
        if isinstance(n, ast.Assign) and len(n.targets) == 1 and isinstance(
                n.targets[0], ast.Name) and isinstance(
                n.value, ast.ListComp) and len(n.value.generators) == 1:
            g = n.value.generators[0]
            if not g.ifs and isinstance(g.iter, ast.Name) \
                    and g.iter.id in {lines} | lists:
                lists.add(n.targets[0].id)
    symt = Sym(wt, {lines} | lists, S("n"))
    r11_frame(ctx, wt, frt, symt, "text")
    r13(ctx, wt, frt)
    r14(ctx, repo)
    r15(ctx, repo)
    r16(ctx, repo)
    r17(ctx, repo)
    r18(ctx, repo)
    r19(ctx, repo)
    r1a(ctx, repo)
    r1b(ctx, repo)
    r1c(ctx, repo)



def _event_count_from_feature_number(src):
    """applies to the tree before and after the F01b repair"""
    a = ('            self.h5file.attrs["experiment:event count"] = len(\n'
         '                self.h5file["events"][feats[0]])\n')
    b = ('            self.h5file.attrs["experiment:event count"] = '
         'len(feat0)\n')
    rep = ('            self.h5file.attrs["experiment:event count"] = '
           'len(feats)\n')
    for old in (a, b):
        if src.count(old) == 1:
            return src.replace(old, rep)
    return src


_TEXT_LOOP = (
    '            # convert lines to bytes\n'
    '            if not isinstance(line, bytes):\n'
    '                lbytes = line.encode("UTF-8")\n'
    '            else:\n'
    '                lbytes = line\n'
    '            max_length = max(max_length, len(lbytes))\n'
    '            lines_as_bytes.append(lbytes)\n')


def _counter_keyed_by_path(src):
    return src.replace("self._group_sizes[grp]",
                       "self._group_sizes[grp.name]").replace(
        "if grp not in self._group_sizes",
        "if grp.name not in self._group_sizes")


def _counter_keyed_by_path_with_reset(src):
    line = "                del events[feat]\n"
    if src.count(line) != 1:
        return src
    return _counter_keyed_by_path(src).replace(
        line, line + "                self._group_sizes.clear()\n")


def _width_before_encoding(src):
    """seeded change: len() taken before the line is re-bound to bytes"""
    if src.count(_TEXT_LOOP) != 1:
        return src
    return src.replace(
        _TEXT_LOOP,
        '            max_length = max(max_length, len(line))\n'
        '            # convert lines to bytes\n'
        '            if not isinstance(line, bytes):\n'
        '                line = line.encode("UTF-8")\n'
        '            lines_as_bytes.append(line)\n')


def _width_after_rebinding(src):
    if src.count(_TEXT_LOOP) != 1:
        return src
    return src.replace(
        _TEXT_LOOP,
        '            # convert lines to bytes\n'
        '            if not isinstance(line, bytes):\n'
        '                line = line.encode("UTF-8")\n'
        '            max_length = max(max_length, len(line))\n'
        '            lines_as_bytes.append(line)\n')


def _extract_block(src, first, last, call, helper_head, before, dedent):
    """cut the lines from the one starting with `first` to the one starting
    with `last` (inclusive), put `call` there and a new helper made of
    `helper_head` + the dedented block in front of the line `before`"""
    a = src.find(first)
    b = src.find(last, a)
    if a < 0 or b < 0 or src.count(before) != 1:
        return src
    b = src.index("\n", b) + 1
    block = src[a:b]
    body = "".join(line[dedent:] if line.strip() else line
                   for line in block.splitlines(True))
    src = src[:a] + call + src[b:]
    return src.replace(before, helper_head + body + "\n" + before)


def _chunk_loop_in_helper(src):
    return _extract_block(
        src,
        "            chunk_size = dset.chunks[0]\n",
        "                dset[offset+start_e:offset+stop_e] = ",
        "            self._populate_in_chunks(dset=dset, data=data, "
        "offset=offset)\n",
        "    @staticmethod\n"
        "    def _populate_in_chunks(dset, data, offset):\n"
        '        """copy `data` to `dset[offset:]` chunk by chunk"""\n',
        "    def write_ragged(self, group, name, data):\n", 4)


def _dispatch_with_constants(src):
    edits = [
        ('        elif feat in ["image", "image_bg", "mask", "qpi_oah", '
         '"qpi_oah_bg"]:\n',
         "        elif feat in FEATURES_IMAGE_GRAYSCALE:\n"
         '            is_mask = feat == "mask"\n'),
        ('is_boolean=(feat == "mask"))', "is_boolean=is_mask)"),
        ("data=np.arange(nev0 + 1, nev0 + nev + 1),",
         "data=np.arange(index_first, index_last + 1),"),
        ("            self.write_ndarray(group=events,\n"
         '                               name="index",\n',
         "            index_first = nev0 + 1\n"
         "            index_last = nev0 + nev\n"
         "            self.write_ndarray(group=events,\n"
         '                               name="index",\n'),
        ("\n\nclass RTDCWriter:\n",
         '\n\nFEATURES_IMAGE_GRAYSCALE = ["image", "image_bg", "mask", '
         '"qpi_oah",\n                            "qpi_oah_bg"]\n'
         "\n\nclass RTDCWriter:\n"),
    ]
    for old, new in edits:
        if src.count(old) != 1:
            return src
        src = src.replace(old, new)
    return src


def _lines_by_comprehension(src):
    old = ("        max_length = 100\n"
           "        lines_as_bytes = []\n"
           "        for line in lines:\n" + _TEXT_LOOP)
    if src.count(old) != 1:
        return src
    return src.replace(
        old,
        "        lines_as_bytes = [\n"
        '            line if isinstance(line, bytes) else line.encode('
        '"UTF-8")\n'
        "            for line in lines]\n"
        "        max_length = max([100] + [len(lbytes) for lbytes in "
        "lines_as_bytes])\n")


def _width_over_raw_lines(src):
    """comprehension form measured on the unencoded lines"""
    new = _lines_by_comprehension(src)
    return new.replace("[len(lbytes) for lbytes in lines_as_bytes]",
                       "[len(line) for line in lines]")


_CHUNK_BLOCK_FIRST = "            num_chunks = len(data) // chunk_size\n"
_CHUNK_BLOCK_LAST = "                dset[offset+start_e:offset+stop_e] = "


def _single_stepped_loop(src, bound="num_events"):
    """chunk loop and remainder merged: range(0, n, c) + min()"""
    a = src.find(_CHUNK_BLOCK_FIRST)
    b = src.find(_CHUNK_BLOCK_LAST, a)
    if a < 0 or b < 0:
        return src
    b = src.index("\n", b) + 1
    return src[:a] + (
        "            num_events = len(data)\n"
        "            for start in range(0, num_events, chunk_size):\n"
        f"                stop = min(start + chunk_size, {bound})\n"
        "                dset[offset+start:offset+stop] = data[start:stop]\n"
    ) + src[b:]


def _single_stepped_loop_short(src):
    return _single_stepped_loop(src, bound="num_events - 1")


def _reader_dict_dispatch(src):
    old = ('            elif key == "mask":\n'
           "                fdata = H5MaskEvent(data)\n"
           '            elif key == "trace":\n'
           "                fdata = H5TraceEvent(data)\n")
    if src.count(old) != 1:
        return src
    return src.replace(
        old, "            elif key in FEATURE_WRAPPERS:\n"
        "                fdata = FEATURE_WRAPPERS[key](data)\n") + (
        '\n\nFEATURE_WRAPPERS = {\n    "mask": H5MaskEvent,\n'
        '    "trace": H5TraceEvent,\n}\n')


def _reader_dict_dispatch_without_mask(src):
    return _reader_dict_dispatch(src).replace(
        '    "mask": H5MaskEvent,\n', "")


def _enumerate_from_offset(src, start="line_offset"):
    old = ("        for ii, lbytes in enumerate(lines_as_bytes):\n"
           "            txt_dset[line_offset + ii] = lbytes\n")
    if src.count(old) != 1:
        return src
    return src.replace(
        old, "        for line_index, lbytes in enumerate(lines_as_bytes,\n"
        f"                                            start={start}):\n"
        "            txt_dset[line_index] = lbytes\n")


def _enumerate_from_zero(src):
    return _enumerate_from_offset(src, start="0")


def _ragged_try_except(src, start="curid"):
    old = ("        if grp not in self._group_sizes:\n"
           "            self._group_sizes[grp] = len(grp)\n"
           "        curid = self._group_sizes[grp]\n"
           "        for ii, cc in enumerate(data):\n"
           '            grp.create_dataset("{}".format(curid + ii),\n')
    if src.count(old) != 1:
        return src
    return src.replace(
        old, "        try:\n"
        "            curid = self._group_sizes[grp]\n"
        "        except KeyError:\n"
        "            curid = self._group_sizes[grp] = len(grp)\n"
        f"        for dset_id, cc in enumerate(data, start={start}):\n"
        "            grp.create_dataset(str(dset_id),\n")


def _ragged_try_except_late(src):
    return _ragged_try_except(src, start="curid + 1")


_META_STORE = (
    '                if sec == "user":\n'
    '                    # store user-defined metadata as-is\n'
    '                    self.h5file.attrs[idk] = value\n'
    '                else:\n'
    '                    # pipe the metadata through the hard-coded converter\n'
    '                    # functions\n'
    '                    convfunc = dfn.get_config_value_func(sec, ck)\n'
    '                    self.h5file.attrs[idk] = convfunc(value)\n')


def _metadata_single_store(src, skip=False):
    if src.count(_META_STORE) != 1:
        return src
    new = ('                if sec != "user":\n'
           '                    convfunc = dfn.get_config_value_func(sec, ck)\n'
           '                    value = convfunc(value)\n')
    if skip:
        new += ('                if (idk in self.h5file.attrs\n'
                '                        and np.array_equal('
                'self.h5file.attrs[idk], value)):\n'
                '                    continue\n')
    new += '                self.h5file.attrs[idk] = value\n'
    return src.replace(_META_STORE, new)


def _metadata_skip_equal(src):
    return _metadata_single_store(src, skip=True)


def _ragged_try_except_two_steps(src):
    old = ("        if grp not in self._group_sizes:\n"
           "            self._group_sizes[grp] = len(grp)\n"
           "        curid = self._group_sizes[grp]\n")
    if src.count(old) != 1:
        return src
    return src.replace(
        old, "        try:\n"
        "            curid = self._group_sizes[grp]\n"
        "        except KeyError:\n"
        "            curid = len(grp)\n"
        "            self._group_sizes[grp] = curid\n").replace(
        '"{}".format(curid + ii)', 'f"{curid + ii}"')


def _ragged_try_except_two_steps_zero(src):
    return _ragged_try_except_two_steps(src).replace(
        "            curid = len(grp)\n", "            curid = 0\n")


def _dtype_first_match(src, second="(FEATURES_UINT64, np.uint64)",
                       test="feat in feat_names"):
    old = ("        if feat in FEATURES_UINT32:\n"
           "            dtype = np.uint32\n"
           "        elif feat in FEATURES_UINT64:\n"
           "            dtype = np.uint64\n"
           "        else:\n"
           "            dtype = None\n")
    if src.count(old) != 1:
        return src
    return src.replace(
        old, "        dtype_dispatch = (\n"
        "            (FEATURES_UINT32, np.uint32),\n"
        f"            {second},\n"
        "        )\n"
        "        dtype = next((feat_dtype for feat_names, feat_dtype in "
        "dtype_dispatch\n"
        f"                      if {test}), None)\n")


def _dtype_first_match_suffix(src):
    return _dtype_first_match(
        src, second='(("_max", "_npeaks"), np.uint32)',
        test="feat in feat_names or feat.endswith(tuple(feat_names))")


def _chunk_while_loop(src, guard="if not num_remain:"):
    first = "            chunk_size = dset.chunks[0]\n"
    last = "                dset[offset+start_e:offset+stop_e] = "
    a = src.find(first)
    b = src.find(last, a)
    if a < 0 or b < 0:
        return src
    b = src.index("\n", b) + 1
    return src[:a] + (
        "            chunk_size = dset.chunks[0]\n"
        "            num_chunks = len(data) // chunk_size\n"
        "            ii = 0\n"
        "            while ii < num_chunks:\n"
        "                start = ii * chunk_size\n"
        "                stop = start + chunk_size\n"
        "                dset[offset+start:offset+stop] = data[start:stop]\n"
        "                ii += 1\n"
        "            num_remain = len(data) % chunk_size\n"
        f"            {guard}\n"
        "                return dset\n"
        "            start_e = num_chunks * chunk_size\n"
        "            stop_e = start_e + num_remain\n"
        "            dset[offset+start_e:offset+stop_e] = "
        "data[start_e:stop_e]\n") + src[b:]


def _chunk_while_loop_bad_guard(src):
    return _chunk_while_loop(src, guard="if num_remain < 2:")


def _log_reader_guard_clauses(src):
    old = ('        if key in self.keys():\n'
           '            log = list(self.h5file["logs"][key])\n'
           '            if isinstance(log[0], bytes):\n'
           '                log = [li.decode("utf") for li in log]\n'
           '        else:\n')
    a = src.find(old)
    b = src.find("        return log\n", a)
    if a < 0 or b < 0:
        return src
    raise_part = src[a + len(old):b]
    return src[:a] + (
        "        if key not in self.keys():\n" + raise_part
        + '        log = list(self.h5file["logs"][key])\n'
        '        if isinstance(log[0], bytes):\n'
        '            return [li.decode("utf") for li in log]\n'
        "        return log\n") + src[b + len("        return log\n"):]


def _ragged_in_module_helper(src):
    first = "        if grp not in self._group_sizes:\n"
    last = "            self._group_sizes[grp] += 1\n"
    a = src.find(first)
    b = src.find(last, a)
    if a < 0 or b < 0:
        return src
    b += len(last)
    body = src[a:b].replace("self._group_sizes", "group_sizes").replace(
        "self.compression_kwargs", "compression_kwargs")
    body = "".join(line[4:] if line.strip() else line
                   for line in body.splitlines(True))
    src = src[:a] + ("        _append_ragged_entries(grp, data, "
                     "self._group_sizes,\n"
                     "                               "
                     "self.compression_kwargs)\n") + src[b:]
    return src + ("\n\ndef _append_ragged_entries(grp, data, group_sizes, "
                  "compression_kwargs):\n" + body)


def _width_by_chain(src, measured="lines_as_bytes"):
    new = _lines_by_comprehension(src)
    return new.replace(
        "        max_length = max([100] + [len(lbytes) for lbytes in "
        "lines_as_bytes])\n",
        "        min_length = 100\n"
        "        max_length = max(\n"
        f"            itertools.chain([min_length], map(len, {measured})))\n")


def _width_by_chain_raw(src):
    return _width_by_chain(src, measured="lines")


def _exit_body_in_helper(src):
    old = ('            self.h5file.require_group("events")\n'
           '            if len(self.h5file["events"]):\n'
           '                self.rectify_metadata()\n'
           '            self.version_brand()\n')
    head = "    @staticmethod\n    def get_best_nd_chunks("
    if src.count(old) != 1 or src.count(head) != 1:
        return src
    src = src.replace(old, "            self._finalize_h5file()\n")
    return src.replace(
        head, "    def _finalize_h5file(self):\n"
        '        self.h5file.require_group("events")\n'
        '        if len(self.h5file["events"]):\n'
        "            self.rectify_metadata()\n"
        "        self.version_brand()\n\n" + head)


def _metadata_by_generator(src, skip=False):
    first = "        # Write metadata\n        for sec in meta:\n"
    a = src.find(first)
    b = src.find("    def store_table(self, name, cmp_array):", a)
    if a < 0 or b < 0 or src.count(_META_STORE) != 1:
        return src
    gen = ("\n\ndef _iter_metadata_attributes(meta):\n"
           "    for sec in meta:\n"
           "        for ck in meta[sec]:\n"
           '            idk = f"{sec}:{ck}"\n'
           "            value = meta[sec][ck]\n"
           "            if isinstance(value, bytes):\n"
           '                value = value.decode("utf-8")\n'
           + ("            if value is None:\n                continue\n"
              if skip else "")
           + '            if sec == "user":\n'
           "                yield idk, value\n"
           "            else:\n"
           "                convfunc = dfn.get_config_value_func(sec, ck)\n"
           "                yield idk, convfunc(value)\n")
    return (src[:a] + "        for idk, value in "
            "_iter_metadata_attributes(meta):\n"
            "            self.h5file.attrs[idk] = value\n\n" + src[b:] + gen)


def _metadata_by_generator_skipping(src):
    return _metadata_by_generator(src, skip=True)


MUTANTS = [
    # R1.1
    ("ndarray: offset read after the resize", WR,
     ("            offset = dset.shape[0]\n"
      "            dset.resize(offset + data.shape[0], axis=0)\n",
      "            dset.resize(dset.shape[0] + data.shape[0], axis=0)\n"
      "            offset = dset.shape[0]\n"), "R1.1"),
    ("ndarray: append starts at 0", WR,
     ("            offset = dset.shape[0]\n", "            offset = 0\n"),
     "R1.1"),
    ("ndarray: resize by one event", WR,
     ("dset.resize(offset + data.shape[0], axis=0)",
      "dset.resize(offset + 1, axis=0)"), "R1.1"),
    ("ndarray: chunk store ignores offset", WR,
     ("dset[offset+start:offset+stop] = data[start:stop]",
      "dset[start:stop] = data[start:stop]"), "R1.1"),
    ("text: line stored at ii", WR,
     ("txt_dset[line_offset + ii] = lbytes", "txt_dset[ii] = lbytes"),
     "R1.1"),
    # R1.2
    ("remainder branch dropped", WR,
     ("            if num_remain:\n"
      "                start_e = num_chunks * chunk_size\n"
      "                stop_e = start_e + num_remain\n"
      "                dset[offset+start_e:offset+stop_e] = "
      "data[start_e:stop_e]\n", ""), "R1.2"),
    ("chunk loop one short", WR,
     ("for ii in range(num_chunks):", "for ii in range(num_chunks - 1):"),
     "R1.2"),
    ("tile stop off by one", WR,
     ("                stop = start + chunk_size\n",
      "                stop = start + chunk_size - 1\n"), "R1.2"),
    ("remainder starts one late", WR,
     ("start_e = num_chunks * chunk_size",
      "start_e = num_chunks * chunk_size + 1"), "R1.2"),
    ("remainder one short", WR,
     ("stop_e = start_e + num_remain", "stop_e = start_e + num_remain - 1"),
     "R1.2"),
    ("remainder guard skips a single event", WR,
     ("            if num_remain:\n", "            if num_remain > 1:\n"),
     "R1.2"),
    # R1.3
    ("width measured in characters", WR,
     ("max_length = max(max_length, len(lbytes))",
      "max_length = max(max_length, len(line))"), "R1.3"),
    ("width of the last line only", WR,
     ("max_length = max(max_length, len(lbytes))",
      "max_length = len(lbytes)"), "R1.3"),
    # R1.4
    ("index taken from the caller", WR,
     ("data=np.arange(nev0 + 1, nev0 + nev + 1),",
      "data=np.atleast_1d(data),"), "R1.4"),
    ("index restarts at 1 on append", WR,
     ("np.arange(nev0 + 1, nev0 + nev + 1)", "np.arange(1, nev + 1)"),
     "R1.4"),
    # R1.5
    ("logs written to another group", WR,
     ('log_group = self.h5file.require_group("logs")',
      'log_group = self.h5file.require_group("log")'), "R1.5"),
    ("contour names zero-padded", WR,
     ('"{}".format(curid + ii)', '"{:04d}".format(curid + ii)'), "R1.5"),
    ("contour reader shifts the key", EV,
     ("output.append(self.h5group[str(evid)][:])",
      "output.append(self.h5group[str(evid + 1)][:])"), "R1.5"),
    ("mask scale overflows uint8", WR,
     ("np.asarray(data, dtype=np.uint8) * 255",
      "np.asarray(data, dtype=np.uint8) * 256"), "R1.5"),
    ("mask read back as uint8", EV,
     ("return np.asarray(self.h5dataset[idx], dtype=bool)",
      "return np.asarray(self.h5dataset[idx], dtype=np.uint8)"), "R1.5"),
    ("log lines decoded as ascii", LG,
     ('li.decode("utf")', 'li.decode("ascii")'), "R1.5"),
    ("copier puts logs into tables", CP,
     ('dst_loc=dst_h5file["logs"],', 'dst_loc=dst_h5file["tables"],'),
     "R1.5"),
    # R1.6
    ("close not in finally", WR,
     ("        finally:\n"
      "            # This is guaranteed to run if any exception is raised.\n"
      "            self.close()\n", "        self.close()\n"), "R1.6"),
    ("event count is the number of features", WR,
     _event_count_from_feature_number, "R1.6"),
    # R1.7
    ("ragged counter not advanced", WR,
     ("            self._group_sizes[grp] += 1\n", ""), "R1.7"),
    ("ragged names start one late", WR,
     ('"{}".format(curid + ii)', '"{}".format(curid + ii + 1)'), "R1.7"),
    ("ragged counter starts at 0 for a re-opened file", WR,
     ("self._group_sizes[grp] = len(grp)", "self._group_sizes[grp] = 0"),
     "R1.7"),
    # R1.8
    ("reset opens the file for appending", WR,
     ('mode=("w" if mode == "reset" else "a")',
      'mode=("w" if mode == "replace" else "a")'), "R1.8"),
    ("replace keeps the old log", WR,
     ('if name in group and self.mode == "replace":',
      'if name in group and self.mode == "reset":'), "R1.8"),
    ("features deleted in every mode but append", WR,
     ('if feat in events and self.mode == "replace":',
      'if feat in events and self.mode != "append":'), "R1.8"),
    # seeded changes that escaped the first version of the rules
    ("ragged counter cached under the group path", WR,
     _counter_keyed_by_path, "R1.7"),
    ("remainder taken from the dataset length", WR,
     ("num_remain = len(data) % chunk_size",
      "num_remain = len(dset) % chunk_size"), "R1.2"),
    ("width measured before the line is encoded", WR,
     _width_before_encoding, "R1.3"),
    ("comprehension form measures the unencoded lines", WR,
     _width_over_raw_lines, "R1.3"),
    ("merged chunk loop clipped one event short", WR,
     _single_stepped_loop_short, "R1.2"),
    ("dict dispatch of the reader lost the mask wrapper", EV,
     _reader_dict_dispatch_without_mask, "R1.5"),
    ("cached ancillary data looked up before the stored features", CORE,
     ("        if feat in self._events:\n"
      "            return self._events[feat]\n"
      "        elif feat in self._usertemp:\n"
      "            return self._usertemp[feat]\n"
      "        # 1. Check for cached ancillary data\n"
      "        data = self._get_ancillary_feature_data(feat, "
      "no_compute=True)\n"
      "        if data is not None:\n"
      "            return data\n",
      "        if feat in self._ancillaries:\n"
      "            data = self._get_ancillary_feature_data(feat, "
      "no_compute=True)\n"
      "            if data is not None:\n"
      "                return data\n"
      "        if feat in self._events:\n"
      "            return self._events[feat]\n"
      "        elif feat in self._usertemp:\n"
      "            return self._usertemp[feat]\n"), "R1.B"),
    ("uint32 storage for every feature ending in _max / _npeaks", WR,
     ("        if feat in FEATURES_UINT32:\n",
      '        if feat in FEATURES_UINT32 or feat.endswith(("_max", '
      '"_npeaks")):\n'), "R1.5"),
    ("uint64 storage for every feature starting with 'frame'", WR,
     ("        elif feat in FEATURES_UINT64:\n",
      '        elif feat.startswith("frame"):\n'), "R1.5"),
    ("first-match dtype table with a suffix row", WR,
     _dtype_first_match_suffix, "R1.5"),
    ("while-loop tiling skips a single remaining event", WR,
     _chunk_while_loop_bad_guard, "R1.2"),
    ("chained width expression measures the unencoded lines", WR,
     _width_by_chain_raw, "R1.3"),
    ("wider-dtype re-creation only in append mode", WR,
     ('            if (txt_dset.dtype.kind == "S"\n',
      '            if (self.mode == "append"\n'
      '                    and txt_dset.dtype.kind == "S"\n'), "R1.3"),
    ("metadata generator skips None values", WR,
     _metadata_by_generator_skipping, "R1.A"),
    ("metadata equal to the stored value are not rewritten", WR,
     _metadata_skip_equal, "R1.A"),
    ("try/except get-or-create starts an unknown group at 0", WR,
     _ragged_try_except_two_steps_zero, "R1.7"),
    ("ragged entries enumerated from count + 1", WR,
     _ragged_try_except_late, "R1.7"),
    ("lines enumerated from 0 instead of the line offset", WR,
     _enumerate_from_zero, "R1.1"),
    # round 3
    ("volume defect test reads the second chain entry", FD,
     ('last_version = software_version.split("|")[-1].strip()',
      'last_version = software_version.split("|", 1)[-1].strip()', 1),
     "R1.5"),
    ("inert_ratio defect test reads the first chain entry", FD,
     ("last_version = version_pipeline[-1]",
      "last_version = version_pipeline[0]"), "R1.5"),
    ("writer joins the version chain with another separator", WR,
     ('new_version = " | ".join(version_chain)',
      'new_version = " ; ".join(version_chain)'), "R1.5"),
    ("rectify_metadata only when this session stored features", WR,
     ('            if len(self.h5file["events"]):\n',
      '            if self._group_sizes and len(self.h5file["events"]):\n'),
     "R1.6"),
    ("log lines stripped on read", LG,
     ('log = [li.decode("utf") for li in log]',
      'log = [li.decode("utf").rstrip() for li in log]'), "R1.5"),
    # round 2
    ("H5ScalarEvent memo loaded with the caller's dtype", EV,
     ("self._array = np.asarray(self.h5ds, *args, **kwargs)",
      "self._array = np.asarray(self.h5ds, dtype=dtype, *args, **kwargs)"),
     "R1.9"),
    ("ChildScalar memo converted to the caller's dtype", HE,
     ("self._array = hparent[self.feat][filt_arr]",
      "self._array = np.asarray(hparent[self.feat][filt_arr], dtype=dtype)"),
     "R1.9"),
    ("contour length memo taken from the requested slice", EV,
     ("            indices = np.arange(len(self))[key]\n",
      "            indices = np.arange(len(self))[key]\n"
      "            self._length = len(indices)\n"), "R1.9"),
    ("replace mode deletes the whole trace group", WR,
     ('            if feat == "trace":\n'
      "                for tr_name in data.keys():\n"
      "                    if tr_name in events[feat]:\n"
      "                        del events[feat][tr_name]\n"
      "            else:\n"
      "                del events[feat]\n",
      "            del events[feat]\n"), "R1.8"),
    # round 7: the caller's metadata dictionary
    ("metadata copied one level deep only", WR,
     ("        meta = copy.deepcopy(meta)\n",
      "        meta = copy.copy(meta)\n"), "R1.C"),
    ("metadata sections edited in the caller's dictionary", WR,
     ("        meta = copy.deepcopy(meta)\n", ""), "R1.C"),
    ("metadata copied with dict()", WR,
     ("        meta = copy.deepcopy(meta)\n",
      "        meta = dict(meta)\n"), "R1.C"),
]

#: apply only to the tree with the repairs of F01 in place (the guarded
#: re-creation in write_text); merge into MUTANTS once F01 is fixed
MUTANTS_AFTER_FIX = [
    ("F01 returns: width test inverted", WR,
     ("and txt_dset.dtype.itemsize < max_length):",
      "and txt_dset.dtype.itemsize > max_length):"), "R1.3"),
    ("F01 returns: width test off by one", WR,
     ("and txt_dset.dtype.itemsize < max_length):",
      "and txt_dset.dtype.itemsize + 1 < max_length):"), "R1.3"),
    ("re-created log loses the old lines", WR,
     ("return self.write_text(group, name, old_lines + lines_as_bytes)",
      "return self.write_text(group, name, lines_as_bytes)"), "R1.3"),
    ("F01b returns: trace group length used", WR,
     ('            if feats[0] == "trace" and len(feat0):\n'
      '                # The "trace" group holds one dataset per trace '
      'name.\n'
      '                feat0 = feat0[sorted(feat0.keys())[0]]\n', ""),
     "R1.6"),
]

def _metadata_copy_renamed(src):
    """store_metadata works on `md`, a deep copy of the parameter"""
    a = src.index("    def store_metadata(self, meta):")
    b = src.index("    def store_table(", a)
    body = src[a:b]
    c = body.index("        meta = copy.deepcopy(meta)\n")
    head, tail = body[:c], body[c:]
    tail = tail.replace("        meta = copy.deepcopy(meta)\n",
                        "        md = copy.deepcopy(meta)\n", 1)
    tail = tail.replace("meta.", "md.").replace("meta[", "md[").replace(
        "in meta:", "in md:")
    return src[:a] + head + tail + src[b:]


TWINS = [
    ("tile stop written as (ii + 1) * chunk", WR,
     ("                stop = start + chunk_size\n",
      "                stop = (ii + 1) * chunk_size\n")),
    ("quotient and remainder via divmod", WR,
     [("            num_chunks = len(data) // chunk_size\n",
       "            num_chunks, num_remain = divmod(len(data), chunk_size)\n"),
      ("            num_remain = len(data) % chunk_size\n", "")]),
    ("remainder guard written as > 0", WR,
     ("            if num_remain:\n", "            if num_remain > 0:\n")),
    ("remainder source open-ended", WR,
     ("data[start_e:stop_e]", "data[start_e:]")),
    ("resize by len(data)", WR,
     ("dset.resize(offset + data.shape[0], axis=0)",
      "dset.resize(len(data) + offset, axis=0)")),
    ("index as shifted arange", WR,
     ("np.arange(nev0 + 1, nev0 + nev + 1)", "np.arange(nev) + nev0 + 1")),
    ("stored index length as conditional expression", WR,
     ('            if "index" in events:\n'
      '                nev0 = len(events["index"])\n'
      '            else:\n'
      '                nev0 = 0\n',
      '            nev0 = len(events["index"]) if "index" in events '
      'else 0\n')),
    ("ragged name via str()", WR,
     ('"{}".format(curid + ii)', "str(curid + ii)")),
    ("offset variables renamed", WR,
     lambda s: s.replace("offset", "off0")),
    ("text position written as ii + offset", WR,
     ("txt_dset[line_offset + ii] = lbytes",
      "txt_dset[ii + line_offset] = lbytes")),
    ("ragged counter cached under the path, reset on deletion", WR,
     _counter_keyed_by_path_with_reset),
    ("remainder from data.shape[0]", WR,
     ("num_remain = len(data) % chunk_size",
      "num_remain = data.shape[0] % chunk_size")),
    ("line re-bound to its encoded form, then measured", WR,
     _width_after_rebinding),
    # refactorings by independent agents (reduced to the essential edit)
    ("chunk loop extracted into a private static helper", WR,
     _chunk_loop_in_helper),
    ("dispatch through module constants and single-assignment locals", WR,
     _dispatch_with_constants),
    ("encoded lines and width by comprehension", WR,
     _lines_by_comprehension),
    # round 2
    ("H5ScalarEvent memo assigned through a local", EV,
     ("            self._array = np.asarray(self.h5ds, *args, **kwargs)\n",
      "            arr = np.asarray(self.h5ds, *args, **kwargs)\n"
      "            self._array = arr\n")),
    ("trace members deleted under the literal group name", WR,
     ("del events[feat][tr_name]", 'del events["trace"][tr_name]')),
    ("trace members deleted in a loop over data", WR,
     ("                for tr_name in data.keys():\n"
      "                    if tr_name in events[feat]:",
      "                for tr_name in data:\n"
      "                    if tr_name in events[feat]:")),
    ("chunk loop and remainder merged into range(0, n, c) with min()", WR,
     _single_stepped_loop),
    ("reader wrappers dispatched through a module-level dict", EV,
     _reader_dict_dispatch),
    # round 3
    ("last chain entry via rsplit", FD,
     ('last_version = software_version.split("|")[-1].strip()',
      'last_version = software_version.rsplit("|", 1)[-1].strip()', 1)),
    ("rectify guard written as > 0", WR,
     ('            if len(self.h5file["events"]):\n',
      '            if len(self.h5file["events"]) > 0:\n')),
    ("log lines decoded by a generator", LG,
     ('log = [li.decode("utf") for li in log]',
      'log = list(li.decode("utf") for li in log)')),
    ("lines enumerated with start=line_offset", WR, _enumerate_from_offset),
    ("item-size test mirrored", WR,
     ("and txt_dset.dtype.itemsize < max_length):",
      "and max_length > txt_dset.dtype.itemsize):")),
    ("ragged counter get-or-create by try/except, enumerate(start=count)",
     WR, _ragged_try_except),
    ("metadata converted first, stored by one assignment", WR,
     _metadata_single_store),
    ("stored and temporary lookups as two early returns", CORE,
     ("        elif feat in self._usertemp:\n"
      "            return self._usertemp[feat]\n",
      "        if feat in self._usertemp:\n"
      "            return self._usertemp[feat]\n")),
    ("integer dtype chosen through a named condition", WR,
     ("        if feat in FEATURES_UINT32:\n",
      "        is_uint32 = feat in FEATURES_UINT32\n"
      "        if is_uint32:\n")),
    ("frame dtype chosen by equality", WR,
     ("        elif feat in FEATURES_UINT64:\n",
      '        elif feat == "frame":\n')),
    ("ragged counter get-or-create by try/except, two statements", WR,
     _ragged_try_except_two_steps),
    # round 5
    ("dtype chosen by first match over a dispatch tuple", WR,
     _dtype_first_match),
    ("chunk loop as counted while-loop, remainder behind a guard clause",
     WR, _chunk_while_loop),
    ("log reader with guard clauses and early return", LG,
     _log_reader_guard_clauses),
    ("ragged storage moved into a module-level helper", WR,
     _ragged_in_module_helper),
    ("width as max(itertools.chain([min], map(len, encoded)))", WR,
     _width_by_chain),
    # round 6
    ("__exit__ body moved into _finalize_h5file()", WR,
     _exit_body_in_helper),
    ("metadata attributes produced by a module-level generator", WR,
     _metadata_by_generator),
    # round 7
    ("metadata copied section by section", WR,
     ("        meta = copy.deepcopy(meta)\n",
      "        meta = {sec: dict(meta[sec]) for sec in meta}\n")),
    ("software version stored through a local for the setup section", WR,
     ('        meta.setdefault("setup", {})["software version"] = '
      'new_version\n',
      '        setup = meta.setdefault("setup", {})\n'
      '        setup["software version"] = new_version\n')),
    ("private metadata copy under its own name", WR,
     _metadata_copy_renamed),
]

# mutants that re-introduce the repaired defects (apply to the fixed tree)
MUTANTS = list(MUTANTS) + list(MUTANTS_AFTER_FIX)
