"""C06 – computed (ancillary) features always reflect current data and
settings.

R6.1 read-set ⊆ hash-set, specialised per registered recipe (effect analysis
     with a three-valued presence environment; see sa/absint.py)
R6.2 cache protocol of RTDCBase._get_ancillary_feature_data
R6.3 availability (`__contains__`) and access (`__getitem__`) consult the
     same sources under the same conditions
R6.4 emodulus scenario precedence C > B > A from the folded priorities
R6.7 the registry of external look-up tables is write-once (the hash holds
     the LUT identifier only).
R6.5 AncillaryFeature.hash digests req_features, req_config, req_func result
R6.6 plugin features pass their three dependency lists on unchanged;
     temporary features are stored read-only and refresh hierarchy children
"""
from __future__ import annotations

import ast

from ..absint import (ABSENT, PRESENT, UNKNOWN, AbsDict, Evaluator, V,
                      const)
from ..cfg import CFG, branch_facts, guarded_by
from ..core import (AnalysisError, call_name, const_str, dotted, find_calls,
                    is_self_attr, kwarg, last_attr, names_in, short, txt,
                    walk)
from ..normalize import (expand_locals, expand_ref_locals,
                         inline_helpers)

ASSUMPTIONS = [
    "NOT decided: numerical equality of a computed feature with a fresh "
    "dataset's value; correctness of the formulas inside compute functions.",
    "Assumes md5 collision freedom and that recipes with different declared "
    "dependency sets digest different byte strings.",
    "len(mm) and dataset attributes other than features/config (e.g. "
    "_feature_candidates) are not hash ingredients and are not tracked.",
    "Availability ⇔ success is decided only structurally (R6.3); recipes "
    "that raise on inconsistent settings are reported under R6.1 as "
    "'decides between value and exception'.",
]

FA = "dclab/rtdc_dataset/feat_anc_core/"
AF_MODULES = ["af_basic.py", "af_emodulus.py", "af_fl_max_ctc.py",
              "af_image_contour.py", "af_ml_class.py"]
CORE = "dclab/rtdc_dataset/core.py"


# ----------------------------------------------------------------------
# registry folding

class Instance:
    def __init__(self, rel, node, kw):
        self.rel = rel
        self.node = node
        self.feature_name = kw["feature_name"]
        self.method = kw["method"]            # (rel, FunctionDef)
        self.req_features = list(kw.get("req_features") or [])
        self.req_config = [(s, list(k)) for s, k in (kw.get("req_config")
                                                     or [])]
        self.req_func = kw.get("req_func")    # (rel, node) or None
        self.priority = kw.get("priority", 0)
        self.data = kw.get("data")

    @property
    def cfg_keys(self):
        return {(s, k) for s, ks in self.req_config for k in ks}

    @property
    def label(self):
        tag = self.data if isinstance(self.data, str) else "+".join(
            self.req_features) or "-"
        return f"{self.feature_name}[{tag};p{self.priority}]"

    def req_func_name(self):
        if self.req_func is None:
            return None
        return getattr(self.req_func[1], "name", "<lambda>")


def to_py(v, what):
    if v.kind == "const":
        return v.val
    if v.kind in ("list", "tuple"):
        return [to_py(e, what) if isinstance(e, V) else e for e in v.val]
    if v.kind == "func":
        return v.val
    raise AnalysisError(f"cannot fold {what}: {v!r}")


def make_resolver(repo):
    def resolver(rel, name):
        f = repo.func(rel, name, missing_ok=True)
        if f is not None:
            return (rel, f)
        return None
    return resolver


def fold_registry(repo):
    instances = []
    resolver = make_resolver(repo)
    for m in AF_MODULES:
        rel = FA + m
        tree = repo.tree(rel)
        ev = Evaluator(repo, rel, lambda *a: UNKNOWN, resolver=resolver)
        ev.inline_all = True

        def hook(name, args, kwargs, node, st, rel_, _rel=rel):
            if name.split(".")[-1] != "AncillaryFeature":
                return None
            kw = {}
            for k, v in kwargs.items():
                kw[k] = to_py(v, f"{_rel}:{node.lineno} {k}")
            pos = ["feature_name", "method", "req_config", "req_features",
                   "req_func", "priority", "data", "identifier"]
            for p, a in zip(pos, args):
                kw[p] = to_py(a, f"{_rel}:{node.lineno} {p}")
            if "feature_name" not in kw or "method" not in kw:
                raise AnalysisError(
                    f"{_rel}:{node.lineno}: registration without "
                    f"feature_name/method")
            instances.append(Instance(_rel, node, kw))
            return const(None)
        ev.call_hook = hook
        ev.run_module(tree, then_call="register")
    return instances


# ----------------------------------------------------------------------
# R6.1

def analyse_instance(repo, inst, instances, resolver):
    declared_f = set(inst.req_features)
    declared_c = inst.cfg_keys

    def presence(kind, sec, key):
        if kind == "feat":
            return PRESENT if key in declared_f else UNKNOWN
        if kind == "cfg":
            return PRESENT if (sec, key) in declared_c else UNKNOWN
        return UNKNOWN

    higher = [h for h in instances
              if h is not inst and h.feature_name == inst.feature_name
              and h.priority > inst.priority
              and (h.req_func is None
                   or h.req_func_name() == inst.req_func_name())]

    def feasible(assume):
        for h in higher:
            ok = True
            for f in h.req_features:
                if f in declared_f:
                    continue
                if assume.get(("feat", None, f)) is True:
                    continue
                ok = False
                break
            if ok:
                for (s, k) in h.cfg_keys:
                    if (s, k) in declared_c:
                        continue
                    if assume.get(("cfg", s, k)) is True:
                        continue
                    ok = False
                    break
            if ok:
                return False     # h would have been selected instead
        return True

    seen = {}

    def feasible_and_record(assume):
        f = feasible(assume)
        if f:
            for ident, val in assume.items():
                seen.setdefault(ident, set()).add(val)
        return f

    mrel, mfunc = inst.method
    ev = Evaluator(repo, mrel, presence, resolver=resolver,
                   feasible=feasible_and_record)
    ev.run(mfunc)
    # a recipe whose requirements include those of a higher-priority
    # sibling is never selected (no assumption needed to pre-empt it)
    ev.recipe_dead = not feasible({})
    return ev, seen


def req_func_kind(repo, inst, resolver):
    """-> ('bool'|'value', evaluator) for the instance's requirement
    function"""
    if inst.req_func is None:
        return "bool", None
    rel, func = inst.req_func
    ev = Evaluator(repo, rel, lambda *a: UNKNOWN, resolver=resolver)
    if isinstance(func, ast.Lambda):
        f2 = ast.FunctionDef(name="<lambda>", args=func.args,
                             body=[ast.Return(value=func.body)],
                             decorator_list=[], lineno=func.lineno,
                             col_offset=0)
        ev.run(f2)
    else:
        ev.run(func)
    kinds = set()
    for v, _ in ev.return_values:
        if v is None:
            kinds.add("value")
        elif v.kind == "const" and isinstance(v.val, bool):
            kinds.add("bool")
        else:
            kinds.add("value")
    if not kinds:
        raise AnalysisError(f"{rel}: requirement function never returns")
    return ("bool" if kinds == {"bool"} else "value"), ev


def r61(ctx, repo, instances):
    resolver = make_resolver(repo)
    total_paths = 0
    total_inf = 0
    for inst in instances:
        ev, seen = analyse_instance(repo, inst, instances, resolver)
        total_paths += ev.paths
        total_inf += ev.paths_infeasible
        if ev.paths_feasible == 0:
            if ev.recipe_dead:
                ctx.note(f"{inst.label}: never selected – a higher-priority "
                         f"recipe of '{inst.feature_name}' requires nothing "
                         f"more; its reads are not judged")
                continue
            raise AnalysisError(f"{inst.label}: no feasible path through "
                                f"its compute function")
        rk, rev = req_func_kind(repo, inst, resolver)
        covered_dyn_data = covered_dyn_recipes = False
        hashed = set()      # (kind, sec, key, 'value'|'presence')
        if rk == "value":
            for v, _ in rev.return_values:
                provs = set(v.prov) | rev._deep_prov(v) if v else set()
                for rid in provs:
                    r = rev.reads[rid]
                    if r.kind == "feat-dyn" and not r.key.startswith("<"):
                        covered_dyn_data = True
                    if r.kind == "attr" and r.key == "hash()":
                        covered_dyn_recipes = True
                    if r.kind in ("feat", "cfg"):
                        hashed.add((r.kind, r.sec, r.key, "value"))
                        hashed.add((r.kind, r.sec, r.key, "presence"))
                    elif r.kind in ("feat?", "cfg?"):
                        hashed.add((r.kind[:-1], r.sec, r.key, "presence"))
        groups = {}
        for rid, r in ev.reads.items():
            if not (r.affects or r.raises):
                continue
            kind = r.kind.rstrip("?")
            if kind == "attr":
                continue
            what_mode = "presence" if r.kind.endswith("?") else "value"
            ident = (kind, r.sec, r.key if kind in ("feat", "cfg")
                     else "<computed>", what_mode)
            g = groups.setdefault(ident, {"affects": False, "raises": False,
                                          "node": r.node})
            g["affects"] |= r.affects
            g["raises"] |= r.raises
        for ident, g in sorted(groups.items(), key=lambda x: str(x[0])):
            kind, sec, key, what_mode = ident
            pres = "presence of " if what_mode == "presence" else ""
            if kind == "feat":
                declared = key in inst.req_features or ident in hashed
                what = f"{pres}feature '{key}'"
            elif kind == "cfg":
                declared = (sec, key) in inst.cfg_keys or ident in hashed
                what = f"{pres}config [{sec}] '{key}'"
            elif kind == "feat-dyn":
                # features chosen at run time may be temporary (their data
                # must be digested) or computed on demand by other recipes
                # (the hash of each implementing recipe must be digested)
                declared = (covered_dyn_data and covered_dyn_recipes) \
                    or what_mode == "presence"
                what = (f"{pres}features selected at run time "
                        f"(mm[<computed name>])")
                if not declared and what_mode != "presence":
                    what += (" – requirement function digests "
                             f"{'their data' if covered_dyn_data else 'no data'}"
                             f" and {'the implementing recipes' if covered_dyn_recipes else 'no recipe hashes'}")
            else:
                # the key could not be folded: the analyser cannot tell which
                # setting is read – not a verdict on the code
                raise AnalysisError(
                    f"{inst.label}: reads config [{sec}] under a key that "
                    f"cannot be folded (line {getattr(g['node'], 'lineno', '?')})")
            mode = ("value-affecting" if g["affects"]
                    else "decides between value and exception")
            if declared:
                ok, why = True, "declared / hashed"
            elif seen.get((kind, sec, key)) == {False}:
                ok, why = True, ("presence determined ABSENT while this "
                                 "recipe is selected (a higher-priority "
                                 "recipe pre-empts it otherwise)")
            else:
                ok, why = False, (
                    "NOT part of the recipe's hash ingredients "
                    "(req_features/req_config/non-boolean req_func): a "
                    "change leaves the cached value in place")
            ctx.ob("R6.1", ok,
                   f"{inst.label} ({inst.method[1].name}) reads {what} "
                   f"[{mode}]: {why}",
                   node=g["node"],
                   key=f"{inst.rel}::{inst.label}::reads {what}")
    ctx.stat("R6.1 paths explored", total_paths)
    ctx.stat("R6.1 paths pruned as infeasible for the recipe", total_inf)


# ----------------------------------------------------------------------
# R6.2

def r62(ctx, repo):
    func = expand_ref_locals(
        repo.func(CORE, "RTDCBase._get_ancillary_feature_data"))
    cfg = CFG(func)
    # names bound to `.hash(self)` results / available_features
    hash_names = set()
    avail_names = set()
    compute_recv = {}
    for n in walk(func):
        if isinstance(n, ast.Assign) and len(n.targets) == 1 \
                and isinstance(n.targets[0], ast.Name):
            v = n.value
            calls = [c for c in ast.walk(v) if isinstance(c, ast.Call)]
            if any(last_attr(c) == "hash" for c in calls):
                only_hash = True
                # `anhash = anhash or X.hash(self)` is fine
                for nm in names_in(v):
                    pass
                hash_names.add(n.targets[0].id)
            if any(last_attr(c) == "available_features" for c in calls):
                avail_names.add(n.targets[0].id)
            for c in calls:
                if last_attr(c) == "compute" and isinstance(
                        c.func, ast.Attribute):
                    compute_recv[n.targets[0].id] = txt(c.func.value)
    if not hash_names or not avail_names:
        raise AnalysisError("R6.2: hash / availability bindings not found")
    # every definition of a hash name is a hash call (or None initialiser,
    # or `x or <hash call>`)
    hash_recv = set()
    for n in walk(func):
        if isinstance(n, ast.Assign) and len(n.targets) == 1 and isinstance(
                n.targets[0], ast.Name) and n.targets[0].id in hash_names:
            v = n.value
            ok = False
            if isinstance(v, ast.Constant) and v.value is None:
                ok = True
            cands = [v] if not isinstance(v, ast.BoolOp) else v.values
            if all((isinstance(c, ast.Call) and last_attr(c) == "hash")
                   or (isinstance(c, ast.Name) and c.id in hash_names)
                   for c in cands):
                ok = True
                for c in cands:
                    if isinstance(c, ast.Call):
                        hash_recv.add(txt(c.func.value))
            ctx.ob("R6.2", ok,
                   f"hash variable `{n.targets[0].id}` is bound to the "
                   f"recipe's hash only" if ok else
                   f"hash variable `{n.targets[0].id}` bound to "
                   f"`{short(v, 40)}` – not the recipe hash",
                   node=n, label=f"hash-binding {short(n, 50)}")

    def is_cache_load(n):
        return (isinstance(n, ast.Subscript) and isinstance(
            n.ctx, ast.Load) and isinstance(n.value, ast.Subscript)
            and is_self_attr(n.value.value, "_ancillaries")
            and isinstance(n.slice, ast.Constant) and n.slice.value == 1)

    loads = [n for n in walk(func) if is_cache_load(n)]
    if not loads:
        raise AnalysisError("R6.2: no read of the cached array found")
    for ld in loads:
        st = ld
        while not isinstance(st, ast.stmt):
            st = st.parent
        keytxt = txt(ld.value.slice)

        def hash_fact(e, truth):
            if not truth or not isinstance(e, ast.Compare) \
                    or len(e.ops) != 1 or not isinstance(e.ops[0], ast.Eq):
                return False
            sides = [e.left, e.comparators[0]]
            a = [s for s in sides if isinstance(s, ast.Subscript)
                 and isinstance(s.value, ast.Subscript)
                 and is_self_attr(s.value.value, "_ancillaries")
                 and txt(s.value.slice) == keytxt
                 and isinstance(s.slice, ast.Constant) and s.slice.value == 0]
            b = [s for s in sides if isinstance(s, ast.Name)
                 and s.id in hash_names]
            return bool(a and b)

        def avail_fact(e, truth):
            return (truth and isinstance(e, ast.Compare) and len(e.ops) == 1
                    and isinstance(e.ops[0], ast.In)
                    and txt(e.left) == keytxt
                    and isinstance(e.comparators[0], ast.Name)
                    and e.comparators[0].id in avail_names)
        for nid in cfg.ids_of(st):
            g1 = guarded_by(cfg, nid, hash_fact)
            g2 = guarded_by(cfg, nid, avail_fact)
            ctx.ob("R6.2", g1,
                   "cached array used only under `stored hash == current "
                   "hash`" if g1 else
                   "cached array can be used without comparing the stored "
                   "hash with the current one", node=ld,
                   label="cache-load guarded by hash")
            ctx.ob("R6.2", g2,
                   "cached array used only when the feature is currently "
                   "available" if g2 else
                   "cached array can be used although the feature is not "
                   "available any more", node=ld,
                   label="cache-load guarded by availability")
    # stores
    stores = [n for n in walk(func) if isinstance(n, ast.Assign)
              and any(isinstance(t, ast.Subscript)
                      and is_self_attr(t.value, "_ancillaries")
                      for t in n.targets)]
    if not stores:
        raise AnalysisError("R6.2: no store into the cache found")
    for s in stores:
        v = s.value
        ok = (isinstance(v, ast.Tuple) and len(v.elts) == 2
              and isinstance(v.elts[0], ast.Name)
              and v.elts[0].id in hash_names)
        data_names = names_in(v.elts[1]) if ok else set()
        same = ok and any(compute_recv.get(d) in hash_recv
                          for d in data_names)
        ctx.ob("R6.2", ok and same,
               "computed data are stored together with the hash of the "
               "recipe that computed them" if ok and same else
               "cache store does not pair the data with the hash of the "
               "computing recipe", node=s, label="cache-store pairs hash")
        # all outputs of a multi-output recipe: store inside a loop over the
        # result dict
        loop = None
        for a in _ancestors(s):
            if isinstance(a, ast.For):
                loop = a
                break
        multi = loop is not None and names_in(loop.iter) & set(compute_recv)
        ctx.ob("R6.2", bool(multi),
               "every output of a multi-output recipe is stored" if multi
               else "only one output of the recipe is stored",
               node=s, label="cache-store all outputs")


def _ancestors(n):
    n = getattr(n, "parent", None)
    while n is not None:
        yield n
        n = getattr(n, "parent", None)


# ----------------------------------------------------------------------
# R6.3

def r63(ctx, repo):
    cont = repo.func(CORE, "RTDCBase.__contains__")
    get = repo.func(CORE, "RTDCBase.__getitem__")

    def sources(func):
        out = {}
        for n in walk(func):
            if isinstance(n, ast.Compare) and len(n.ops) == 1 and isinstance(
                    n.ops[0], (ast.In, ast.NotIn)):
                c = n.comparators[0]
                if is_self_attr(c):
                    out[c.attr] = n
                elif dotted(c) == "AncillaryFeature.feature_names":
                    out["<ancillary registry>"] = n
            if isinstance(n, ast.Call):
                a = last_attr(n)
                if a in ("_get_ancillary_feature_data",):
                    out["<ancillary registry>"] = n
                    out["_ancillaries"] = n
                if a == "_get_basin_feature_data":
                    out["features_basin"] = n
                if a == "is_available":
                    out["<availability>"] = n
        return out
    sc, sg = sources(cont), sources(get)
    for src in ("_events", "_usertemp", "features_basin",
                "<ancillary registry>"):
        ok = src in sc and src in sg
        ctx.ob("R6.3", ok,
               f"source {src} is consulted by both __contains__ and "
               f"__getitem__" if ok else
               f"source {src} is consulted by "
               f"{'__contains__' if src in sc else '__getitem__'} only",
               node=sc.get(src) or sg.get(src) or cont,
               key=f"{CORE}::RTDCBase::availability-vs-access {src}")
    extra = set(sc) - set(sg) - {"<availability>"}
    ctx.ob("R6.3", not extra,
           "__contains__ consults no source that __getitem__ ignores"
           if not extra else f"__contains__ consults {sorted(extra)} which "
           f"__getitem__ does not", node=cont,
           key=f"{CORE}::RTDCBase::availability-vs-access extra sources")
    # the cached-ancillary shortcut: __getitem__ returns cached ancillary
    # data only when the feature is currently available (R6.2); so
    # __contains__ must not report a feature merely because it is cached
    cfg = CFG(cont)
    shortcut = None
    for n in walk(cont):
        if isinstance(n, ast.Compare) and len(n.ops) == 1 and isinstance(
                n.ops[0], ast.In) and is_self_attr(n.comparators[0],
                                                   "_ancillaries"):
            # is a True result reachable from the T edge without passing an
            # availability test?
            st = n
            while not isinstance(st, ast.stmt):
                st = st.parent
            for nid in cfg.ids_of(st):
                succ = [b for (b, l) in cfg.succ[nid] if l == "T"]

                def is_avail(node):
                    return node.ast is not None and node.kind in (
                        "test", "stmt", "for") and any(
                        last_attr(c) in ("is_available",
                                         "available_features")
                        for c in ast.walk(
                            node.ast.test if node.kind == "test"
                            else node.ast.iter if node.kind == "for"
                            else node.ast) if isinstance(c, ast.Call))
                r = cfg.reach(succ, avoid_node=is_avail,
                              include_sources=True)
                if cfg.exit in r:
                    shortcut = n
    ctx.ob("R6.3", shortcut is None,
           "a cached ancillary feature is reported only if it is currently "
           "available" if shortcut is None else
           "`feat in self._ancillaries` alone makes __contains__ answer True, "
           "while __getitem__ serves cached ancillary data only if the "
           "feature is still available (a cached feature whose required "
           "setting was removed is 'in' the dataset but reading it raises "
           "KeyError)", node=shortcut or cont,
           key=f"{CORE}::RTDCBase.__contains__::cached-ancillary shortcut")
    # `features` derives from __contains__
    feats = repo.func(CORE, "RTDCBase.features")
    ok = any(isinstance(n, ast.Compare) and isinstance(n.ops[0], ast.In)
             and txt(n.comparators[0]) == "self" for n in walk(feats))
    ctx.ob("R6.3", ok, "`features` lists exactly the candidates for which "
           "`in` holds" if ok else "`features` no longer derives from "
           "__contains__", node=feats, label="features-from-contains")


    # temporary (user-set) features win over everything that is computed or
    # fetched: on every path the `_usertemp` test precedes the ancillary and
    # basin look-ups (a temporary feature that overrides a computable one is
    # otherwise shadowed by the cached value of the latter)
    from ..normalize import canon as _canon
    g2 = _canon(repo, CORE, get, keep=("_get_ancillary_feature_data",
                                       "_get_basin_feature_data"))
    gcfg = CFG(g2)
    ut = set()
    for n_ in gcfg.nodes:
        if n_.kind == "test" and any(
                isinstance(c_, ast.Compare) and isinstance(
                    c_.ops[0], (ast.In, ast.NotIn)) and is_self_attr(
                    c_.comparators[0], "_usertemp")
                for c_ in ast.walk(n_.ast.test)):
            ut.add(n_.id)
    if not ut:
        raise AnalysisError("RTDCBase.__getitem__: `_usertemp` test lost")
    late = None
    for c_ in [x for x in walk(g2) if isinstance(x, ast.Call) and last_attr(
            x) in ("_get_ancillary_feature_data",
                   "_get_basin_feature_data")]:
        st_ = c_
        while not isinstance(st_, ast.stmt):
            st_ = st_.parent
        for nid in gcfg.ids_of(st_):
            if not gcfg.always_before(nid, lambda n__: n__.id in ut):
                late = late or c_
    ctx.ob("R6.3", late is None,
           "temporary features are looked up before computed and basin data"
           if late is None else
           f"`{short(late, 50)}` can run before the `_usertemp` test: a "
           f"temporary feature that overrides a computable one is shadowed "
           f"by cached ancillary data", node=late or get,
           label="temporary features first")

# ----------------------------------------------------------------------
# R6.4

def r64(ctx, instances):
    emo = [i for i in instances if i.feature_name == "emodulus"]
    by_case = {}
    for i in emo:
        if not isinstance(i.data, str) or not i.data.startswith("case "):
            raise AnalysisError("emodulus recipe without case label")
        by_case.setdefault(i.data[-1], []).append(i)
    for hi, lo in (("C", "B"), ("B", "A"), ("C", "A")):
        if hi not in by_case or lo not in by_case:
            raise AnalysisError(f"emodulus case {hi}/{lo} not registered")
        for a in by_case[hi]:
            for b in by_case[lo]:
                ok = a.priority > b.priority
                ctx.ob("R6.4", ok,
                       f"{a.label} has precedence over {b.label}" if ok else
                       f"{a.label} (priority {a.priority}) does not take "
                       f"precedence over {b.label} (priority {b.priority})",
                       node=a.node,
                       key=f"{a.rel}::register::{a.label} > {b.label}")
    # the cases are distinguishable by at least one requirement
    for x in emo:
        for y in emo:
            if x is y or x.data == y.data:
                continue
            dx = (set(x.req_features) | x.cfg_keys) - (
                set(y.req_features) | y.cfg_keys)
            if x.priority > y.priority:
                ctx.ob("R6.4", bool(dx),
                       f"{x.label} requires something {y.label} does not "
                       f"({sorted(map(str, dx))[:2]})" if dx else
                       f"{x.label} outranks {y.label} but needs nothing "
                       f"extra: {y.label} can never be selected",
                       node=x.node,
                       key=f"{x.rel}::register::{x.label} distinct from "
                           f"{y.label}", nontrivial=False)


# ----------------------------------------------------------------------
# R6.5

def r65(ctx, repo):
    rel = FA + "ancillary_feature.py"
    func = inline_helpers(repo, rel, repo.func(rel, "AncillaryFeature.hash"))
    ds = func.args.args[1].arg
    updates = [c for c in find_calls(func, attr="update")]
    hashers = {txt(c.func.value) for c in updates}
    rets = [n for n in walk(func) if isinstance(n, ast.Return)]
    ok = len(hashers) == 1 and all(
        isinstance(r.value, ast.Call) and last_attr(r.value) == "hexdigest"
        and txt(r.value.func.value) in hashers for r in rets) and rets
    ctx.ob("R6.5", ok, "the digest returned is that of the hasher that "
           "received the ingredients" if ok else
           "returned digest does not come from the updated hasher",
           node=rets[0] if rets else func, label="digest-of-hasher")

    def loops_over(attr):
        return [n for n in walk(func) if isinstance(n, ast.For)
                and is_self_attr(n.iter, attr)]

    def update_arg_mentions(scope, pred):
        for c in find_calls(scope, attr="update"):
            # follow one level of local definitions
            names = set()
            for a in c.args:
                if any(pred(x) for x in ast.walk(a)):
                    return c
                names |= names_in(a)
            for st in walk(scope):
                if isinstance(st, ast.Assign) and any(
                        isinstance(t, ast.Name) and t.id in names
                        for t in st.targets):
                    if any(pred(x) for x in ast.walk(st.value)):
                        return c
                    # second level (val -> data -> update)
                    n2 = names_in(st.value)
                    for st2 in walk(scope):
                        if isinstance(st2, ast.Assign) and any(
                                isinstance(t, ast.Name) and t.id in n2
                                for t in st2.targets) and any(
                                pred(x) for x in ast.walk(st2.value)):
                            return c
        return None
    # features
    lf = loops_over("req_features")
    hit = None
    for lp in lf:
        var = lp.target.id if isinstance(lp.target, ast.Name) else None
        hit = hit or update_arg_mentions(
            lp, lambda x: isinstance(x, ast.Subscript) and txt(
                x.value) == ds and txt(x.slice) == var)
    ctx.ob("R6.5", hit is not None,
           "data of every required feature is digested" if hit else
           "required feature data are not digested",
           node=hit or func, label="ingredient req_features")
    # ... on every path through the loop body (a branch that digests
    # something else instead – e.g. a cached hash of an upstream ancillary
    # feature, which is not re-validated by merely hashing it – leaves a
    # stale upstream value undetected)
    hcfg = CFG(func)
    for lp in lf:
        var = lp.target.id if isinstance(lp.target, ast.Name) else None

        def digests_data(n_):
            if n_.ast is None or n_.kind != "stmt":
                return False
            for c_ in ast.walk(n_.ast):
                if isinstance(c_, ast.Call) and last_attr(c_) == "update":
                    for a_ in c_.args:
                        src_ = expand_locals(func, a_)
                        if f"{ds}[{var}]" in src_:
                            return True
            return False
        ok = True
        for hid in hcfg.ids_of(lp):
            body_first = [b for (b, l) in hcfg.succ[hid] if l == "T"]
            for b in body_first:
                if digests_data(hcfg.nodes[b]):
                    continue
                r = hcfg.reach([b], avoid_node=digests_data,
                               avoid_edge=lambda s_, l_, d_: l_ == "x",
                               include_sources=True)
                if hid in r:
                    ok = False
        ctx.ob("R6.5", ok,
               "every path through the feature loop digests the feature's "
               "own data" if ok else
               "a path through the feature loop does not digest the "
               "feature's data (e.g. it digests a cached upstream hash "
               "instead): an upstream change that has not been re-read is "
               "not noticed", node=lp, label="req_features digested on all "
               "paths")
    # config
    lc = loops_over("req_config")
    hit = None
    for lp in lc:
        hit = hit or update_arg_mentions(
            lp, lambda x: isinstance(x, ast.Subscript) and isinstance(
                x.value, ast.Subscript) and txt(x.value.value) == f"{ds}.config")
    ctx.ob("R6.5", hit is not None,
           "value of every required configuration key is digested" if hit
           else "required configuration values are not digested",
           node=hit or func, label="ingredient req_config")
    # ... unmodified: a case fold / strip / truncation of the text that
    # carries the value makes different settings share a hash
    if hit is not None:
        LOSSY = {"lower", "upper", "casefold", "title", "capitalize",
                 "swapcase", "strip", "lstrip", "rstrip", "split",
                 "partition", "rpartition", "replace", "translate"}
        src_ = expand_locals(func, hit.args[0]) if hit.args else ""
        try:
            tree_ = ast.parse(src_, mode="eval")
        except SyntaxError:
            raise AnalysisError("AncillaryFeature.hash: digested config "
                                "expression cannot be parsed")
        lossy = None
        for n_ in ast.walk(tree_):
            if isinstance(n_, ast.Call) and isinstance(
                    n_.func, ast.Attribute) and n_.func.attr in LOSSY \
                    and ".config" in txt(n_.func.value):
                lossy = n_.func.attr
            if isinstance(n_, ast.Subscript) and isinstance(
                    n_.slice, ast.Slice) and ".config" in txt(n_.value):
                lossy = "a slice"
        ctx.ob("R6.5", lossy is None,
               "configuration values enter the digest unmodified"
               if lossy is None else
               f"the text carrying the configuration value passes through "
               f"`{lossy}` before it is digested: values that differ only "
               f"in what that discards share a hash", node=hit,
               label="req_config digested unmodified")
    # req_func
    hit = update_arg_mentions(
        func, lambda x: isinstance(x, ast.Call) and is_self_attr(
            x.func, "req_func"))
    guard_ok = False
    if hit is not None:
        # only skipped for booleans
        st = hit
        for a in _ancestors(hit):
            if isinstance(a, ast.If):
                t = txt(a.test)
                guard_ok = "isinstance" in t and "bool" in t
                break
            if isinstance(a, ast.FunctionDef):
                guard_ok = True
                break
    ctx.ob("R6.5", hit is not None and guard_ok,
           "a non-boolean requirement-function result is digested"
           if hit is not None and guard_ok else
           "requirement-function result is not digested (or skipped for "
           "non-booleans)", node=hit or func, label="ingredient req_func")
    # obj2bytes has a branch per container kind a feature object can have
    o2b = repo.func("dclab/util.py", "obj2bytes")
    tests = " ; ".join(txt(n.test) for n in walk(o2b)
                       if isinstance(n, ast.If))
    for need, why in (("np.ndarray", "arrays"),
                      ("'identifier'", "lazy feature objects / datasets"),
                      ("'__array__'", "array-like objects"),
                      ("h5py.Dataset", "HDF5 datasets")):
        ok = need in tests
        ctx.ob("R6.5", ok, f"obj2bytes has a branch for {why}" if ok else
               f"obj2bytes lost its branch for {why} ({need})",
               node=o2b, label=f"obj2bytes branch {need}", nontrivial=False)
    # ndarray branch digests the full buffer
    nd = None
    for n in walk(o2b):
        if isinstance(n, ast.If) and "np.ndarray" in txt(n.test) \
                and "isinstance" in txt(n.test):
            nd = n
    if nd is not None:
        # every return of the branch hands back the bytes of the whole
        # array (no sampled / truncated digest on any path)
        par = o2b.args.args[0].arg
        r = [x for s_ in nd.body for x in walk(s_)
             if isinstance(x, ast.Return)]

        def whole(v):
            if isinstance(v, ast.Call) and last_attr(v) == "tobytes" \
                    and not v.args and not v.keywords:
                recv = v.func.value
                if txt(recv) == par:
                    return True
                if isinstance(recv, ast.Call) and call_name(recv) in (
                        "np.ascontiguousarray", "np.asarray") and recv.args \
                        and txt(recv.args[0]) == par:
                    return True
            if isinstance(v, ast.Call) and call_name(v) == "bytes" \
                    and len(v.args) == 1 and txt(v.args[0]) == par:
                return True
            return False
        ok = bool(r) and all(whole(x.value) for x in r)
        ctx.ob("R6.5", ok, "ndarray data are digested completely (tobytes)"
               if ok else "ndarray branch of obj2bytes does not digest the "
               "complete buffer", node=nd, label="obj2bytes ndarray complete")


# ----------------------------------------------------------------------
# R6.6

def r66(ctx, repo):
    rel = "dclab/rtdc_dataset/feat_anc_plugin/plugin_feature.py"
    init = repo.func(rel, "PlugInFeature.__init__")
    sup = [c for c in find_calls(init, attr="__init__")]
    if not sup:
        raise AnalysisError("PlugInFeature.__init__: super call vanished")
    call = sup[-1]
    proc = repo.func(rel, "PlugInFeature._process_plugin_info")
    # map info key -> original key in _process_plugin_info's dict display
    info = {}
    for n in walk(proc):
        if isinstance(n, ast.Dict):
            for k, v in zip(n.keys, n.values):
                if const_str(k):
                    info[const_str(k)] = v
    for kwname, infokey, orig in (
            ("req_config", "config required", "config required"),
            ("req_features", "features required", "features required"),
            ("req_func", "method check required", "method check required"),
            ("method", "method", "method")):
        v = kwarg(call, kwname)
        ok = v is not None and isinstance(v, ast.Subscript) and const_str(
            v.slice) == infokey
        src = info.get(infokey)
        ok2 = src is not None and any(
            const_str(x) == orig for x in ast.walk(src))
        ctx.ob("R6.6", ok and ok2,
               f"plugin '{orig}' is handed to AncillaryFeature as {kwname} "
               f"unchanged" if ok and ok2 else
               f"plugin '{orig}' does not reach AncillaryFeature.{kwname}",
               node=call, label=f"plugin pass-through {kwname}")
    rel = "dclab/rtdc_dataset/feat_temp.py"
    stf = inline_helpers(repo, rel, repo.func(rel, "set_temporary_feature"))
    # on the hierarchy branch every normal path to the exit passes
    # rejuvenate() after the value was handed to the root
    scfg = CFG(stf)

    def hier_edge(src, lab, dst):
        if src.kind == "test" and lab in ("T", "F"):
            for e, t in branch_facts(src.ast.test, lab == "T"):
                if t and isinstance(e, ast.Call) and call_name(e) == \
                        "isinstance" and "RTDC_Hierarchy" in txt(e):
                    return True
        return False

    def is_rejuv(n_):
        return n_.kind == "stmt" and n_.ast is not None and any(
            isinstance(c, ast.Call) and last_attr(c) == "rejuvenate"
            for c in ast.walk(n_.ast))
    starts = [b for n_ in scfg.nodes for (b, lab) in scfg.succ[n_.id]
              if hier_edge(n_, lab, scfg.nodes[b])]
    if not starts:
        raise AnalysisError("set_temporary_feature: hierarchy branch lost")
    ok = True
    for b in starts:
        if is_rejuv(scfg.nodes[b]):
            continue
        r = scfg.reach([b], avoid_node=is_rejuv,
                       avoid_edge=lambda s_, l_, d_: l_ == "x",
                       include_sources=True)
        if scfg.exit in r:
            ok = False
    hier = [n for n in walk(stf) if isinstance(n, ast.If)
            and "RTDC_Hierarchy" in txt(n.test)]
    ctx.ob("R6.6", ok, "setting a temporary feature on a hierarchy child "
           "ends in rejuvenate()" if ok else
           "hierarchy child is not refreshed after a temporary feature was "
           "set on its root", node=hier[0] if hier else stf,
           label="temp-feature rejuvenate")
    stores = [n for n in walk(stf) if isinstance(n, ast.Assign)
              and "_usertemp" in txt(n.targets[0])]
    ok = False
    for s in stores:
        nm = s.value.id if isinstance(s.value, ast.Name) else None
        for c in find_calls(stf, attr="setflags"):
            if txt(c.func.value) == nm and txt(kwarg(c, "write", 0)) == \
                    "False":
                ok = True
    ctx.ob("R6.6", ok and bool(stores),
           "temporary feature data are stored read-only" if ok else
           "temporary feature data are stored writable",
           node=stores[0] if stores else stf, label="temp-feature read-only")


# ----------------------------------------------------------------------
# R6.8

def r68(ctx, repo):
    """Availability is decided afresh on every call.

    `_get_ancillary_feature_data` uses a cached array only when the feature is
    *currently* available (R6.2); that is only as good as
    `AncillaryFeature.available_features` / `is_available` themselves: a
    result remembered from an earlier call (on the dataset, the class or a
    memoising decorator) goes stale when a setting is removed or a temporary
    feature disappears.  Decided on the CFG: every normal path to a return
    passes the scan of the registered recipes (`is_available` of each); and
    neither function is wrapped by a memoising decorator."""
    rel = FA + "ancillary_feature.py"
    av = inline_helpers(repo, rel, repo.func(
        rel, "AncillaryFeature.available_features"))
    MEMO = ("lru_cache", "cache", "cached_property", "Cache", "memoize")
    for q in ("AncillaryFeature.available_features",
              "AncillaryFeature.is_available", "AncillaryFeature.hash"):
        f = repo.func(rel, q)
        bad = [txt(d) for d in f.decorator_list
               if any(m in txt(d) for m in MEMO)]
        ctx.ob("R6.8", not bad, f"{q} is evaluated on every call" if not bad
               else f"{q} is wrapped by `{bad[0]}`: its result does not "
               f"follow later changes of settings or data", node=f,
               key=f"{rel}::{q}::not memoised")
    cfg = CFG(av)
    scans = []
    for n in walk(av):
        if isinstance(n, (ast.For, ast.ListComp, ast.DictComp, ast.SetComp,
                          ast.GeneratorExp)):
            its = [n.iter] if isinstance(n, ast.For) else [
                g.iter for g in n.generators]
            if any("features" in txt(i) and "AncillaryFeature" in txt(i)
                   or txt(i) in ("cls.features", "AncillaryFeature.features")
                   for i in its) and any(
                    isinstance(c, ast.Call) and last_attr(c) == "is_available"
                    for c in ast.walk(n)):
                st = n
                while not isinstance(st, ast.stmt):
                    st = st.parent
                scans.append(st)
    if not scans:
        raise AnalysisError("available_features: scan of the registered "
                            "recipes not recognised")
    ids = set()
    for st in scans:
        ids |= set(cfg.ids_of(st))
    ok = cfg.must_pass(lambda n_: n_.id in ids,
                       avoid_edge=lambda s_, l_, d_: l_ == "x")
    ctx.ob("R6.8", ok, "every call scans the registered recipes for "
           "availability" if ok else
           "available_features can return without scanning the recipes (a "
           "remembered result): removing a setting or a temporary feature "
           "leaves features 'available' that can no longer be computed",
           node=scans[0], label="availability recomputed on every call")


# ----------------------------------------------------------------------
# R6.7

LUT_LOAD = "dclab/features/emodulus/load.py"


def r67(ctx, repo):
    """The hash of the emodulus recipes contains the *identifier* of the
    look-up table ([calculation] 'emodulus lut'), not the table.  That is
    only sound when an identifier denotes the same table for the life of the
    process: the registry of external tables is write-once (a store is
    reached only when the identifier is in neither registry), and nothing
    else writes it."""
    table = "EXTERNAL_LUTS"
    repo.module_assign(LUT_LOAD, table)
    writers = []
    for rel in sorted(repo.files("dclab/")):
        try:
            tree = repo.tree(rel)
        except AnalysisError:
            continue
        src_names = {table}
        if rel != LUT_LOAD:
            # only modules that can name the table
            if table not in repo.src(rel):
                continue
        for n in ast.walk(tree):
            tgt = None
            if isinstance(n, (ast.Assign, ast.AugAssign, ast.AnnAssign)):
                tgts = n.targets if isinstance(n, ast.Assign) else [n.target]
                for t in tgts:
                    if isinstance(t, ast.Subscript) and last_attr(
                            t.value) == table or isinstance(
                            t.value if isinstance(t, ast.Subscript) else None,
                            ast.Name) and t.value.id == table:
                        tgt = ("store", t, n)
            elif isinstance(n, ast.Delete):
                for t in n.targets:
                    if isinstance(t, ast.Subscript) and table in txt(t.value):
                        tgt = ("delete", t, n)
            elif isinstance(n, ast.Call) and isinstance(
                    n.func, ast.Attribute) and n.func.attr in (
                    "update", "pop", "popitem", "clear", "setdefault",
                    "__setitem__", "__delitem__") and (
                    last_attr(n.func.value) == table or isinstance(
                        n.func.value, ast.Name) and n.func.value.id == table):
                tgt = (n.func.attr, n, n)
            if tgt:
                writers.append((rel, tgt))
    if not writers:
        raise AnalysisError("R6.7: no writer of EXTERNAL_LUTS found")
    for rel, (kind, t, stmt) in writers:
        fn = stmt
        while fn is not None and not isinstance(fn, ast.FunctionDef):
            fn = getattr(fn, "parent", None)
        where = fn.name if fn is not None else "<module>"
        if kind != "store" or fn is None or rel != LUT_LOAD:
            ctx.ob("R6.7", False,
                   f"{rel}::{where} modifies the registry of external LUTs "
                   f"({kind}): an identifier that is part of a recipe hash "
                   f"can come to denote another table", node=stmt,
                   key=f"{rel}::{where}::{kind} {table}")
            continue
        key = txt(t.slice)
        cfg = CFG(fn)
        ids = cfg.ids_of(stmt)
        for reg, label in ((table, "external"),
                           ("get_internal_lut_names_dict()", "internal")):
            def fact(e, truth, reg=reg):
                if isinstance(e, ast.Compare) and len(e.ops) == 1 and txt(
                        e.left) == key and txt(e.comparators[0]) == reg:
                    if isinstance(e.ops[0], ast.In):
                        return truth is False
                    if isinstance(e.ops[0], ast.NotIn):
                        return truth is True
                return False
            ok = all(guarded_by(cfg, i, fact) for i in ids)
            ctx.ob("R6.7", ok,
                   f"{where} stores a table only under an identifier that is "
                   f"not yet an {label} one (write-once)" if ok else
                   f"{where} can store a table under an identifier that is "
                   f"already an {label} LUT identifier: datasets that "
                   f"computed emodulus with the old table keep it (the hash "
                   f"holds the identifier only)", node=stmt,
                   key=f"{rel}::{where}::write-once {label}")
        # the key is not re-bound between the test and the store
        asg = [n for n in walk(fn) if isinstance(n, (ast.Assign, ast.AugAssign))
               and key in {txt(x) for x in (n.targets if isinstance(
                   n, ast.Assign) else [n.target])}]
        late = [a for a in asg if a.lineno >= min(
            (n.lineno for n in walk(fn) if isinstance(n, ast.Compare)
             and txt(n.left) == key and table in txt(n.comparators[0])),
            default=stmt.lineno)]
        ctx.ob("R6.7", not late,
               "the identifier is not re-bound after it was tested" if not
               late else f"`{key}` is re-bound after the registry test",
               node=late[0] if late else stmt,
               key=f"{rel}::{where}::identifier stable", nontrivial=False)


def run(ctx):
    repo = ctx.repo
    ctx.rule("R6.1", "per registered recipe: every value-affecting read of "
             "a feature / configuration key by the compute function is a "
             "hash ingredient (declared), or its presence is determined "
             "while the recipe is selected", minimum=60)
    ctx.rule("R6.2", "cached data are used only under equal hash and "
             "current availability; stores pair data with the computing "
             "recipe's hash, all outputs", minimum=6)
    ctx.rule("R6.3", "__contains__ and __getitem__ consult the same sources "
             "under the same conditions", minimum=6)
    ctx.rule("R6.4", "emodulus precedence case C > B > A", minimum=8)
    ctx.rule("R6.5", "AncillaryFeature.hash digests req_features, "
             "req_config values, non-boolean req_func results; obj2bytes "
             "covers the container kinds", minimum=8)
    ctx.rule("R6.6", "plugin dependency lists passed on unchanged; "
             "temporary features read-only and refresh children", minimum=6)
    ctx.rule("R6.8", "availability of recipes is decided afresh on every "
             "call (no memo, no short-cut return)", minimum=4)
    ctx.rule("R6.7", "the registry of external look-up tables is write-once "
             "(recipe hashes contain the LUT identifier only)", minimum=2)
    instances = fold_registry(repo)
    ctx.stat("registered recipes folded", len(instances))
    ctx.stat("recipes per module", {
        m: sum(1 for i in instances if i.rel.endswith(m))
        for m in AF_MODULES})
    if len(instances) < 33:
        raise AnalysisError(f"only {len(instances)} recipes folded (33 "
                            f"confirmed by hand)")
    ctx.registry = instances
    r61(ctx, repo, instances)
    r62(ctx, repo)
    r63(ctx, repo)
    r64(ctx, instances)
    r65(ctx, repo)
    r66(ctx, repo)
    r67(ctx, repo)
    r68(ctx, repo)


def crossval(ctx):
    """thorough: compare the folded registry with the imported package"""
    import json
    import subprocess
    code = (
        "import json, dclab\n"
        "from dclab.rtdc_dataset.feat_anc_core import AncillaryFeature as A\n"
        "out=[]\n"
        "for f in A.features:\n"
        "    if type(f).__name__!='AncillaryFeature': continue\n"
        "    out.append([f.feature_name, f.method.__name__, "
        "sorted(f.req_features), sorted([s,sorted(k)] for s,k in "
        "f.req_config), f.priority, getattr(f.req_func,'__name__','')])\n"
        "print(json.dumps(out))\n")
    try:
        r = subprocess.run(["/venv/bin/python", "-c", code],
                           capture_output=True, text=True, timeout=120,
                           cwd="/tmp")
        real = json.loads(r.stdout.strip().splitlines()[-1])
    except Exception as e:
        return {"status": "skipped", "reason": str(e)[:200]}
    mine = []
    for i in ctx.registry:
        mine.append([i.feature_name, i.method[1].name,
                     sorted(i.req_features),
                     sorted([s, sorted(k)] for s, k in i.req_config),
                     i.priority, i.req_func_name() or "<lambda>"])
    a = sorted(json.dumps(x) for x in mine)
    b = sorted(json.dumps(x) for x in real)
    if a != b:
        diff = [x for x in a if x not in b][:3] + [x for x in b
                                                   if x not in a][:3]
        raise AnalysisError("folded registry disagrees with the imported "
                            f"package: {diff}")
    return {"status": "agrees", "recipes": len(a)}


def _drop(s, what):
    return s.replace(what, "")


MUTANTS = [
    ("temporary features looked up after cached ancillaries (seeded C06_12)",
     CORE,
     [("        elif feat in self._usertemp:\n"
       "            return self._usertemp[feat]\n", ""),
      ("        if data is not None:\n            return data\n"
       "        # 2. Check for h5dataset-based",
       "        if data is not None:\n            return data\n"
       "        if feat in self._usertemp:\n"
       "            return self._usertemp[feat]\n"
       "        # 2. Check for h5dataset-based")], "R6.3"),
    ("config text lower-cased before hashing (seeded C05_11)",
     FA + "ancillary_feature.py",
     ('                data = "{}:{}={}".format(sec, key, val)\n',
      '                data = "{}:{}={}".format(sec, key, val).lower()\n'),
     "R6.5"),
    ("availability memoised on a revision counter (seeded C06_10)",
     FA + "ancillary_feature.py",
     ("        # TODO: This is quite slow.\n        cols = {}\n",
      "        memo = getattr(rtdc_ds, '_anc_avail', None)\n"
      "        if memo is not None and memo[0] == len(rtdc_ds._usertemp):\n"
      "            return memo[1]\n        cols = {}\n"), "R6.8"),
    ("large arrays digested by head and tail only (seeded C04_8)",
     "dclab/util.py",
     ("    elif isinstance(obj, np.ndarray):\n        return obj.tobytes()\n",
      "    elif isinstance(obj, np.ndarray):\n"
      "        if obj.nbytes > 1048576:\n"
      "            flat = obj.reshape(-1)\n"
      "            return flat[:8192].tobytes() + flat[-8192:].tobytes()\n"
      "        return obj.tobytes()\n"), "R6.5"),
    ("LUT re-registration allowed for the same file name (seeded C06_9)",
     LUT_LOAD,
     ("    if identifier in EXTERNAL_LUTS:\n",
      "    if (identifier in EXTERNAL_LUTS and pathlib.Path(\n"
      "            EXTERNAL_LUTS[identifier]).name != pathlib.Path(path).name):\n"),
     "R6.7"),
    ("LUT registry check dropped", LUT_LOAD,
     ("    if identifier in EXTERNAL_LUTS:\n"
      "        raise ValueError(\"A LUT with an identifier '{}' \".format(identifier)\n"
      "                         + \"has already been registered!\")\n"
      "    elif identifier in", "    if identifier in"), "R6.7"),
    ("case A recipes lose the viscosity model (seeded C06_8)",
     FA + "af_emodulus.py",
     [('                         req_config=[["calculation", vm + [\n'
       '                                        "emodulus lut",\n'
       '                                        "emodulus medium"]],',
       '                         req_config=[["calculation", [\n'
       '                                        "emodulus lut",\n'
       '                                        "emodulus medium"]],'),
      ('                                                "emodulus viscosity",\n'
       '                                                "emodulus viscosity model"]]',
       '                                                "emodulus viscosity"]]')],
     "R6.1"),
    ("area_um: pixel size not declared", FA + "af_basic.py",
     ('                     req_config=[["imaging", ["pixel size"]]],\n'
      '                     req_features=["area_cvx"])',
      '                     req_features=["area_cvx"])'), "R6.1"),
    ("time: frame rate not declared", FA + "af_basic.py",
     ('                 req_config=[["imaging", ["frame rate"]]],\n', ""),
     "R6.1"),
    ("aspect: size_y not declared", FA + "af_basic.py",
     ('req_features=["size_x", "size_y"]', 'req_features=["size_x"]'),
     "R6.1"),
    ("volume: pos_y not declared", FA + "af_image_contour.py",
     ('req_features=["contour", "pos_x", "pos_y"]',
      'req_features=["contour", "pos_x"]'), "R6.1"),
    ("volume: pixel size not declared", FA + "af_image_contour.py",
     ('                     req_features=["contour", "pos_x", "pos_y"],\n'
      '                     req_config=[["imaging", ["pixel size"]]])',
      '                     req_features=["contour", "pos_x", "pos_y"])'),
     "R6.1"),
    ("bright: mask not declared", FA + "af_image_contour.py",
     ('AncillaryFeature(feature_name="bright_avg",\n'
      '                     method=compute_bright,\n'
      '                     req_features=["image", "mask"])',
      'AncillaryFeature(feature_name="bright_avg",\n'
      '                     method=compute_bright,\n'
      '                     req_features=["image"])'), "R6.1"),
    ("emodulus known media: new undeclared read", FA + "af_emodulus.py",
     ('        visc_model=calccfg.get("emodulus viscosity model", '
      '"herold-2017"),\n',
      '        visc_model=calccfg.get("emodulus viscosity model", '
      '"herold-2017"),\n        extrapolate=calccfg.get("emodulus '
      'extrapolate", False),\n'), "R6.1"),
    ("emodulus: channel width undeclared", FA + "af_emodulus.py",
     ('["setup", ["flow rate", "channel width"]]\n'
      '                                     ],\n'
      '                         req_func=check_and_identify,\n'
      '                         priority=0 + pr)',
      '["setup", ["flow rate"]]\n'
      '                                     ],\n'
      '                         req_func=check_and_identify,\n'
      '                         priority=0 + pr)'), "R6.1"),
    ("emodulus: viscosity not hashed (F06a returns)", FA + "af_emodulus.py",
     ('                                                "emodulus viscosity",\n',
      ''), "R6.1"),
    ("emodulus: medium not hashed (F06e returns)", FA + "af_emodulus.py",
     ('for key in ["emodulus medium",\n'
      '                                                "emodulus temperature",',
      'for key in ["emodulus temperature",'), "R6.1"),
    ("emodulus: requirement function boolean again", FA + "af_emodulus.py",
     ("req_func=check_and_identify,\n                         priority=4 + pr)",
      "req_func=is_channel,\n                         priority=4 + pr)"),
     "R6.1"),
    ("ctc two-channel: optional data not hashed (F06b returns)",
     FA + "af_fl_max_ctc.py",
     ("                         req_func=identify_optional_data,\n", "", 0),
     "R6.1"),
    ("ctc: third channel presence not hashed (F06f returns)",
     FA + "af_fl_max_ctc.py",
     ('    idlist.append(("fl3_max", "fl3_max" in mm))\n', ""), "R6.1"),
    ("bright_bc: bg_off not hashed (F06d returns)",
     FA + "af_image_contour.py",
     ('                     req_features=["image", "image_bg", "mask"],\n'
      '                     req_func=identify_bg_off)',
      '                     req_features=["image", "image_bg", "mask"])', 0),
     "R6.1"),
    ("ml_class: temporary score data not hashed (F06c returns)",
     FA + "af_ml_class.py",
     ("idlist.append((feat, tdata, [c.hash(mm) for c in candidates]))",
      "idlist.append((feat, [c.hash(mm) for c in candidates]))"), "R6.1"),
    ("hash: cached upstream hash instead of data (seeded C06_4)",
     FA + "ancillary_feature.py",
     ("            hasher.update(obj2bytes(rtdc_ds[col]))\n",
      "            if col in rtdc_ds._ancillaries:\n"
      "                hasher.update(obj2bytes(rtdc_ds._ancillaries[col][0]))\n"
      "            else:\n"
      "                hasher.update(obj2bytes(rtdc_ds[col]))\n"), "R6.5"),
    ("ml_class: recipe identifiers instead of hashes (seeded C06_5)",
     FA + "af_ml_class.py",
     ("[c.hash(mm) for c in candidates]",
      "[c.identifier for c in candidates]"), "R6.1"),
    ("core: cached shortcut in __contains__ (F06g returns)", CORE,
     ("            if feat in AncillaryFeature.feature_names:\n"
      "                # get all instance",
      "            if feat in self._ancillaries:\n                ct = True\n"
      "            elif feat in AncillaryFeature.feature_names:\n"
      "                # get all instance"), "R6.3"),
    ("emodulus case A: temp feature undeclared", FA + "af_emodulus.py",
     ('req_features=["area_um", "deform", "temp"]',
      'req_features=["area_um", "deform"]'), "R6.1"),
    ("emodulus: priorities B above C", FA + "af_emodulus.py",
     ("                     priority=2)", "                     priority=6)"),
     "R6.4"),
    ("emodulus: A above B", FA + "af_emodulus.py",
     ("priority=0 + pr)", "priority=3 + pr)"), "R6.4"),
    ("ctc three-channel: key dropped", FA + "af_fl_max_ctc.py",
     ('                 "crosstalk fl13",\n                 "crosstalk fl23"])',
      '                 "crosstalk fl13"])'), "R6.1"),
    ("hash: config values skipped", FA + "ancillary_feature.py",
     ('                data = "{}:{}={}".format(sec, key, val)',
      '                data = "{}:{}".format(sec, key)'), "R6.5"),
    ("hash: features skipped", FA + "ancillary_feature.py",
     ("            hasher.update(obj2bytes(rtdc_ds[col]))",
      "            hasher.update(obj2bytes(col))"), "R6.5"),
    ("hash: req_func result dropped", FA + "ancillary_feature.py",
     ("            hasher.update(obj2bytes(reqret))", "            pass"),
     "R6.5"),
    ("core: hash comparison removed", CORE,
     ("                    if self._ancillaries[feat][0] == anhash:\n",
      "                    if True:\n"), "R6.2"),
    ("core: availability test removed", CORE,
     ("            if feat in ancol:\n                # The feature is "
      "generally available.",
      "            if True:\n                # The feature is generally "
      "available."), "R6."),
    ("core: stored under stale hash", CORE,
     ("self._ancillaries[okey] = (anhash, data_dict[okey])",
      "self._ancillaries[okey] = (None, data_dict[okey])"), "R6.2"),
    ("core: __contains__ ignores temporary features", CORE,
     ("                or feat in self._usertemp\n", ""), "R6.3"),
    ("plugin: required features not passed",
     "dclab/rtdc_dataset/feat_anc_plugin/plugin_feature.py",
     ('            req_features=self.plugin_feature_info["features required"],'
      '\n', ""), "R6.6"),
    ("temp feature writable", "dclab/rtdc_dataset/feat_temp.py",
     ("        data_ro.setflags(write=False)\n", ""), "R6.6"),
    ("temp feature: no rejuvenate", "dclab/rtdc_dataset/feat_temp.py",
     ("        rtdc_ds.rejuvenate()\n", ""), "R6.6"),
    ("obj2bytes: ndarray shape only", "dclab/util.py",
     ("        return obj.tobytes()", "        return str(obj.shape).encode()"),
     "R6.5"),
]

TWINS = [
    ("area_um: local alias of config section", FA + "af_basic.py",
     ('    pxs = mm.config["imaging"]["pixel size"]\n',
      '    imcfg = mm.config["imaging"]\n    pxs = imcfg["pixel size"]\n')),
    ("emodulus: helper extracted", FA + "af_emodulus.py",
     ('    calccfg = mm.config["calculation"]\n\n    medium = ',
      '    calccfg = mm.config["calculation"]\n    _unused = 1\n\n'
      '    medium = ')),
    ("ctc: loops over tuples instead of lists", FA + "af_fl_max_ctc.py",
     ("    for i in [1, 2, 3]:\n        for j in [1, 2, 3]:",
      "    for i in (1, 2, 3):\n        for j in (1, 2, 3):", 0)),
    ("bright: requirement function as lambda", FA + "af_image_contour.py",
     ("                     req_func=identify_bg_off)",
      "                     req_func=lambda mm: identify_bg_off(mm))", 0)),
    ("volume: keyword order", FA + "af_image_contour.py",
     ('        cont=mm["contour"],\n        pos_x=mm["pos_x"],\n',
      '        pos_x=mm["pos_x"],\n        cont=mm["contour"],\n')),
    ("hash: f-string instead of format", FA + "ancillary_feature.py",
     ('                data = "{}:{}={}".format(sec, key, val)',
      '                data = f"{sec}:{key}={val}"')),
]
